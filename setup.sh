#!/bin/sh
# MANIFEST.setup_cmd: offline; verifies the two interpreters and warms the per-rank numba caches (untracked, under /verif/.cache)
set -e
cd "$(dirname "$0")"
mkdir -p .cache work evidence replays
python3-vt -c "import z3, sys; print('z3', z3.get_version_string())"
/usr/bin/cvc5 --version | head -1
/venv/bin/python -c "import numpy, pandas, numba, polars, pyarrow; print('repo deps ok')"
./check warm || true
