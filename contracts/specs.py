"""Specification step functions, written from the property statements (C01/C04/C08), shared by the code contracts (kernels.py: "ScalarFuncs.X computes step_X")
and by the lemmas (lemmas.py: merge / characterisation / filter laws of step_X) - one definition, so the two cannot drift apart.

A step function maps (accumulator, value, count of accepted values so far) to the new (accumulator, count):
  skip nulls; the first accepted value replaces the neutral start; otherwise combine.
Value algebras: float (NaN is null; datatype F), int (the library's integer null -2^63; this is what temporal values become), bool (never null)."""
import z3
from pyvc.engine import F, MIN_INT, f_isnan, f_bin, f_cmp

ALG = {
    "float": {"isnull": f_isnan, "lt": lambda a, b: f_cmp(lambda x, y: x < y, a, b), "add": lambda a, b: f_bin(lambda x, y: x + y, a, b), "mul": lambda a, b: f_bin(lambda x, y: x * y, a, b)},
    "int": {"isnull": lambda v: v == MIN_INT, "lt": lambda a, b: a < b, "add": lambda a, b: a + b, "mul": lambda a, b: a * b},
    "bool": {"isnull": lambda v: z3.BoolVal(False), "lt": lambda a, b: z3.And(z3.Not(a), b), "add": None, "mul": None},
}


def steps(kind):
    A = ALG[kind]; isn, lt, add, mul = A["isnull"], A["lt"], A["add"], A["mul"]
    def pick(better):
        return (lambda a, v, c: z3.If(isn(v), a, z3.If(c == 0, v, z3.If(better(v, a), v, a)))), (lambda a, v, c: z3.If(isn(v), c, c + 1))
    S = {"nanmin": pick(lambda v, a: lt(v, a)), "nanmax": pick(lambda v, a: lt(a, v)), "first": pick(lambda v, a: z3.BoolVal(False)),
         # `last`: the latest non-null value; its count is the number of ROWS seen (the code counts null rows too - only "== 0 iff no row yet" is ever used)
         "last": ((lambda a, v, c: z3.If(isn(v), a, v)), (lambda a, v, c: c + 1)),
         # non-skipping extrema (cumulative ops with skip_na=False): a null value replaces the accumulator but is not counted
         "min": ((lambda a, v, c: z3.If(isn(v), v, z3.If(c == 0, v, z3.If(lt(v, a), v, a)))), (lambda a, v, c: z3.If(isn(v), c, c + 1))),
         "max": ((lambda a, v, c: z3.If(isn(v), v, z3.If(c == 0, v, z3.If(lt(a, v), v, a)))), (lambda a, v, c: z3.If(isn(v), c, c + 1)))}
    if add is not None:
        S["nansum"] = ((lambda a, v, c: z3.If(isn(v), a, z3.If(c == 0, v, add(a, v)))), (lambda a, v, c: z3.If(isn(v), c, c + 1)))
        S["nansum_squares"] = ((lambda a, v, c: z3.If(isn(v), a, z3.If(c == 0, mul(v, v), add(a, mul(v, v))))), (lambda a, v, c: z3.If(isn(v), c, c + 1)))
        S["sum"] = ((lambda a, v, c: z3.If(c == 0, v, add(a, v))), (lambda a, v, c: c + 1))
    return S
