"""L tier — lemmas over specification functions, proved by manual induction (base and step are separate solver queries).

These are the facts the kernel contracts use as hypotheses ("proved separately"), and the relational statements of the properties
stated on the specification functions. Nothing here looks at code. Each @lemma returns (subname, hypotheses, goal) triples; the
registry discharges every triple with z3 (unsat of hyps ∧ ¬goal).
"""
import z3
from pyvc.registry import lemma

I, B, R = z3.IntSort(), z3.BoolSort(), z3.RealSort()
from pyvc.engine import F

k, n, a, b, r, m, j, l = z3.Ints("k n a b r m j l")
isn = lambda x: F.is_NaN(x)
flt = lambda x, y: z3.And(F.is_Fin(x), F.is_Fin(y), F.val(x) < F.val(y))


def induct(P, var, base_hyps, step_hyps, base=0):
    """forall var >= base. P(var)  from  P(base)  and  P(var) => P(var+1)"""
    return [("base", list(base_hyps), P(z3.IntVal(base))), ("step", [var >= base, P(var)] + list(step_hyps(var)), P(var + 1))]


# ---- Cnt(k, n): number of accepted rows of group k among the first n ------------------------------------------------
Cnt = z3.Function("Cnt", I, I, I); acc = z3.Function("acc", I, I, B)          # acc(k, r): row r is an accepted row of group k
cnt_def = lambda t: Cnt(k, t + 1) == Cnt(k, t) + z3.If(acc(k, t), 1, 0)


@lemma("L-cnt-bound", ("C01", "C02", "C04", "C05", "C08", "C09", "C15"))
def l_cnt_bound():
    "0 <= Cnt(k,n) <= n"
    return induct(lambda t: z3.And(Cnt(k, t) >= 0, Cnt(k, t) <= t), n, [Cnt(k, 0) == 0], lambda t: [cnt_def(t)])


@lemma("L-cnt-mono", ("C02", "C15", "C16"))
def l_cnt_mono():
    "acc(k,r), r < n  =>  Cnt(k,r) < Cnt(k,n)   (induction on n from r+1)"
    return [("base n=r+1", [acc(k, r), cnt_def(r)], Cnt(k, r) < Cnt(k, r + 1)),
            ("step", [n >= r + 1, Cnt(k, r) < Cnt(k, n), cnt_def(n)], Cnt(k, r) < Cnt(k, n + 1))]


# ---- prefix sums of non-negative counts -----------------------------------------------------------------------------
PS = z3.Function("PS", I, I); cnts = z3.Function("cnts", I, I)
ps_def = lambda t: z3.And(PS(t + 1) == PS(t) + cnts(t), cnts(t) >= 0)


@lemma("L-ps-mono", ("C02", "C16"))
def l_ps_mono():
    "m < j  =>  PS(m+1) <= PS(j); PS >= 0"
    return [("mono base j=m+1", [], PS(m + 1) <= PS(m + 1)),
            ("mono step", [j >= m + 1, PS(m + 1) <= PS(j), ps_def(j)], PS(m + 1) <= PS(j + 1))] + \
        [("nonneg " + s, h, g) for s, h, g in induct(lambda t: PS(t) >= 0, n, [PS(0) == 0], lambda t: [ps_def(t)])]


# ---- window counts: 0 <= NNc(b) - NNc(a) <= b - a, and == 0 iff all null in [a, b) ---------------------------------
NNc = z3.Function("NNc", I, I); H = z3.Function("H", I, F)
nn_def = lambda t: NNc(t + 1) == NNc(t) + z3.If(F.is_NaN(H(t)), 0, 1)
allnull = lambda lo, hi: z3.ForAll([l], z3.Implies(z3.And(lo <= l, l < hi), F.is_NaN(H(l))))


@lemma("L-nncount", ("C09",))
def l_nncount():
    "a <= b  =>  0 <= NNc(b) - NNc(a) <= b - a   (induction on b from a)"
    return [("base b=a", [], z3.And(0 <= NNc(a) - NNc(a), NNc(a) - NNc(a) <= a - a)),
            ("step", [b >= a, 0 <= NNc(b) - NNc(a), NNc(b) - NNc(a) <= b - a, nn_def(b)], z3.And(0 <= NNc(b + 1) - NNc(a), NNc(b + 1) - NNc(a) <= b + 1 - a))]


@lemma("L-nnzero", ("C09",))
def l_nnzero():
    "a <= b  =>  (NNc(b) - NNc(a) == 0  <=>  all null in [a,b))"
    return [("base b=a", [], (NNc(a) - NNc(a) == 0) == allnull(a, a)),
            ("step", [b >= a, (NNc(b) - NNc(a) == 0) == allnull(a, b), 0 <= NNc(b) - NNc(a), nn_def(b)], (NNc(b + 1) - NNc(a) == 0) == allnull(a, b + 1))]


# ---- HasF(j) <=> exists non-null before j -----------------------------------------------------------------------------
Has = z3.Function("Has", I, B)
has_def = lambda t: Has(t + 1) == z3.Or(Has(t), z3.Not(F.is_NaN(H(t))))
exnn = lambda hi: z3.Exists([l], z3.And(0 <= l, l < hi, z3.Not(F.is_NaN(H(l)))))


@lemma("L-has", ("C20",))
def l_has():
    "Has(n) <=> exists non-null in [0,n)"
    return induct(lambda t: Has(t) == exnn(t), n, [z3.Not(Has(0))], lambda t: [has_def(t)])


# ---- mixed radix: tail bound and injectivity step (non-linear) -------------------------------------------------------
c1, c2, w, t1, t2, s_ = z3.Ints("c1 c2 w t1 t2 s")


@lemma("L-radix", ("C02", "C06"))
def l_radix():
    "tail bound 0 <= c*w + t < s*w and injectivity step c*w+t = c'*w+t' => c=c', t=t'"
    return [("bound", [w > 0, 0 <= c1, c1 < s_, 0 <= t1, t1 < w], z3.And(0 <= c1 * w + t1, c1 * w + t1 < s_ * w)),
            ("step", [w > 0, 0 <= t1, t1 < w, 0 <= t2, t2 < w, c1 * w + t1 == c2 * w + t2], z3.And(c1 == c2, t1 == t2))]


@lemma("L-radix-inj", ("C02", "C06"))
def l_radix_inj():
    """Mixed-radix codes are injective for ANY number of keys. T(r, j) = sum_{l >= j} c(r, l) * wt(l) (tail sum), wt(j) = wt(j+1) * shape(j+1), wt(m-1) = 1,
    0 <= c(r, l) < shape(l).  P(j): 0 <= T(r, j) < shape(j) * wt(j) [bound]  and  T(a, j) == T(b, j)  =>  forall l in [j, m): c(a, l) == c(b, l) [injectivity].
    Downward induction on j (base j = m-1, step j+1 -> j); the step is the non-linear L-radix step lemma, which the solver re-proves inside the query."""
    T = z3.Function("Ttail", I, I, I); c = z3.Function("cdig", I, I, I); wt = z3.Function("wtR", I, I); shp = z3.Function("shpR", I, I); mm = z3.Int("mR"); ra, rb = z3.Ints("ra rb")
    dig = lambda r_, l_: z3.And(0 <= c(r_, l_), c(r_, l_) < shp(l_))
    bound = lambda r_, j_: z3.And(0 <= T(r_, j_), T(r_, j_) < shp(j_) * wt(j_))
    inj = lambda j_: z3.Implies(T(ra, j_) == T(rb, j_), z3.ForAll([l], z3.Implies(z3.And(j_ <= l, l < mm), c(ra, l) == c(rb, l))))
    base_h = [mm >= 1, wt(mm - 1) == 1, T(ra, mm - 1) == c(ra, mm - 1), T(rb, mm - 1) == c(rb, mm - 1), dig(ra, mm - 1), dig(rb, mm - 1)]
    step_h = [mm >= 1, 0 <= j, j < mm - 1, wt(j) == wt(j + 1) * shp(j + 1), wt(j + 1) >= 1, shp(j + 1) >= 1, dig(ra, j), dig(rb, j),
              T(ra, j) == c(ra, j) * wt(j) + T(ra, j + 1), T(rb, j) == c(rb, j) * wt(j) + T(rb, j + 1), bound(ra, j + 1), bound(rb, j + 1), inj(j + 1)]
    return [("base bound", base_h, z3.And(bound(ra, mm - 1), bound(rb, mm - 1))), ("base inj", base_h, inj(mm - 1)),
            ("step bound", step_h, z3.And(bound(ra, j), bound(rb, j))), ("step weights positive", step_h, wt(j) >= 1),
            ("step inj", step_h, inj(j))]


# ---- step functions written from the property statement: ONE definition (contracts/specs.py), also used by the code contracts ScalarFuncs.X == step_X
from contracts import specs as SPEC
_S = SPEC.steps("float")
STEPS = {nm: (lambda a_, v, c, fa=fa, fc=fc: (fa(a_, v, c), fc(a_, v, c))) for nm, (fa, fc) in _S.items()}
fadd = SPEC.ALG["float"]["add"]
# ---- merge laws, per value algebra (float: NaN null; int: -2^63 null, i.e. temporal values; bool: no null at all) ----------------------------------------
# A partial result of a block is (acc, count). What the combine step computes for two partials (reduce_array_pair with counts = left count, y_counts = right count):
#     Merge((a1, c1), (a2, c2)) = (a1, c1) if c2 == 0 else (step(a1, a2, c1).acc, c1 + c2)
# Representation invariant Rep of a partial built by folding `step` from the start value: count >= 0, and for the selecting reducers a positive count means the
# accumulator is a real (non-null) value. Nothing is assumed about the accumulator of an EMPTY partial: for bool / unsigned types it is not a null.
def _kind_env(kind):
    srt = {"float": F, "int": I, "bool": B}[kind]; S = SPEC.steps(kind); nul = SPEC.ALG[kind]["isnull"]
    st = {nm: (lambda a_, v_, c_, fa=fa, fc=fc: (fa(a_, v_, c_), fc(a_, v_, c_))) for nm, (fa, fc) in S.items()}
    return srt, st, nul
def rep_of(kind, nm):
    _, _, nul = _kind_env(kind)
    if nm in ("nanmin", "nanmax", "first"): return lambda x, c: z3.And(c >= 0, z3.Implies(c > 0, z3.Not(nul(x))))
    # `last`: the count counts rows. For algebras with a null the start value IS the null (empty partial => null accumulator); bool has no null and no null values
    if nm == "last": return (lambda x, c: c >= 0) if kind == "bool" else (lambda x, c: z3.And(c >= 0, z3.Implies(c == 0, nul(x))))
    if nm in ("nansum", "nansum_squares"): return lambda x, c: c >= 0
    raise KeyError(nm)
def merge_of(kind, nm):
    """what combine_chunk_results_for_factorized_key computes per group: sums (and counts) are merged with the non-skipping `sum`, everything else with itself"""
    _, st, _ = _kind_env(kind); f = st["sum" if "sum" in nm else nm]
    return lambda x1, k1, x2, k2: (z3.If(k2 == 0, x1, f(x1, x2, k1)[0]), k1 + k2)
REDUCERS = {"float": ("nanmin", "nanmax", "first", "last", "nansum"), "int": ("nanmin", "nanmax", "first", "last", "nansum"), "bool": ("nanmin", "nanmax", "first", "last")}


@lemma("L-merge-step", ("C03", "C04", "C12"))
def l_merge_step():
    "Merge(s1, step(s2, v)) == step(Merge(s1, s2), v); Rep is preserved by step and by Merge; merging with an empty partial on either side is the identity"
    out = []
    for kind, names in REDUCERS.items():
        srt, st, nul = _kind_env(kind); a1, a2, v = z3.Consts(f"a1_{kind} a2_{kind} v_{kind}", srt); cc1, cc2 = z3.Ints("cc1 cc2")
        for nm in names:
            f = st[nm]; merge = merge_of(kind, nm); rp = rep_of(kind, nm)
            s2 = f(a2, v, cc2); lhs = merge(a1, cc1, s2[0], s2[1]); mm = merge(a1, cc1, a2, cc2); rhs = f(mm[0], v, mm[1])
            hyps = [rp(a1, cc1), rp(a2, cc2)]
            out.append((f"step[{kind},{nm}]", hyps, z3.And(lhs[0] == rhs[0], lhs[1] == rhs[1])))
            out.append((f"rep-merge[{kind},{nm}]", hyps, rp(*merge(a1, cc1, a2, cc2))))
            out.append((f"rep-step[{kind},{nm}]", [rp(a2, cc2)], rp(*f(a2, v, cc2))))
            out.append((f"identity-right[{kind},{nm}]", [rp(a1, cc1)], z3.And(merge(a1, cc1, a2, z3.IntVal(0))[0] == a1, merge(a1, cc1, a2, z3.IntVal(0))[1] == cc1)))
            out.append((f"identity-left[{kind},{nm}]", [rp(a2, cc2), cc2 > 0] + ([z3.Not(nul(a2))] if nm == "last" else []), merge(a1, z3.IntVal(0), a2, cc2)[0] == a2))
    return out


# ---- L-merge: fold over the concatenation = merge of the folds (induction on the length of the second block) ----------------------
s0, t0 = z3.Ints("s0 t0")


@lemma("L-merge", ("C03", "C04", "C12"))
def l_merge():
    """Merge(Fold[0,s), Fold[s,t)) == Fold[0,t) for every s <= t (fold of rows [s,t) starts from ANY start accumulator with count 0): induction on t from s,
    the step is L-merge-step. By induction on the number of blocks the left-to-right merge of any number of consecutive block partials is the single-pass fold."""
    out = []
    for kind, names in REDUCERS.items():
        srt, st, nul = _kind_env(kind); XSk = z3.Function(f"XS_{kind}", I, srt)
        for nm in names:
            f = st[nm]; merge = merge_of(kind, nm); rp = rep_of(kind, nm)
            FA = z3.Function(f"FA_{kind}_{nm}", I, I, srt); FC = z3.Function(f"FC_{kind}_{nm}", I, I, I)      # fold of rows [s, t) from the start partial of a block
            fold_def = lambda s, t: z3.And(FA(s, t + 1) == f(FA(s, t), XSk(t), FC(s, t))[0], FC(s, t + 1) == f(FA(s, t), XSk(t), FC(s, t))[1])
            # the start accumulator of a block is unconstrained where the algebra has no null (bool / unsigned start from a real value); count 0
            fold_0 = lambda s: z3.And(FC(s, s) == 0, rp(FA(s, s), FC(s, s)))
            P = lambda t: z3.And(merge(FA(0, s0), FC(0, s0), FA(s0, t), FC(s0, t))[0] == FA(0, t), FC(0, s0) + FC(s0, t) == FC(0, t), rp(FA(s0, t), FC(s0, t)), rp(FA(0, t), FC(0, t)))
            out.append((f"[{kind},{nm}] base t=s", [s0 >= 0, fold_0(s0), rp(FA(0, s0), FC(0, s0))], P(s0)))
            out.append((f"[{kind},{nm}] step", [s0 >= 0, t0 >= s0, P(t0), rp(FA(0, s0), FC(0, s0)), fold_def(s0, t0), fold_def(0, t0)], P(t0 + 1)))
            out.append((f"[{kind},{nm}] rep base", [fold_0(0)], rp(FA(0, 0), FC(0, 0))))
            out.append((f"[{kind},{nm}] rep step", [t0 >= 0, rp(FA(0, t0), FC(0, t0)), fold_def(0, t0)], rp(FA(0, t0 + 1), FC(0, t0 + 1))))
    return out


XS = z3.Function("XS", I, F)
# ---- L-char: the fold of nanmin/nanmax/first/last equals the first-order characterisation ----------------------------
@lemma("L-char", ("C01", "C04", "C08"))
def l_char():
    "fold of nanmin over rows [0,n) = (NaN and all rows null) or (an element of the rows, bounding every non-null row); first/last likewise"
    out = []
    FA = z3.Function("FAc", I, F); FC = z3.Function("FCc", I, I)
    for nm in ("nanmin", "nanmax", "first", "last"):
        f = STEPS[nm]
        fold_def = lambda t: z3.And(FA(t + 1) == f(FA(t), XS(t), FC(t))[0], FC(t + 1) == f(FA(t), XS(t), FC(t))[1])
        if nm in ("nanmin", "nanmax"):
            le = (lambda x, y: F.val(x) <= F.val(y)) if nm == "nanmin" else (lambda x, y: F.val(x) >= F.val(y))
            char = lambda t: z3.And(FC(t) >= 0, (FC(t) == 0) == isn(FA(t)),
                                    z3.If(isn(FA(t)), z3.ForAll([l], z3.Implies(z3.And(0 <= l, l < t), isn(XS(l)))),
                                          z3.And(z3.Exists([l], z3.And(0 <= l, l < t, XS(l) == FA(t))),
                                                 z3.ForAll([l], z3.Implies(z3.And(0 <= l, l < t, z3.Not(isn(XS(l)))), le(FA(t), XS(l)))))))
        elif nm == "first":
            char = lambda t: z3.And(FC(t) >= 0, (FC(t) == 0) == isn(FA(t)),
                                    z3.If(isn(FA(t)), z3.ForAll([l], z3.Implies(z3.And(0 <= l, l < t), isn(XS(l)))),
                                          z3.Exists([l], z3.And(0 <= l, l < t, XS(l) == FA(t), z3.ForAll([m], z3.Implies(z3.And(0 <= m, m < l), isn(XS(m))))))))
        else:
            char = lambda t: z3.If(isn(FA(t)), z3.ForAll([l], z3.Implies(z3.And(0 <= l, l < t), isn(XS(l)))),
                                   z3.Exists([l], z3.And(0 <= l, l < t, XS(l) == FA(t), z3.ForAll([m], z3.Implies(z3.And(l < m, m < t), isn(XS(m)))))))
        out.append((f"[{nm}] base", [FA(0) == F.NaN, FC(0) == 0], char(z3.IntVal(0))))
        out.append((f"[{nm}] step", [n >= 0, char(n), fold_def(n)], char(n + 1)))
    return out


# ---- L-filter / L-nullkey: a fold that skips a row is the fold of the sequence without that row ----------------------
@lemma("L-filter", ("C05", "C06"))
def l_filter():
    """Spec(keys, vals, mask) = Spec(filter(keys), filter(vals), no mask), and the same for rows with a null key.
    Stated on the fold: let sel(r) say whether row r is accepted and pos(r) = number of accepted rows before r (its position in the
    filtered sequence Y, with Y(pos(r)) = X(r) for accepted r). Then Fold_sel over X[0,n) == plain Fold over Y[0,pos(n)).  Induction on n."""
    out = []
    sel = z3.Function("sel", I, B); pos = z3.Function("pos", I, I); Y = z3.Function("Y", I, F)
    for nm in ("nanmin", "nanmax", "first", "nansum", "last"):
        f = STEPS[nm]
        GA = z3.Function(f"GA_{nm}", I, F); GC = z3.Function(f"GC_{nm}", I, I)     # masked fold over X
        HA = z3.Function(f"HA_{nm}", I, F); HC = z3.Function(f"HC_{nm}", I, I)     # plain fold over Y
        g_def = lambda t: z3.And(GA(t + 1) == z3.If(sel(t), f(GA(t), XS(t), GC(t))[0], GA(t)), GC(t + 1) == z3.If(sel(t), f(GA(t), XS(t), GC(t))[1], GC(t)))
        h_def = lambda u: z3.And(HA(u + 1) == f(HA(u), Y(u), HC(u))[0], HC(u + 1) == f(HA(u), Y(u), HC(u))[1])
        pos_def = lambda t: z3.And(pos(t + 1) == pos(t) + z3.If(sel(t), 1, 0), z3.Implies(sel(t), Y(pos(t)) == XS(t)))
        P = lambda t: z3.And(GA(t) == HA(pos(t)), GC(t) == HC(pos(t)), pos(t) >= 0)
        out.append((f"[{nm}] base", [pos(0) == 0, GA(0) == HA(0), GC(0) == HC(0)], P(z3.IntVal(0))))
        out.append((f"[{nm}] step", [n >= 0, P(n), g_def(n), pos_def(n), h_def(pos(n))], P(n + 1)))
    return out


# ---- L-lastcum: the cumulative value at the last row of a group is the group reduction (same fold, by definition) -----
@lemma("L-lastcum", ("C08",))
def l_lastcum():
    """cum[r] = Fold(k, r+1).acc at an accepted row r of group k (postcondition of the cumulative kernel); the reduction is Fold(k, N).acc.
    If r is the last accepted row of k then Fold(k, t) is constant on (r, N]: induction on t."""
    FAk = z3.Function("FAk", I, F); accr = z3.Function("accr", I, B); f = STEPS["nansum"]; FCk = z3.Function("FCk", I, I)
    fold_def = lambda t: z3.And(FAk(t + 1) == z3.If(accr(t), f(FAk(t), XS(t), FCk(t))[0], FAk(t)), FCk(t + 1) == z3.If(accr(t), f(FAk(t), XS(t), FCk(t))[1], FCk(t)))
    last = z3.ForAll([l], z3.Implies(l > r, z3.Not(accr(l))))
    P = lambda t: z3.And(FAk(t) == FAk(r + 1), FCk(t) == FCk(r + 1))
    return [("base t=r+1", [], P(r + 1)), ("step", [n >= r + 1, P(n), last, fold_def(n)], P(n + 1))]


# ---- L-var: (sum x^2 - (sum x)^2 / n) / (n - d) equals the two-pass variance in real arithmetic ----------------------
@lemma("L-var", ("C16",))
def l_var():
    """With S1(n) = sum x, S2(n) = sum x^2, and M2(n) = sum (x - S1(n)/n)^2 (two-pass), S2(n) - S1(n)^2/n == M2(n).
    Proved through Welford's update, which is an exact identity of the two-pass sum: M2(n+1) = M2(n) + (x - mean_n)(x - mean_{n+1});
    the induction step is then a polynomial identity (non-linear real arithmetic)."""
    S1 = z3.Function("S1", I, R); S2 = z3.Function("S2", I, R); M2 = z3.Function("M2", I, R); X = z3.Function("Xr", I, R)
    nr = z3.ToReal(n)
    defs = [S1(n + 1) == S1(n) + X(n), S2(n + 1) == S2(n) + X(n) * X(n),
            M2(n + 1) == M2(n) + (X(n) - S1(n) / nr) * (X(n) - S1(n + 1) / (nr + 1))]
    P = lambda t, tr: S2(t) - S1(t) * S1(t) / tr == M2(t)
    x0 = z3.Real("x0")
    return [("base n=1", [S1(1) == x0, S2(1) == x0 * x0, M2(1) == 0], S2(1) - S1(1) * S1(1) / 1 == M2(1)),
            ("step", [n >= 1, P(n, nr)] + defs, P(n + 1, nr + 1))]


@lemma("L-welford", ("C16",))
def l_welford():
    """Welford's update is exact for the two-pass sum of squares: for any finite multiset with mean mu_n and a new value x,
    sum_{i<=n+1} (x_i - mu_{n+1})^2 = sum_{i<=n} (x_i - mu_n)^2 + (x - mu_n)(x - mu_{n+1}).
    Stated through the shift identity sum (x_i - c)^2 = sum (x_i - mu)^2 + n (mu - c)^2, itself an algebraic identity given sum (x_i - mu) = 0."""
    M, mu, mu1, x, nn, c = z3.Reals("M mu mu1 x nn c")
    # shifted sum of squares around c = mu1, for the old n points: M + nn*(mu - mu1)^2 ; plus the new point (x - mu1)^2
    lhs = M + nn * (mu - mu1) * (mu - mu1) + (x - mu1) * (x - mu1)
    rhs = M + (x - mu) * (x - mu1)
    return [("update", [nn >= 1, mu1 == (nn * mu + x) / (nn + 1)], lhs == rhs)]


# ---- L-ema: the decayed recursion equals the closed-form weighted sum -------------------------------------------------
@lemma("L-ema", ("C10",))
def l_ema():
    """N(t+1) = beta * (N(t) + v_t x_t)  (decay once per group row)  ==>  N(t) = sum_{s<t} beta^(t-s) v_s x_s.
    S(t, m) = sum_{s<m} beta^(t-s) v_s x_s with pw(d) = beta^d (pw(0) = 1, pw(d+1) = beta pw(d)).  Two nested inductions:
    inner (on m): beta * S(t, m) == S(t+1, m);  outer (on t): N(t) == S(t, t)."""
    Nf = z3.Function("Nf", I, R); S = z3.Function("S", I, I, R); pw = z3.Function("pw", I, R); vx = z3.Function("vx", I, R); beta = z3.Real("beta"); t = z3.Int("t")
    s_def = lambda tt, mm: S(tt, mm + 1) == S(tt, mm) + pw(tt - mm) * vx(mm)
    pw_def = lambda d: pw(d + 1) == beta * pw(d)
    inner = lambda mm: beta * S(t, mm) == S(t + 1, mm)
    out = [("inner base", [S(t, 0) == 0, S(t + 1, 0) == 0], inner(z3.IntVal(0))),
           ("inner step", [m >= 0, m < t, inner(m), s_def(t, m), s_def(t + 1, m), pw_def(t - m)], inner(m + 1)),
           ("outer base", [Nf(0) == 0, S(0, 0) == 0], Nf(0) == S(0, 0)),
           ("outer step", [t >= 0, Nf(t) == S(t, t), Nf(t + 1) == beta * (Nf(t) + vx(t)), beta * S(t, t) == S(t + 1, t), s_def(t + 1, t), pw(1) == beta, pw_def(0), pw(0) == 1],
            Nf(t + 1) == S(t + 1, t + 1))]
    # timed variant: decay by E(dt) with E multiplicative: N'(i+1) = E(T(i+1) - T(i)) * (N'(i) + vx(i)) ==> N'(i) = sum_s E(T(i) - T(s)) vx(s)
    E = z3.Function("E", R, R); T = z3.Function("T", I, R); Nt = z3.Function("Nt", I, R); St = z3.Function("St", I, I, R); x_, y_ = z3.Reals("x_ y_")
    mult = z3.ForAll([x_, y_], E(x_ + y_) == E(x_) * E(y_), patterns=[z3.MultiPattern(E(x_), E(y_))])
    st_def = lambda tt, mm: St(tt, mm + 1) == St(tt, mm) + E(T(tt) - T(mm)) * vx(mm)
    innert = lambda mm: E(T(t + 1) - T(t)) * St(t, mm) == St(t + 1, mm)
    out += [("timed inner base", [St(t, 0) == 0, St(t + 1, 0) == 0], innert(z3.IntVal(0))),
            ("timed inner step", [m >= 0, m < t, innert(m), st_def(t, m), st_def(t + 1, m), E(T(t + 1) - T(t) + (T(t) - T(m))) == E(T(t + 1) - T(t)) * E(T(t) - T(m))], innert(m + 1)),
            ("timed outer step", [t >= 0, Nt(t) == St(t, t), Nt(t + 1) == E(T(t + 1) - T(t)) * (Nt(t) + vx(t)), E(T(t + 1) - T(t)) * St(t, t) == St(t + 1, t), st_def(t + 1, t),
                                  E(T(t + 1) - T(t)) == E(T(t + 1) - T(t))], Nt(t + 1) == St(t + 1, t) + E(T(t + 1) - T(t)) * vx(t))]
    return out


# ---- L-gather: results gathered by index are independent of the completion order -------------------------------------
@lemma("L-gather", ("C03",))
def l_gather():
    """parallel_map's gather loop `for future in as_completed(..): results[index_of[future]] = future.result()`:
    after s completions in an arbitrary order `ord` (a bijection on [0,n)), results[i] = R(i) iff i has completed; at s = n every slot holds R(i)."""
    ord_ = z3.Function("ord", I, I); inv = z3.Function("ordinv", I, I); Rv = z3.Function("Rv", I, I); res = z3.Array("res", I, I); s = z3.Int("s"); i = z3.Int("i"); nt = z3.Int("nt")
    bij = z3.And(z3.ForAll([i], z3.Implies(z3.And(0 <= i, i < nt), z3.And(0 <= ord_(i), ord_(i) < nt, inv(ord_(i)) == i))),
                 z3.ForAll([i], z3.Implies(z3.And(0 <= i, i < nt), z3.And(0 <= inv(i), inv(i) < nt, ord_(inv(i)) == i))))
    P = lambda res_, s_: z3.ForAll([i], z3.Implies(z3.And(0 <= i, i < nt, inv(i) < s_), z3.Select(res_, i) == Rv(i)))
    res2 = z3.Store(res, ord_(s), Rv(ord_(s)))
    return [("base", [bij], P(res, z3.IntVal(0))), ("step", [bij, 0 <= s, s < nt, P(res, s)], P(res2, s + 1)),
            ("exit", [bij, P(res, nt)], z3.ForAll([i], z3.Implies(z3.And(0 <= i, i < nt), z3.Select(res, i) == Rv(i))))]
