"""Sidecar contracts for numba kernels (ported from the run*.py drivers). One register() per function instantiation."""
import z3
from pyvc.engine import F, V, I, B, R, MIN_INT, f_isnan, f_bin, f_cmp
from pyvc.registry import register

NUMBA = "groupby_lib/groupby/numba.py"; EMAS = "groupby_lib/emas.py"; FACT = "groupby_lib/groupby/factorization.py"

from contracts import specs as SPEC
isn = f_isnan
lt = lambda a, b: f_cmp(lambda x, y: x < y, a, b)
fadd = lambda a, b: f_bin(lambda x, y: x + y, a, b)
# ----------------------------------------------------------------------------- ScalarFuncs.X computes step_X (loop-free; per value algebra)
_SF_ARGS = {"nanmin": "cur_min", "nanmax": "cur_max", "min": "cur_max", "max": "cur_max", "first": "cur_first", "last": "cur_last", "nansum": "cur_sum", "nansum_squares": "cur_sum", "sum": "cur_sum"}
for _vk in ("float", "int", "bool"):
    _S = SPEC.steps(_vk); _sf = {"same": lambda a, b: a == b}
    for _fn, (_fa, _fc) in _S.items(): _sf[f"step_{_fn}_acc"] = _fa; _sf[f"step_{_fn}_cnt"] = _fc
    for _fn in _S:
        _a = _SF_ARGS[_fn]
        register(NUMBA, f"ScalarFuncs.{_fn}", _vk, {_a: _vk, "next_val": _vk, "count": "int"},
                 {"requires": ["count >= 0"], "ensures": [f"same(result0, step_{_fn}_acc({_a}, next_val, count))", f"result1 == step_{_fn}_cnt({_a}, next_val, count)"]},
                 specs=_sf, props=("C01", "C04", "C08", "C12"))
    _nul = SPEC.ALG[_vk]["isnull"]
    for _fn, _first in {"nancount": "cur_count", "count": "cur_size"}.items():
        register(NUMBA, f"ScalarFuncs.{_fn}", _vk, {_first: "int", "next_val": _vk, "count": "int"},
                 {"requires": ["count >= 0"], "ensures": ["result0 == result1", ("result1 == ite(isnullv(next_val), count, count + 1)" if _fn == "nancount" else "result1 == count + 1")]},
                 specs={"isnullv": _nul}, props=("C01", "C04", "C08"))

stepA = z3.Function("STEP_acc", V, V, I, V); stepC = z3.Function("STEP_cnt", V, V, I, I)
FA = z3.Function("FA", I, I, V); FC = z3.Function("FC", I, I, I)
# ---- concrete readings of the GENERIC records (uninterpreted step function on an opaque value sort), used ONLY by the bounded counterexample search (pyvc/cex.py): the
#      step is read as ScalarFuncs.<name> on float64 (which is proved above to compute step_<name>), the specification symbols are re-declared on the float sort, and the
#      native call receives the real reducer.  Nothing here takes part in the proofs.
def _cex_step(name, extra=None, inst=None, native=None, mod="groupby_lib.groupby.numba", owner="ScalarFuncs"):
    def specs():
        a, c = SPEC.steps("float")[name]; d = {"STEP_acc": a, "STEP_cnt": c}
        for k, (args, res) in (extra or {}).items(): d[k] = z3.Function(k + "_f", *[{"I": I, "F": F, "B": B}[x] for x in args + [res]]) if args is not None else res
        return d
    return {"inst": inst or {}, "specs": specs, "native": native if native is not None else {}, "step": f"func:{mod}:{owner}.{name}"}
GBR_SPECS = {"STEP_acc": stepA, "STEP_cnt": stepC, "FA": FA, "FC": FC, "same": lambda a, b: a == b, "wrapn": lambda i, n: z3.If(i < 0, i + n, i)}
def _unf(rowexpr, t):
    return (f"forall(k, 0, len(target), same(FA(k, {t} + 1), STEP_acc(FA(k, {t}), values[{rowexpr}], FC(k, {t})) if group_key[{rowexpr}] == k else FA(k, {t})) and "
            f"FC(k, {t} + 1) == (STEP_cnt(FA(k, {t}), values[{rowexpr}], FC(k, {t})) if group_key[{rowexpr}] == k else FC(k, {t})))")
_GBR_REQ = ["len(values) == len(group_key)", "forall(r, 0, len(group_key), group_key[r] < len(target))",
            "forall(k, 0, len(target), same(FA(k, 0), target[k]) and FC(k, 0) == 0)"]
register(NUMBA, "_group_by_reduce", "generic,indexer=None",
         {"group_key": "arr:int:int64", "values": "arr:opaque:V", "target": "arr:opaque:V", "reduce_func": "step:STEP", "indexer": "none", "check_in_bounds": "bool"},
         {"requires": _GBR_REQ, "frozen": ["group_key", "values"], "nonneg_index": ["target", "count"],
          "loops": {0: {"iter": "range(len(group_key))", "invariant": ["forall(k, 0, len(target), same(target[k], FA(k, _it0)) and count[k] == FC(k, _it0))"], "unfold": [_unf("_it0", "_it0")]}},
          "ensures": ["forall(k, 0, len(target), same(result0[k], FA(k, len(group_key))) and result1[k] == FC(k, len(group_key)))"]},
         specs=GBR_SPECS, props=("C01", "C04", "C06"),
         cex=_cex_step("nansum", {"FA": (["I", "I"], "F")}, {"values": "arr:float:float64", "target": "arr:float:float64"}, {"reduce_func": "step"}))
register(NUMBA, "_group_by_reduce", "generic,indexer=positions",
         {"group_key": "arr:int:int64", "values": "arr:opaque:V", "target": "arr:opaque:V", "reduce_func": "step:STEP", "indexer": "arr:int:int64", "check_in_bounds": "bool"},
         # positions follow array indexing: [-n, n), negatives wrap; out-of-range positions raise when checked, and must not occur when the check is switched off
         {"requires": _GBR_REQ + ["implies(not check_in_bounds, forall(t, 0, len(indexer), -len(group_key) <= indexer[t] and indexer[t] < len(group_key)))"],
          "frozen": ["group_key", "values", "indexer"], "nonneg_index": ["target", "count"],
          "raises": "check_in_bounds and exists(t, 0, len(indexer), indexer[t] >= len(group_key) or indexer[t] < -len(group_key))",
          "loops": {1: {"iter": "indexer", "invariant": ["forall(k, 0, len(target), same(target[k], FA(k, _it1)) and count[k] == FC(k, _it1))",
                                                        "implies(check_in_bounds, forall(t, 0, _it1, -len(group_key) <= indexer[t] and indexer[t] < len(group_key)))"],
                        "unfold": [_unf("wrapn(indexer[_it1], len(group_key))", "_it1")]}},
          "ensures": ["forall(k, 0, len(target), same(result0[k], FA(k, len(indexer))) and result1[k] == FC(k, len(indexer)))"]},
         specs=GBR_SPECS, props=("C01", "C04", "C05", "C06", "C18"),
         cex=_cex_step("nanmin", {"FA": (["I", "I"], "F")}, {"values": "arr:float:float64", "target": "arr:float:float64"}, {"reduce_func": "step"}))

# ----------------------------------------------------------------------------- _find_nth (forward: n >= 0, backward: n < 0; mask / no mask)
# Cnt(k, t): number of accepted rows (key == k and selected) of group k among the first t VISITED rows; row(t) = t forward, len-1-t backward.
# "r is the m-th accepted row of k in visit order"  <=>  accepted(r) and Cnt(k, visit(r)) == m,  visit(r) = r forward, len-1-r backward.
Cnt = z3.Function("Cnt", I, I, I)
def _nth_contract(masked, forward):
    L = "len(group_key)"
    row = "_it0" if forward else f"({L} - 1 - _it0)"
    visit = (lambda r: r) if forward else (lambda r: f"({L} - 1 - {r})")
    selr = (lambda r: f"mask[{r}]") if masked else (lambda r: "True")
    visited = (lambda r: f"0 <= {r} and {r} < _it0") if forward else (lambda r: f"{L} - _it0 <= {r} and {r} < {L}")
    nfinal = "n" if forward else "(-old(n) - 1)"
    return {
        "requires": ["n >= 0" if forward else "n < 0", "ngroups >= 0", f"forall(r, 0, {L}, group_key[r] < ngroups)", "forall(k, 0, ngroups, Cnt(k, 0) == 0)"]
                    + ([f"len(mask) == {L}"] if masked else []),
        "frozen": ["group_key"] + (["mask"] if masked else []), "nonneg_index": ["out", "seen"],
        "loops": {0: {"iter": "rng", "invariant": [
            "n >= 0",
            f"forall(k, 0, ngroups, seen[k] == Cnt(k, _it0) and Cnt(k, _it0) >= 0 and ((out[k] == -1 and Cnt(k, _it0) <= n) or ({visited('out[k]')} and group_key[out[k]] == k and {selr('out[k]')} and Cnt(k, {visit('out[k]')}) == n and Cnt(k, _it0) > n)))"]
            + ([] if forward else ["n == -old(n) - 1"]),
            "unfold": [f"forall(k, 0, ngroups, Cnt(k, _it0 + 1) == Cnt(k, _it0) + (1 if (group_key[{row}] == k and {selr(row)}) else 0))"]}},
        "ensures": [f"forall(k, 0, ngroups, (result[k] == -1 and Cnt(k, {L}) <= {nfinal}) or (0 <= result[k] and result[k] < {L} and group_key[result[k]] == k and {selr('result[k]')} and Cnt(k, {visit('result[k]')}) == {nfinal}))"]}
for _m in (False, True):
    for _fw in (True, False):
        register(NUMBA, "_find_nth", f"{'forward' if _fw else 'backward'},mask={'bool' if _m else 'None'}",
                 {"group_key": "arr:int:int64", "ngroups": "int", "n": "int", "mask": "arr:bool:bool" if _m else "none"}, _nth_contract(_m, _fw), specs={"Cnt": Cnt},
                 props=("C15", "C05", "C06"), lemma_deps=("L-cnt-bound",))

# ----------------------------------------------------------------------------- _cumulative_reduce (generic step, chunked values, mask / no mask)
# FA/FC(k, t): fold of the step function over the ACCEPTED rows (key == k and selected) of group k among the first t rows; LS(k, t): last accepted row or -1.
LS = z3.Function("LS", I, I, I); off = z3.Function("off", I, I); XV = z3.Function("XV", I, V); INIT = z3.Const("INIT", V)
def _cum_main(m, masked):
    acc = (lambda r: f"mask[{r}]") if masked else (lambda r: "True")
    return [f"forall(r, {m}, len(target), target[r] == INIT())",
            f"forall(k, 0, ngroups, group_last_seen[k] == LS(k, {m}) and group_count[k] == FC(k, {m}) and -1 <= LS(k, {m}) and LS(k, {m}) < {m} and 0 <= FC(k, {m}) and FC(k, {m}) <= {m} and implies(LS(k, {m}) >= 0, target[LS(k, {m})] == FA(k, {m})) and implies(LS(k, {m}) < 0, FA(k, {m}) == INIT()))",
            # accepted rows hold the running fold up to and including themselves; masked rows carry the fold of the earlier accepted rows (INIT when there is none)
            f"forall(r, 0, {m}, implies(group_key[r] >= 0 and {acc('r')}, target[r] == FA(group_key[r], r + 1)))",
            f"forall(r, 0, {m}, implies(group_key[r] < 0, target[r] == INIT()))",
            f"has_null_key == exists(r, 0, {m}, group_key[r] < 0)"] + \
           ([f"forall(r, 0, {m}, implies(group_key[r] >= 0 and not mask[r], target[r] == FA(group_key[r], r)))"] if masked else [])
def _cum_unf(masked):
    a = "group_key[i + 1] == k and mask[i + 1]" if masked else "group_key[i + 1] == k"
    return (f"forall(k, 0, ngroups, FA(k, i + 2) == (STEP_acc(FA(k, i + 1), XV(i + 1), FC(k, i + 1)) if {a} else FA(k, i + 1))"
            f" and FC(k, i + 2) == (STEP_cnt(FA(k, i + 1), XV(i + 1), FC(k, i + 1)) if {a} else FC(k, i + 1))"
            f" and LS(k, i + 2) == (i + 1 if {a} else LS(k, i + 1)))")
_CHUNK_REQ = ["off(0) == 0", "off(len(values)) == len(group_key)",
              "forall(c, 0, len(values), off(c + 1) == off(c) + clen_values(c) and off(c + 1) <= len(group_key) and off(c) >= 0)"]
def _late_chunkval(eng): eng.specs["chunkval"] = lambda c, p: z3.Select(eng.specs["chunk_values"](c), p)
def _step_fact(eng):
    a, v = z3.Consts("a v", V); c = z3.Int("c")
    return [z3.ForAll([a, v, c], z3.And(stepC(a, v, c) >= c, stepC(a, v, c) <= c + 1), patterns=[stepC(a, v, c)])]
for _m in (False, True):
    register(NUMBA, "_cumulative_reduce", f"generic,chunked,mask={'bool' if _m else 'None'}",
             {"group_key": "arr:int:int64", "values": "chunks:opaque:V", "reduce_func": "step:STEP", "ngroups": "int", "target": "arr:opaque:V", "mask": "arr:bool:bool" if _m else "none"},
             {"requires": ["len(target) == len(group_key)", "len(group_key) < 4294967296", "ngroups >= 0"] + (["len(mask) == len(group_key)"] if _m else []) + _CHUNK_REQ + [
                  "forall(r, 0, len(group_key), group_key[r] < ngroups)", "forall(r, 0, len(target), target[r] == INIT())",
                  "forall(k, 0, ngroups, FA(k, 0) == INIT() and FC(k, 0) == 0 and LS(k, 0) == -1)",
                  "forall(c, 0, len(values), forall(p, 0, clen_values(c), chunkval(c, p) == XV(off(c) + p)))"],
              "frozen": ["group_key"] + (["mask"] if _m else []), "nonneg_index": ["group_last_seen", "group_count"],
              "loops": {0: {"iter": "values", "invariant": ["i == off(_it0) - 1", "_it0 <= len(values)"] + _cum_main("(i + 1)", _m)},
                        1: {"iter": "arr", "invariant": ["i == off(_it0) + _it1 - 1", "_it0 < len(values)", "_it1 <= clen_values(_it0)"] + _cum_main("(i + 1)", _m),
                            "unfold": [_cum_unf(_m)], "lemmas": ["val == XV(i + 1)"]}},
              "ensures": [f"forall(r, 0, len(group_key), implies(group_key[r] >= 0 and {'mask[r]' if _m else 'True'}, result0[r] == FA(group_key[r], r + 1)))",
                          "forall(r, 0, len(group_key), implies(group_key[r] < 0, result0[r] == INIT()))", "result1 == exists(r, 0, len(group_key), group_key[r] < 0)"]
                         + (["forall(r, 0, len(group_key), implies(group_key[r] >= 0 and not mask[r], result0[r] == FA(group_key[r], r)))"] if _m else [])},
             specs={"chunkval": None, "STEP_acc": stepA, "STEP_cnt": stepC, "FA": FA, "FC": FC, "LS": LS, "off": off, "XV": XV, "INIT": lambda: INIT},
             setup=_late_chunkval, extra_hyps=_step_fact, props=("C08", "C06", "C05"),
             cex=_cex_step("nansum", {"FA": (["I", "I"], "F"), "XV": (["I"], "F"), "INIT": (None, (lambda: z3.Const("INIT_f", F)))}, {"values": "chunks:float:float64", "target": "arr:float:float64"}, {"reduce_func": "step"}))

# ----------------------------------------------------------------------------- _rolling_sum_or_mean_1d (float, chunked, mask None, sum)
HistF = z3.Function("HistF", I, I, F); Pre = z3.Function("Pre", I, I, R); NNc = z3.Function("NNc", I, I, I); XF = z3.Function("XF", I, F)
ROLL_SPECS = {"Cnt": Cnt, "HistF": HistF, "Pre": Pre, "NNc": NNc, "off": off, "X": XF, "chunkval": None,
              "idx": lambda j, pos, A, w: z3.If(j < pos, A - pos + j, A - pos - w + j), "lo": lambda A, w: z3.If(A - w > 0, A - w, 0), "minw": lambda A, w: z3.If(A < w, A, w),
              "mkfin": lambda r: F.Fin(r), "isnull": lambda f: F.is_NaN(f), "NaN": lambda: F.NaN,
              "nnval": lambda f: z3.If(F.is_NaN(f), z3.RealVal(0), F.val(f)), "nn1": lambda f: z3.If(F.is_NaN(f), 0, 1)}
# Hist(k, m) = value of the m-th ACCEPTED row (key == k and selected) of group k; Cnt(k, t) = accepted rows of k among the first t rows;
# Pre / NNc = prefix sums / prefix non-null counts over Hist(k, .).  The window of an accepted row r of group k is Hist(k, lo(A, w) .. A) with A = Cnt(k, r) + 1.
def _roll_acc(masked): return (lambda r: f"mask[{r}]") if masked else (lambda r: "True")
def _win(r):
    k, A = f"group_key[{r}]", f"(Cnt(group_key[{r}], {r}) + 1)"
    return k, A, f"(NNc({k}, {A}) - NNc({k}, lo({A}, window)))", f"(Pre({k}, {A}) - Pre({k}, lo({A}, window)))"
def _rs_main(m, masked=False, mean=False):
    A = f"Cnt(k, {m})"; acc = _roll_acc(masked); k_, A_, nn, sm = _win("r")
    val = f"mkfin({sm} / {nn})" if mean else f"mkfin({sm})"
    return [f"forall(k, 0, ngroups, {A} >= 0 and {A} <= {m} and 0 <= group_positions[k] and group_positions[k] < window and group_n_seen[k] == minw({A}, window) and implies({A} < window, group_positions[k] == {A}))",
            f"forall(k, 0, ngroups, forall(j, 0, window, implies(idx(j, group_positions[k], {A}, window) >= 0, group_buffers[k, j] == HistF(k, idx(j, group_positions[k], {A}, window))) and implies(idx(j, group_positions[k], {A}, window) < 0, isnull(group_buffers[k, j]))))",
            f"forall(k, 0, ngroups, group_non_null[k] == NNc(k, {A}) - NNc(k, lo({A}, window)) and group_sums[k] == mkfin(Pre(k, {A}) - Pre(k, lo({A}, window))))",
            f"forall(r, 0, {m}, implies(group_key[r] < 0 or not {acc('r')}, isnull(out[r])))",
            f"forall(r, 0, {m}, implies(group_key[r] >= 0 and {acc('r')}, out[r] == ite({nn} >= min_periods{f' and {nn} > 0' if mean else ''}, {val}, NaN())))",
            f"forall(r, {m}, len(out), isnull(out[r]))"]
def _roll_unf(masked, full=True):
    K = "group_key[i + 1]"; A = "Cnt(group_key[i + 1], i + 1)"; acc = _roll_acc(masked); a = f"{K} >= 0 and {acc('i + 1')}"
    u = [f"forall(k, 0, ngroups, Cnt(k, i + 2) == Cnt(k, i + 1) + (1 if (group_key[i + 1] == k and {acc('i + 1')}) else 0))",
         f"implies({a}, HistF({K}, {A}) == X(i + 1))"]
    if not full: return u
    return u + [
        f"implies({a}, Pre({K}, {A} + 1) == Pre({K}, {A}) + nnval(HistF({K}, {A})))",
        f"implies({a}, NNc({K}, {A} + 1) == NNc({K}, {A}) + nn1(HistF({K}, {A})))",
        f"implies({a} and {A} >= window, Pre({K}, {A} - window + 1) == Pre({K}, {A} - window) + nnval(HistF({K}, {A} - window)))",
        f"implies({a} and {A} >= window, NNc({K}, {A} - window + 1) == NNc({K}, {A} - window) + nn1(HistF({K}, {A} - window)))",
        # L-nncount (proved separately by induction): 0 <= NNc(k,b) - NNc(k,a) <= b - a, instantiated at the old window, the new window and the kept part
        f"implies({a}, 0 <= NNc({K}, {A}) - NNc({K}, lo({A}, window)) and NNc({K}, {A}) - NNc({K}, lo({A}, window)) <= {A} - lo({A}, window))",
        f"implies({a}, 0 <= NNc({K}, {A} + 1) - NNc({K}, lo({A} + 1, window)) and NNc({K}, {A} + 1) - NNc({K}, lo({A} + 1, window)) <= {A} + 1 - lo({A} + 1, window))",
        f"implies({a} and {A} >= window, 0 <= NNc({K}, {A}) - NNc({K}, {A} - window + 1) and NNc({K}, {A}) - NNc({K}, {A} - window + 1) <= window - 1)"]
ROLL_UNF = _roll_unf(False)
def _roll_requires(masked, mp):
    return ["window >= 1", "window <= 32767", "ngroups >= 0", "isnull(null_value)"] + (["min_periods >= 0"] if mp else []) + (["len(mask) == len(group_key)"] if masked else []) + _CHUNK_REQ + [
        "forall(c, 0, len(values), forall(p, 0, clen_values(c), chunkval(c, p) == X(off(c) + p)))",
        "forall(r, 0, len(group_key), group_key[r] < ngroups)", "forall(k, 0, ngroups, Cnt(k, 0) == 0 and NNc(k, 0) == 0 and Pre(k, 0) == 0)"]
for _mean, _m, _mp in ((False, False, False), (True, False, False), (False, True, True), (True, True, True)):
    register(NUMBA, "_rolling_sum_or_mean_1d", f"float,chunked,mask={'bool' if _m else 'None'},{'mean' if _mean else 'sum'},min_periods={'int' if _mp else 'None'}",
             {"group_key": "arr:int:int64", "values": "chunks:float:float64", "ngroups": "int", "window": "int", "min_periods": "int" if _mp else "none", "mask": "arr:bool:bool" if _m else "none",
              "null_value": "float", "want_mean": f"const:{_mean}"},
             {"requires": _roll_requires(_m, _mp),
              "frozen": ["group_key"] + (["mask"] if _m else []), "nonneg_index": ["group_sums", "group_buffers", "group_positions", "group_non_null", "group_n_seen"],
              # the conjuncts about rows of `out` already written (3 + j, 4 + j) are hypotheses only for their own preservation: nothing else depends on past outputs,
              # and the mean's quotient inside them would drag non-linear arithmetic into every other obligation
              "loops": {0: {"iter": "values", "invariant": ["i == off(_it0) - 1", "_it0 <= len(values)", "min_periods >= 0"] + _rs_main("(i + 1)", _m, _mean),
                            "self_only": {6: [(0, 6), (1, 7)], 7: [(0, 7), (1, 8)]}},
                        1: {"iter": "arr", "invariant": ["i == off(_it0) + _it1 - 1", "_it0 < len(values)", "_it1 <= clen_values(_it0)", "min_periods >= 0"] + _rs_main("(i + 1)", _m, _mean),
                            "self_only": {7: [(0, 6), (1, 7)], 8: [(0, 7), (1, 8)]},
                            "unfold": _roll_unf(_m), "lemmas": ["val == X(i + 1)"]}},
              "ensures": [x.replace("out[", "result[") for x in _rs_main("len(group_key)", _m, _mean)[3:5]]},
             specs=ROLL_SPECS, setup=_late_chunkval, props=("C09",) + (("C05",) if _m else ()) + (("C06",) if not _m and not _mean else ()), lemma_deps=("L-nncount", "L-cnt-bound"),
             thorough_only=(_mean != _m))

# ---- rolling sum on a NARROW integer dtype (int32 values, no mask): the values are exact in float64, the running sums are accumulated in float64 (never in the values' dtype:
#      a window sum of int32 values leaves the int32 range) and the result is the float image of the exact integer window sum.  X(r) = float image of the integer input XI32(r).
XI32 = z3.Function("XI32", I, I)
_ROLL_I32 = dict(ROLL_SPECS); _ROLL_I32["X"] = lambda r: F.Fin(z3.ToReal(XI32(r)))
register(NUMBA, "_rolling_sum_or_mean_1d", "int32,chunked,mask=None,sum,min_periods=None",
         {"group_key": "arr:int:int64", "values": "chunks:int:int32", "ngroups": "int", "window": "int", "min_periods": "none", "mask": "none", "null_value": "float", "want_mean": "const:False"},
         {"requires": ["window >= 1", "window <= 32767", "ngroups >= 0", "isnull(null_value)"] + _CHUNK_REQ + [
              "forall(c, 0, len(values), forall(p, 0, clen_values(c), mkfin(chunkval(c, p)) == X(off(c) + p)))",
              "forall(r, 0, len(group_key), group_key[r] < ngroups)", "forall(k, 0, ngroups, Cnt(k, 0) == 0 and NNc(k, 0) == 0 and Pre(k, 0) == 0)"],
          "frozen": ["group_key"], "nonneg_index": ["group_sums", "group_buffers", "group_positions", "group_non_null", "group_n_seen"],
          "loops": {0: {"iter": "values", "invariant": ["i == off(_it0) - 1", "_it0 <= len(values)", "min_periods >= 0"] + _rs_main("(i + 1)", False, False),
                        "self_only": {6: [(0, 6), (1, 7)], 7: [(0, 7), (1, 8)]}},
                    1: {"iter": "arr", "invariant": ["i == off(_it0) + _it1 - 1", "_it0 < len(values)", "_it1 <= clen_values(_it0)", "min_periods >= 0"] + _rs_main("(i + 1)", False, False),
                        "self_only": {7: [(0, 6), (1, 7)], 8: [(0, 7), (1, 8)]},
                        "unfold": _roll_unf(False), "lemmas": ["mkfin(val) == X(i + 1)"]}},
          "ensures": [x.replace("out[", "result[") for x in _rs_main("len(group_key)", False, False)[3:5]]},
         specs=_ROLL_I32, setup=_late_chunkval, props=("C09", "C12"), lemma_deps=("L-nncount", "L-cnt-bound"))

# ----------------------------------------------------------------------------- min_or_max_and_position and _rolling_max_or_min_1d
# min_or_max_and_position: the result is null iff every entry is null; otherwise it IS an entry (witness: ghost slot gw) and bounds every non-null entry.
# (The returned position is not specified: the kernel computes it off by one - enumerate(arr[i + 1:], i) - and its caller never uses it.)
def _momp_contract(want_max):
    better = ">=" if want_max else "<="
    def char(b, n):
        return (f"((isnullv({b}) and forall(l, 0, {n}, isnullv(arr[l]))) or (not isnullv({b}) and 0 <= gw and gw < {n} and arr[gw] == {b} and "
                f"forall(l, 0, {n}, implies(not isnullv(arr[l]), {b} {better} arr[l]))))")
    return {"requires": ["len(arr) >= 1"], "frozen": ["arr"], "ghost": {"gw": ("int", "0")},
            "ghost_updates": [("after_assign(best)#0", "gw = i"), ("after_assign(best)#1", "gw = i + 1 + _it1")],
            "loops": {0: {"invariant": ["0 <= i and i <= len(arr) - 1", "forall(l, 0, i, isnullv(arr[l]))"], "decreases": "len(arr) - i"},
                      1: {"iter": "enumerate(arr[i + 1:], i)", "ghost_modified": ["gw"], "invariant": ["0 <= i and i <= len(arr) - 1", "forall(l, 0, i, isnullv(arr[l]))", char("best", "(i + 1 + _it1)")]}},
            "ensures": [char("result0", "len(arr)"), f"(isnullv(result0) and forall(l, 0, len(arr), isnullv(arr[l]))) or (not isnullv(result0) and exists(l, 0, len(arr), arr[l] == result0))"]}
def _momp_callee(want_max, kind="float"):
    k = _momp_contract(want_max)
    return {"min_or_max_and_position": {"params": ["arr", "want_max"], "returns": [kind, "int"], "ghost_returns": {"gw": "int"}, "requires": k["requires"], "ensures": k["ensures"][:1]}}
for _kind, _dt in (("float", "float64"), ("int", "int64")):
    for _wm in (True, False):
        register(NUMBA, "min_or_max_and_position", f"{_kind},want_max={_wm}", {"arr": f"arr:{_kind}:{_dt}", "want_max": f"const:{_wm}"}, _momp_contract(_wm),
                 specs={"isnullv": (lambda f: F.is_NaN(f)) if _kind == "float" else (lambda x: x == MIN_INT)}, props=("C09", "C12"))

# _rolling_max_or_min_1d against the CONTRACT of min_or_max_and_position.  Ghost array wit[k]: the Hist index of group k's current best (skolemised witness).
# Window of an accepted row: Hist(k, lo(A, w) .. A), A = accepted rows of k so far.  current_best[k] is an ELEMENT of the window (Hist(k, wit[k])) and bounds every
# non-null element, whenever the window holds a non-null; it is null when it holds none.  Output = that extremum if at least min_periods are non-null, else null.
def _rmm_contract(want_max, masked, mp):
    acc = _roll_acc(masked); cmpop = "fge" if want_max else "fle"
    def best_char(b, k, A, w_):       # b is the extremum of the non-null part of Hist(k, lo(A, w) .. A), witnessed at index w_
        return (f"(lo({A}, window) <= {w_} and {w_} < {A} and not isnull(HistF({k}, {w_})) and {b} == HistF({k}, {w_}) and "
                f"forall(t, lo({A}, window), {A}, implies(not isnull(HistF({k}, t)), {cmpop}({b}, HistF({k}, t)))))")
    def main(m):
        A = f"Cnt(k, {m})"; k_, A_, nn, _ = _win("r")
        return [f"forall(k, 0, ngroups, {A} >= 0 and {A} <= {m} and 0 <= group_buffer_pos[k] and group_buffer_pos[k] < window and group_n_seen[k] == minw({A}, window) and implies({A} < window, group_buffer_pos[k] == {A}))",
                f"forall(k, 0, ngroups, forall(j, 0, window, implies(idx(j, group_buffer_pos[k], {A}, window) >= 0, group_buffers[k, j] == HistF(k, idx(j, group_buffer_pos[k], {A}, window))) and implies(idx(j, group_buffer_pos[k], {A}, window) < 0, isnull(group_buffers[k, j]))))",
                f"forall(k, 0, ngroups, group_non_null[k] == NNc(k, {A}) - NNc(k, lo({A}, window)) and group_non_null[k] >= 0)",
                f"forall(k, 0, ngroups, implies(group_non_null[k] > 0, {best_char('current_best[k]', 'k', A, 'wit[k]')}) and implies(group_non_null[k] == 0, isnull(current_best[k])))",
                f"forall(r, 0, {m}, implies(group_key[r] < 0 or not {acc('r')}, isnull(out[r])))",
                f"forall(r, 0, {m}, implies(group_key[r] >= 0 and {acc('r')}, ite({nn} >= min_periods and {nn} > 0, {best_char('out[r]', k_, A_, 'owit[r]')}, isnull(out[r]))))",
                f"forall(r, {m}, len(out), isnull(out[r]))"]
    K = "group_key[i + 1]"; A = "Cnt(group_key[i + 1], i + 1)"; a = f"{K} >= 0 and {acc('i + 1')}"
    def nnlink(Ax):     # L-nncount / L-nnzero (proved separately), instantiated at the current key for the window ending at Ax
        d = f"NNc({K}, {Ax}) - NNc({K}, lo({Ax}, window))"
        return [f"implies({a}, ({d} == 0) == forall(t, lo({Ax}, window), {Ax}, isnull(HistF({K}, t))))", f"implies({a}, 0 <= {d} and {d} <= {Ax} - lo({Ax}, window))"]
    unf = _roll_unf(masked)[:2] + [
        f"implies({a}, NNc({K}, {A} + 1) == NNc({K}, {A}) + nn1(HistF({K}, {A})))",
        f"implies({a} and {A} >= window, NNc({K}, {A} - window + 1) == NNc({K}, {A} - window) + nn1(HistF({K}, {A} - window)))",
        f"implies({a}, 0 <= NNc({K}, {A}) - NNc({K}, lo({A}, window)) and NNc({K}, {A}) - NNc({K}, lo({A}, window)) <= {A} - lo({A}, window))",
        f"implies({a}, 0 <= NNc({K}, {A} + 1) - NNc({K}, lo({A} + 1, window)) and NNc({K}, {A} + 1) - NNc({K}, lo({A} + 1, window)) <= {A} + 1 - lo({A} + 1, window))",
        f"implies({a} and {A} >= window, 0 <= NNc({K}, {A}) - NNc({K}, {A} - window + 1) and NNc({K}, {A}) - NNc({K}, {A} - window + 1) <= window - 1)"]
    # the "count is zero iff the window is all null" instances (quantified) are needed only by the conjuncts about the extremum (6) and the output (8)
    unf_scoped = [(h, [6, 8]) for h in (nnlink(A)[:1] + nnlink(f"({A} + 1)")[:1] + [
        f"implies({a} and {A} >= window, (NNc({K}, {A}) - NNc({K}, {A} - window + 1) == 0) == forall(t, {A} - window + 1, {A}, isnull(HistF({K}, t))))"])]
    # coverage lemmas, state right before the recompute call (the buffer already holds val at slot pos; the new window is [A + 1 - w, A + 1), A >= w)
    POS2 = "nextpos(pos, window)"; AC = "Cnt(key, i)"          # at the call the row counter i has already been advanced: the row is i, A = Cnt(key, i) accepted rows before it
    cov = ["(pos + 1) % window == nextpos(pos, window)",
           # pure arithmetic about the lap layout (full window: A >= w, 0 <= pos < w): slot and idx are inverse; advancing the position keeps every surviving slot; the new row sits at pos
           f"forall(t, {AC} - window, {AC}, 0 <= slot(t, pos, {AC}, window) and slot(t, pos, {AC}, window) < window and idx(slot(t, pos, {AC}, window), pos, {AC}, window) == t)",
           f"forall(t, {AC} + 1 - window, {AC}, slot(t, {POS2}, {AC} + 1, window) == slot(t, pos, {AC}, window))", f"slot({AC}, {POS2}, {AC} + 1, window) == pos",
           f"forall(j, 0, window, implies(j != pos, idx(j, {POS2}, {AC} + 1, window) == idx(j, pos, {AC}, window))) and idx(pos, {POS2}, {AC} + 1, window) == {AC}",
           f"forall(t, {AC} + 1 - window, {AC} + 1, 0 <= slot(t, {POS2}, {AC} + 1, window) and slot(t, {POS2}, {AC} + 1, window) < window and group_buffers[key, slot(t, {POS2}, {AC} + 1, window)] == HistF(key, t), trigger=HistF(key, t))",
           f"forall(j, 0, window, {AC} + 1 - window <= idx(j, {POS2}, {AC} + 1, window) and idx(j, {POS2}, {AC} + 1, window) < {AC} + 1 and group_buffers[key, j] == HistF(key, idx(j, {POS2}, {AC} + 1, window)), trigger=group_buffers[key, j])"]
    inv0 = ["i == off(_it0) - 1", "_it0 <= len(values)"]; inv1 = ["i == off(_it0) + _it1 - 1", "_it0 < len(values)", "_it1 <= clen_values(_it0)"]
    return {"requires": ["window >= 1", "ngroups >= 0", "isnull(null_value)"] + (["len(mask) == len(group_key)"] if masked else []) + _CHUNK_REQ + [
                "forall(c, 0, len(values), forall(p, 0, clen_values(c), chunkval(c, p) == X(off(c) + p)))",
                "forall(r, 0, len(group_key), group_key[r] < ngroups)", "forall(k, 0, ngroups, Cnt(k, 0) == 0 and NNc(k, 0) == 0)"],
            "frozen": ["group_key"] + (["mask"] if masked else []), "nonneg_index": ["current_best", "pos_of_current_best", "group_buffers", "group_buffer_pos", "group_non_null", "group_n_seen"],
            "ghost": {"wit": ("arr:int:ngroups", None), "owit": ("arr:int:len(group_key)", None)},
            "ghost_updates": [("after_store(current_best)#0", "wit[key] = Cnt(key, i)"),
                              ("after_store(current_best)#1", f"wit[key] = idx(callghost_gw, {POS2}, Cnt(key, i) + 1, window)"),
                              ("after_store(out)", "owit[i] = wit[key]")],
            "before_call": {"min_or_max_and_position": cov}, "call_facts_scope": {"min_or_max_and_position": [(1, 6), (1, 8)]},
            # hypotheses scoped to where they are used: the extremum conjunct (loop0.5 / loop1.6) only for itself and the output conjunct; the output conjuncts only for themselves
            "loops": {0: {"iter": "values", "ghost_arrays": ["wit", "owit"], "invariant": inv0 + main("(i + 1)"),
                          "self_only": {5: [(0, 5), (0, 7), (1, 6), (1, 8)], 6: [(0, 6), (1, 7)], 7: [(0, 7), (1, 8)]}},
                      1: {"iter": "arr", "ghost_arrays": ["wit", "owit"], "invariant": inv1 + main("(i + 1)"),
                          "self_only": {6: [(0, 5), (0, 7), (1, 6), (1, 8)], 7: [(0, 6), (1, 7)], 8: [(0, 7), (1, 8)]},
                          "unfold": unf, "unfold_scoped": unf_scoped, "lemmas": ["val == X(i + 1)"]}},
            "ensures": [x.replace("out[", "result[") for x in main("len(group_key)")[4:6]]}
_RMM_SPECS = dict(ROLL_SPECS); _RMM_SPECS.update({"nextpos": lambda pos, w: z3.If(pos + 1 >= w, 0, pos + 1), "slot": lambda t, pos, A, w: z3.If(t >= A - pos, t - (A - pos), t - (A - pos) + w),
                                                  "fge": lambda a, b: f_cmp(lambda x, y: x >= y, a, b), "fle": lambda a, b: f_cmp(lambda x, y: x <= y, a, b), "isnullv": lambda f: F.is_NaN(f)})
for _wm in (True, False):
    for _m, _mp in ((False, False), (True, True)):
        register(NUMBA, "_rolling_max_or_min_1d", f"float,chunked,mask={'bool' if _m else 'None'},{'max' if _wm else 'min'},min_periods={'int' if _mp else 'None'}",
                 {"group_key": "arr:int:int64", "values": "chunks:float:float64", "ngroups": "int", "window": "int", "min_periods": "int" if _mp else "none", "mask": "arr:bool:bool" if _m else "none",
                  "null_value": "float", "want_max": f"const:{_wm}"}, _rmm_contract(_wm, _m, _mp), specs=_RMM_SPECS, setup=_late_chunkval, callees=_momp_callee(_wm),
                 props=("C09",) + (("C12", "C06") if _wm and not _m else ()) + (("C05",) if _m and not _wm else ()), lemma_deps=("L-nncount", "L-nnzero", "L-cnt-bound"),
                 thorough_only=(_wm == _m))         # quick: [max, no mask] and [min, mask]; thorough: all four

# ---- the same kernel on int64 values with the integer null (what datetime64 / timedelta64 inputs run as): the SAME contract text with the specification symbols bound to
#      their integer readings (Hist / X integer-valued, isnull(x) = x == MIN_INT, the order is the integer order).  Exactness for temporal values (C09 / C12): the result IS
#      an element of the window (witness form), in the input's own integer representation.
HistI = z3.Function("HistI", I, I, I); XIv = z3.Function("XI", I, I)
_RMM_I = dict(_RMM_SPECS); _RMM_I.update({"HistF": HistI, "X": XIv, "isnull": lambda x: x == MIN_INT, "isnullv": lambda x: x == MIN_INT, "nn1": lambda x: z3.If(x == MIN_INT, 0, 1),
                                          "fge": lambda a, b: a >= b, "fle": lambda a, b: a <= b})
for _wm, _m, _mp in ((True, False, False), (False, True, True)):
    register(NUMBA, "_rolling_max_or_min_1d", f"int,chunked,mask={'bool' if _m else 'None'},{'max' if _wm else 'min'},min_periods={'int' if _mp else 'None'}",
             {"group_key": "arr:int:int64", "values": "chunks:int:int64", "ngroups": "int", "window": "int", "min_periods": "int" if _mp else "none", "mask": "arr:bool:bool" if _m else "none",
              "null_value": "int", "want_max": f"const:{_wm}"}, dict(_rmm_contract(_wm, _m, _mp), array_elem={"group_buffers": "values", "current_best": "values", "out": "values"}),
             specs=_RMM_I, setup=_late_chunkval, callees=_momp_callee(_wm, "int"), props=("C09", "C12"), lemma_deps=("L-nncount", "L-nnzero", "L-cnt-bound"), thorough_only=not _wm)

# ----------------------------------------------------------------------------- EMA kernels (emas.py)
# Specification (from the statement of C10, as the decayed-sum recursion; L-ema proves recursion == closed-form weighted mean):
#   per group q:  Nk(q, t), Dk(q, t) = decayed numerator / denominator after the first t rows;  valid(t) = value non-null and selected
#   row-count decay:  after a row of group q:  N' = beta * (N + [valid] x),  D' = beta * (D + [valid]);   out = (x + N) / (1 + D) at a valid row
#   time decay:       before a row of group q that has an earlier row:  N, D *= DECAY(t_now - t_prev(q))
#   invalid rows repeat the group's previous output (LastOut), which is NaN until the group's first valid row; null-key rows hold NaN and touch no state.
Nk = z3.Function("Nk", I, I, R); Dk = z3.Function("Dk", I, I, R); LastOut = z3.Function("LastOut", I, I, F); OutF = z3.Function("OutF", I, F)
EMA_SPECS = {"Nk": Nk, "Dk": Dk, "LastOut": LastOut, "OutF": OutF, "fval": lambda f: F.val(f), "mkfin": lambda r: F.Fin(r), "isnan": lambda f: F.is_NaN(f), "NaN": lambda: F.NaN}
def _ema_contract(masked):
    # selected(t): the row takes part at all (C05: an unselected row must behave as if it had been filtered out: no decay, no state change);
    # valid(t): selected and non-null value. A selected row with a null value still counts as an elapsed group row (decay), as C10 states.
    sel = "mask[_it0]" if masked else "True"; valid = f"({sel} and not isnan(values[_it0]))"; K = "group_key[_it0]"
    return {"requires": ["len(values) == len(group_key)", "ngroups >= 0", "not isnan(alpha)", "fval(alpha) > 0", "fval(alpha) <= 1"] + (["len(mask) == len(group_key)"] if masked else []) + [
                         # what callers pass: null keys are -1
                         "forall(r, 0, len(group_key), group_key[r] < ngroups and group_key[r] >= -1)",
                         "forall(k, 0, ngroups, Nk(k, 0) == 0 and Dk(k, 0) == 0 and isnan(LastOut(k, 0)))"],
            "frozen": ["group_key", "values"] + (["mask"] if masked else []), "nonneg_index": ["residuals", "residual_weights", "last_seen"],
            "loops": {0: {"iter": "enumerate(zip(group_key, values))",
                "invariant": ["not isnan(beta)", "fval(beta) == 1 - fval(alpha)", "len(out) == len(group_key)",
                              "forall(q, 0, ngroups, residuals[q] == mkfin(Nk(q, _it0)) and residual_weights[q] == mkfin(Dk(q, _it0)) and last_seen[q] == LastOut(q, _it0) and Dk(q, _it0) >= 0)",
                              "forall(r, 0, _it0, implies(group_key[r] >= 0, out[r] == OutF(r)))",
                              "forall(r, 0, _it0, implies(group_key[r] < 0, isnan(out[r])))"],
                "unfold": [f"forall(q, 0, ngroups, Nk(q, _it0 + 1) == ite({K} == q and {sel}, (1 - fval(alpha)) * (Nk(q, _it0) + ite({valid}, fval(values[_it0]), 0)), Nk(q, _it0))"
                           f" and Dk(q, _it0 + 1) == ite({K} == q and {sel}, (1 - fval(alpha)) * (Dk(q, _it0) + ite({valid}, 1, 0)), Dk(q, _it0))"
                           f" and LastOut(q, _it0 + 1) == ite({K} == q, OutF(_it0), LastOut(q, _it0)))",
                           f"implies({K} >= 0, OutF(_it0) == ite({valid}, mkfin((fval(values[_it0]) + Nk({K}, _it0)) / (1 + Dk({K}, _it0))), LastOut({K}, _it0)))"]}},
            "ensures": ["forall(r, 0, len(group_key), implies(group_key[r] >= 0, result[r] == OutF(r)))", "forall(r, 0, len(group_key), implies(group_key[r] < 0, isnan(result[r])))"]}
for _m in (False, True):
    register(EMAS, "_ema_grouped", f"float,mask={'bool' if _m else 'None'}", {"group_key": "arr:int:int64", "values": "arr:float:float64", "alpha": "float", "ngroups": "int", "mask": "arr:bool:bool" if _m else "none"},
             dict(_ema_contract(_m), no_auto_props=_m), specs=EMA_SPECS, props=("C05",) if _m else ("C10", "C06"))      # the masked instantiation carries the known C05 finding: it serves C05 only

# ---- ungrouped, row-count decay.  Leading invalid rows are unconstrained by the statement (the code leaves 0.0 there through out[-1]).
N1 = z3.Function("N1", I, R); D1 = z3.Function("D1", I, R)
for _vk, _dt in (("float", "float64"), ("int", "int64")):
    _valid = (lambda r: f"not isnan(arr[{r}])") if _vk == "float" else (lambda r: "True")
    _x = (lambda r: f"fval(arr[{r}])") if _vk == "float" else (lambda r: f"arr[{r}]")
    register(EMAS, "_ema_adjusted", _vk, {"arr": f"arr:{_vk}:{_dt}", "alpha": "float"},
             {"requires": ["not isnan(alpha)", "fval(alpha) > 0", "fval(alpha) <= 1", "N1(0) == 0 and D1(0) == 0"], "frozen": ["arr"],
              "var_types": {"residual": "float", "residual_weights": "float"},
              "loops": {0: {"iter": "enumerate(arr)", "invariant": [
                  "not isnan(beta)", "fval(beta) == 1 - fval(alpha)", "len(out) == len(arr)", "residual == mkfin(N1(_it0))", "residual_weights == mkfin(D1(_it0))", "D1(_it0) >= 0",
                  f"forall(r, 0, _it0, implies({_valid('r')}, out[r] == mkfin(({_x('r')} + N1(r)) / (1 + D1(r)))))",
                  f"forall(r, 1, _it0, implies(not ({_valid('r')}), out[r] == out[r - 1]))"],
                  "unfold": [f"N1(_it0 + 1) == (1 - fval(alpha)) * (N1(_it0) + ite({_valid('_it0')}, {_x('_it0')}, 0))", f"D1(_it0 + 1) == (1 - fval(alpha)) * (D1(_it0) + ite({_valid('_it0')}, 1, 0))"]}},
              "ensures": [f"forall(r, 0, len(arr), implies({_valid('r')}, result[r] == mkfin(({_x('r')} + N1(r)) / (1 + D1(r)))))",
                          f"forall(r, 1, len(arr), implies(not ({_valid('r')}), result[r] == result[r - 1]))"]},
             specs={"N1": N1, "D1": D1, **{k: v for k, v in EMA_SPECS.items() if k in ("fval", "mkfin", "isnan", "NaN")}}, props=("C10",))

# ---- time decay.  DECAY(dt) is what the code computes: exp(-log(2) * (dt / halflife)); A-exp: EXP(x) > 0 (stated as a hypothesis, listed as an assumption).
EXPf = z3.Function("EXP", R, R); LOGf = z3.Function("LOG", R, R)
from pyvc.engine import rdiv as _rdiv
def _decay(dt): return EXPf(-(LOGf(z3.RealVal(2))) * _rdiv(z3.ToReal(dt), z3.ToReal(z3.Int("halflife"))))
def _exp_pos(eng):
    x = z3.Real("x"); return [z3.ForAll([x], EXPf(x) > 0, patterns=[EXPf(x)])]
TIMED_SPECS = dict(EMA_SPECS); TIMED_SPECS.update({"__exp__": EXPf, "__log__": LOGf, "DECAY": _decay, "LT": z3.Function("LT", I, I, I), "Seen": z3.Function("Seen", I, I, B),
                                                   "NkD": z3.Function("NkD", I, I, R), "DkD": z3.Function("DkD", I, I, R), "N1": N1, "D1": D1, "N1d": z3.Function("N1d", I, R), "D1d": z3.Function("D1d", I, R)})
def _ema_timed_contract(masked):
    valid = "(not isnan(values[_it0])" + (" and mask[_it0])" if masked else ")"); K = "group_key[_it0]"
    return {"requires": ["len(values) == len(group_key)", "len(times) == len(group_key)", "ngroups >= 0", "halflife >= 1"] + (["len(mask) == len(group_key)"] if masked else []) + [
                         "forall(r, 0, len(group_key), group_key[r] < ngroups and group_key[r] >= -1)",
                         "forall(k, 0, ngroups, Nk(k, 0) == 0 and Dk(k, 0) == 0 and isnan(LastOut(k, 0)) and not Seen(k, 0))"],
            "frozen": ["group_key", "values", "times"] + (["mask"] if masked else []), "nonneg_index": ["residuals", "residual_weights", "last_seen", "last_seen_times", "seen"],
            "loops": {0: {"iter": "enumerate(zip(group_key, values))",
                "invariant": ["len(out) == len(group_key)",
                              "forall(q, 0, ngroups, residuals[q] == mkfin(Nk(q, _it0)) and residual_weights[q] == mkfin(Dk(q, _it0)) and last_seen[q] == LastOut(q, _it0) and Dk(q, _it0) >= 0"
                              " and implies(Seen(q, _it0), last_seen_times[q] == LT(q, _it0)) and seen[q] == Seen(q, _it0))",
                              "forall(r, 0, _it0, implies(group_key[r] >= 0, out[r] == OutF(r)))",
                              "forall(r, 0, _it0, implies(group_key[r] < 0, isnan(out[r])))"],
                # the decayed state of the row's group just before the row is used: NkD, DkD
                "unfold": [f"implies({K} >= 0, NkD({K}, _it0) == ite(Seen({K}, _it0), DECAY(times[_it0] - LT({K}, _it0)) * Nk({K}, _it0), Nk({K}, _it0)) and DkD({K}, _it0) == ite(Seen({K}, _it0), DECAY(times[_it0] - LT({K}, _it0)) * Dk({K}, _it0), Dk({K}, _it0)))",
                           f"forall(q, 0, ngroups, Nk(q, _it0 + 1) == ite({K} == q, NkD(q, _it0) + ite({valid}, fval(values[_it0]), 0), Nk(q, _it0))"
                           f" and Dk(q, _it0 + 1) == ite({K} == q, DkD(q, _it0) + ite({valid}, 1, 0), Dk(q, _it0))"
                           f" and LastOut(q, _it0 + 1) == ite({K} == q, OutF(_it0), LastOut(q, _it0)) and Seen(q, _it0 + 1) == (Seen(q, _it0) or {K} == q) and LT(q, _it0 + 1) == ite({K} == q, times[_it0], LT(q, _it0)))",
                           f"implies({K} >= 0, OutF(_it0) == ite({valid}, mkfin((fval(values[_it0]) + NkD({K}, _it0)) / (1 + DkD({K}, _it0))), LastOut({K}, _it0)))"]}},
            "ensures": ["forall(r, 0, len(group_key), implies(group_key[r] >= 0, result[r] == OutF(r)))", "forall(r, 0, len(group_key), implies(group_key[r] < 0, isnan(result[r])))"]}
for _m in (False, True):
    register(EMAS, "_ema_grouped_timed", f"float,mask={'bool' if _m else 'None'}",
             {"group_key": "arr:int:int64", "values": "arr:float:float64", "times": "arr:int:int64", "halflife": "int", "ngroups": "int", "mask": "arr:bool:bool" if _m else "none"},
             _ema_timed_contract(_m), specs=TIMED_SPECS, extra_hyps=_exp_pos, props=("C10", "C06", "C05"))

# ungrouped, time decay:  state before row t (t >= 1) is decayed by DECAY(times[t] - times[t-1]);  row 0 starts the sums
register(EMAS, "_ema_time_weighted", "float", {"arr": "arr:float:float64", "times": "arr:int:int64", "halflife": "int"},
         {"requires": ["len(times) == len(arr)", "halflife >= 1", "N1(1) == ite(isnan(arr[0]), 0, fval(arr[0])) and D1(1) == ite(isnan(arr[0]), 0, 1)"], "frozen": ["arr", "times"],
          "var_types": {"residual": "float", "residual_weights": "float"},
          "loops": {0: {"iter": "enumerate(arr[1:], 1)", "invariant": [
              "len(out) == len(arr)", "len(arr) >= 1", "residual == mkfin(N1(1 + _it0))", "residual_weights == mkfin(D1(1 + _it0))", "D1(1 + _it0) >= 0",
              "implies(not isnan(arr[0]), out[0] == arr[0])",
              "forall(r, 1, 1 + _it0, implies(not isnan(arr[r]), out[r] == mkfin((fval(arr[r]) + N1d(r)) / (1 + D1d(r)))))",
              "forall(r, 1, 1 + _it0, implies(isnan(arr[r]), out[r] == out[r - 1]))"],
              "unfold": ["N1d(1 + _it0) == DECAY(times[1 + _it0] - times[_it0]) * N1(1 + _it0) and D1d(1 + _it0) == DECAY(times[1 + _it0] - times[_it0]) * D1(1 + _it0)",
                         "N1(2 + _it0) == N1d(1 + _it0) + ite(isnan(arr[1 + _it0]), 0, fval(arr[1 + _it0])) and D1(2 + _it0) == D1d(1 + _it0) + ite(isnan(arr[1 + _it0]), 0, 1)"]}},
          "ensures": ["implies(len(arr) >= 1 and not isnan(arr[0]), result[0] == arr[0])",
                      "forall(r, 1, len(arr), implies(not isnan(arr[r]), result[r] == mkfin((fval(arr[r]) + N1d(r)) / (1 + D1d(r)))))",
                      "forall(r, 1, len(arr), implies(isnan(arr[r]), result[r] == result[r - 1]))"]},
         specs=TIMED_SPECS, extra_hyps=_exp_pos, props=("C10",))

# ----------------------------------------------------------------------------- factorization
CODES0 = z3.Function("CODES0", I, I, I); WT = z3.Function("WT", I, I); WS2 = z3.Function("WS2", I, I, I); RowNull = z3.Function("RowNull", I, B); Mc = z3.Int("M"); Tlen = z3.Int("T")
FSPECS = {"CODES0": CODES0, "WT": WT, "WS2": WS2, "RowNull": RowNull, "M": lambda: Mc, "T": lambda: Tlen, "Code": lambda r_: WS2(r_, Mc)}
register(FACT, "_weight_code_sum", "int64", {"codes": "arr:int:int64", "weights": "arr:int:int64"},
         {"ghost_params": {"r": "int"},
          "requires": ["M() >= 1", "len(codes) == M()", "len(weights) == M()", "WT(M() - 1) == 1", "WS2(r, 0) == 0",
                       "forall(l, 0, M(), codes[l] == CODES0(r, l) and weights[l] == WT(l))", "forall(l, 0, M(), WS2(r, l + 1) == WS2(r, l) + CODES0(r, l) * WT(l))",
                       "RowNull(r) == exists(l, 0, M(), CODES0(r, l) == -1)"],
          "frozen": ["codes", "weights"],
          "loops": {0: {"iter": "zip(codes[:-1], weights[:-1])", "invariant": ["out == WS2(r, _it0)", "forall(l, 0, _it0, CODES0(r, l) != -1)"]}},
          "ensures": ["result == ite(RowNull(r), -1, WS2(r, M()))"]}, specs=FSPECS, props=("C02", "C06"))
_WCS = {"_weight_code_sum": {"params": ["codes", "weights"], "returns": ["int"],
        "requires": ["len(codes) == M()", "len(weights) == M()", "forall(l, 0, M(), codes[l] == CODES0(r, l) and weights[l] == WT(l))"],
        "ensures": ["result == ite(RowNull(r), -1, Code(r))"]}}
register(FACT, "_combine_factorizations", "array tracker", {"codes": "arr2:int:int64", "code_weights": "arr:int:int64", "code_tracker": "arr:int:int32"},
         {"call_ghost": {"_weight_code_sum": {"r": "i"}}, "ghost": {"wit": ("arr:int:T()", None)}, "ghost_updates": [("after_store(code_tracker)", "wit[k] = i")],
          "nonneg_index": ["code_tracker", "combined_codes"],
          "requires": ["M() >= 1", "T() >= 1", "len(code_tracker) == T()", "len(code_weights) == M()", "len(codes) < 2147483648",
                       "forall(l, 0, M(), code_weights[l] == WT(l))", "forall(a, 0, len(codes), forall(b, 0, M(), codes[a, b] == CODES0(a, b)))",
                       "forall(x, 0, T(), code_tracker[x] == -1)",
                       "forall(a, 0, len(codes), implies(not RowNull(a), 0 <= Code(a) and Code(a) < T()))",
                       "forall(a, 0, len(codes), forall(b, 0, len(codes), implies(not RowNull(a) and not RowNull(b), (Code(a) == Code(b)) == forall(l, 0, M(), CODES0(a, l) == CODES0(b, l)))))"],
          "loops": {0: {"iter": "range(len(combined_codes))", "ghost_arrays": ["wit"],
              "invariant": ["0 <= group_id and group_id <= _it0", "len(combined_codes) == len(codes)",
                            "forall(a, _it0, len(codes), forall(b, 0, M(), codes[a, b] == CODES0(a, b)))",
                            "forall(a, 0, _it0, implies(RowNull(a), combined_codes[a] == -1))",
                            "forall(a, 0, _it0, implies(not RowNull(a), 0 <= combined_codes[a] and combined_codes[a] < group_id and code_tracker[Code(a)] == combined_codes[a] and forall(b, 0, M(), codes[combined_codes[a], b] == CODES0(a, b))))",
                            "forall(x, 0, T(), code_tracker[x] == -1 or (0 <= code_tracker[x] and code_tracker[x] < group_id and 0 <= wit[x] and wit[x] < _it0 and not RowNull(wit[x]) and Code(wit[x]) == x and combined_codes[wit[x]] == code_tracker[x]))"]}},
          "ensures": ["forall(a, 0, len(codes), implies(RowNull(a), result0[a] == -1))",
                      "forall(a, 0, len(codes), implies(not RowNull(a), 0 <= result0[a] and forall(b, 0, M(), result1[result0[a], b] == CODES0(a, b))))",
                      "forall(a, 0, len(codes), forall(c, 0, len(codes), implies(not RowNull(a) and not RowNull(c), (result0[a] == result0[c]) == forall(l, 0, M(), CODES0(a, l) == CODES0(c, l)))))"]},
         specs=FSPECS, callees=_WCS, extra_hyps=lambda eng: [z3.Int("len1_codes") == Mc], props=("C02", "C06"),
         # bounded search only: the defining equations of the mixed-radix code (the callee _weight_code_sum is proved against them; L-radix derives range and injectivity from them)
         cex={"axioms": ["WT(M() - 1) == 1", "forall(a, 0, len(codes), WS2(a, 0) == 0 and forall(l, 0, M(), WS2(a, l + 1) == WS2(a, l) + CODES0(a, l) * WT(l)) and RowNull(a) == exists(l, 0, M(), CODES0(a, l) == -1))"]})

# ----------------------------------------------------------------------------- _monotonic_factorization (sorted-prefix fast path; chunked keys; float with NaN / int)
# XM(j): the j-th key of the flattened chunk list; offm(c): first flat index of chunk c (chunks may be empty).
offm = z3.Function("offm", I, I)
def _late_chunkarr(eng): eng.specs["chunkvalm"] = lambda c, p: z3.Select(eng.specs["chunk_arr_list"](c), p)
def _mono_contract(kind):
    NCH = "len(arr_list)"
    inv_for = ["0 <= arr_num and arr_num < len(arr_list)", "0 <= cur_arr_pos and cur_arr_pos < clen_arr_list(arr_num)", "offm(arr_num) + cur_arr_pos == _it1",
               "1 <= n_labels and n_labels <= _it1 + 1", "prev == XM(_it1)", "len(codes) == total_len and len(labels) == total_len",
               "forall(j, 0, _it1 + 1, not isnullm(XM(j)))", "forall(j, 1, _it1 + 1, ge(XM(j), XM(j - 1)))",
               "forall(a, 0, n_labels - 1, lt(labels[a], labels[a + 1]))", "labels[n_labels - 1] == XM(_it1)",
               "forall(j, 0, _it1 + 1, 0 <= codes[j] and codes[j] < n_labels and labels[codes[j]] == XM(j))", "codes[_it1] == n_labels - 1"]
    return {"requires": ["total_len >= 0", "total_len <= 4294967296", f"{NCH} >= 1", "offm(0) == 0", f"offm({NCH}) == total_len",
                         f"forall(c, 0, {NCH}, offm(c + 1) == offm(c) + clen_arr_list(c))",
                         # L-ps-mono (proved separately): offsets of non-negative lengths are monotone
                         f"forall(c, 0, {NCH} + 1, forall(d, c, {NCH} + 1, offm(c) <= offm(d)))",
                         f"forall(c, 0, {NCH}, forall(p, 0, clen_arr_list(c), chunkvalm(c, p) == XM(offm(c) + p)))"],
            "loops": {0: {"iter": "len(arr) == 0", "rebind": {"arr": "arr_list[arr_num]"}, "decreases": f"{NCH} - arr_num",
                          "invariant": [f"0 <= arr_num and arr_num < {NCH}", "offm(arr_num) == 0", "total_len >= 1"]},
                      1: {"iter": "range(1, total_len)", "rebind": {"arr": "arr_list[arr_num]"}, "invariant": inv_for},
                      2: {"iter": "cur_arr_pos == len(arr)", "rebind": {"arr": "arr_list[arr_num]"}, "decreases": f"{NCH} - arr_num",
                          "invariant": [f"0 <= arr_num and arr_num < {NCH}", "0 <= cur_arr_pos and cur_arr_pos <= clen_arr_list(arr_num)", "offm(arr_num) + cur_arr_pos == i", "i < total_len"]}},
            "ensures": ["0 <= result0 and result0 <= total_len",
                        "forall(j, 0, result0, not isnullm(XM(j)))", "forall(j, 1, result0, ge(XM(j), XM(j - 1)))",
                        # the cut is the first null or descent (or the end)
                        "implies(result0 < total_len and result0 >= 1, not ge(XM(result0), XM(result0 - 1)))", "implies(result0 == 0 and total_len >= 1, isnullm(XM(0)))",
                        # the label at a row's code equals the row's key; labels strictly increasing (hence pairwise distinct, and equal code <=> equal key)
                        "forall(j, 0, result0, 0 <= result1[j] and result1[j] < len(result2) and result2[result1[j]] == XM(j))",
                        "forall(a, 0, len(result2) - 1, lt(result2[a], result2[a + 1]))"]}
for _vk, _dt in (("float", "float64"), ("int", "int64")):
    _sp = {"offm": offm, "chunkvalm": None, "XM": z3.Function(f"XM_{_vk}", I, F if _vk == "float" else I)}
    if _vk == "float":
        _sp.update({"isnullm": lambda f: F.is_NaN(f), "ge": lambda a, b: f_cmp(lambda x, y: x >= y, a, b), "lt": lambda a, b: f_cmp(lambda x, y: x < y, a, b)})
    else:
        _sp.update({"isnullm": lambda x: z3.BoolVal(False), "ge": lambda a, b: a >= b, "lt": lambda a, b: a < b})
    register(FACT, "_monotonic_factorization", f"{_vk},chunked", {"arr_list": f"chunks:{_vk}:{_dt}", "total_len": "int"}, _mono_contract(_vk), specs=_sp, setup=_late_chunkarr,
             props=("C02", "C06", "C03"), lemma_deps=("L-ps-mono",))

# ----------------------------------------------------------------------------- reduce_array_pair (generic reducer) and combine_chunk_results_for_factorized_key
# out[j] = x[j] where the right partial is empty (y_counts[j] == 0), else reducer(x[j], y[j], count of the left partial)[0];  modifies nothing;  race-free (prange)
def _rap_contract(counts_given, ycounts_given):
    cnt = "counts[j]" if counts_given else "1"
    val = f"(x[j] if y_counts[j] == 0 else STEP_acc(x[j], y[j], {cnt}))" if ycounts_given else f"STEP_acc(x[j], y[j], {cnt})"
    return {"requires": ["len(y) == len(x)"] + (["len(counts) == len(x)"] if counts_given else []) + (["len(y_counts) == len(x)"] if ycounts_given else []),
            "frozen": ["x", "y"] + (["counts"] if counts_given else []) + (["y_counts"] if ycounts_given else []),
            "loops": {0: {"iter": "nb.prange(len(x))", "invariant": ["len(out) == len(x)", f"forall(j, 0, _it0, out[j] == {val})", "forall(j, _it0, len(x), out[j] == x[j])"]}},
            "ensures": ["len(result) == len(x)", f"forall(j, 0, len(x), result[j] == {val})"]}
for _c in (False, True):
    for _y in (False, True):
        register(NUMBA, "reduce_array_pair", f"generic,counts={'array' if _c else 'None'},y_counts={'array' if _y else 'None'}",
                 {"x": "arr:opaque:V", "y": "arr:opaque:V", "reducer": "step:STEP", "counts": "arr:int:int64" if _c else "none", "y_counts": "arr:int:int64" if _y else "none"},
                 _rap_contract(_c, _y), specs={"STEP_acc": stepA, "STEP_cnt": stepC}, props=("C01", "C03", "C04", "C12"),
                 cex=_cex_step("nanmin", None, {"x": "arr:float:float64", "y": "arr:float:float64"}, {"reducer": "step"}))
class _RapCallee:
    """the contract a CALLER of reduce_array_pair sees: exactly the requires/ensures proved above for the instantiation selected by which optionals are None"""
    params = ["x", "y", "reducer", "counts", "y_counts"]
    def __call__(self, env):
        c = env.get("counts") is not None and env["counts"].kind != "none"; y = env.get("y_counts") is not None and env["y_counts"].kind != "none"
        k = _rap_contract(c, y)
        return {"params": self.params, "defaults": {}, "returns": [f"arr:{env['x'].elem}:{env['x'].dtype}"], "result_len": ["len(x)"], "requires": k["requires"], "ensures": k["ensures"]}
# combine_chunk_results_for_factorized_key (Python loop around the kernel; counts given): verified against the CONTRACT of reduce_array_pair.
# MA/MC(k, b): merged partial of group k after the first b blocks:  Merge(s, (a, c)) = s if c == 0 else (STEP(s.acc, a, s.cnt).acc, s.cnt + c)  - the merge of L-merge.
MA = z3.Function("MA", I, I, V); MC = z3.Function("MC", I, I, I); Gc = z3.Int("G")
def _late_combine(eng):
    eng.specs["blkval"] = lambda b, k: z3.Select(eng.specs["chunk_chunks"](b), k); eng.specs["blkcnt"] = lambda b, k: z3.Select(eng.specs["chunk_counts"](b), k)
register(NUMBA, "combine_chunk_results_for_factorized_key", "generic,counts=list of arrays",
         {"reduce_func_name": "step:STEP", "chunks": "chunks:opaque:V", "counts": "chunks:int:int64"},
         {"requires": ["len(chunks) >= 1", "len(counts) == len(chunks)", "G() >= 0", "forall(b, 0, len(chunks), clen_chunks(b) == G() and clen_counts(b) == G())",
                       "forall(k, 0, G(), MA(k, 1) == blkval(0, k) and MC(k, 1) == blkcnt(0, k))",
                       "forall(b, 1, len(chunks), forall(k, 0, G(), MA(k, b + 1) == ite(blkcnt(b, k) == 0, MA(k, b), STEP_acc(MA(k, b), blkval(b, k), MC(k, b))) and MC(k, b + 1) == MC(k, b) + blkcnt(b, k)))"],
          "loops": {0: {"iter": "zip(chunks[1:], counts[1:])", "havoc_arrays": ["combined", "combined_count"],
                        "invariant": ["len(combined) == G() and len(combined_count) == G()", "forall(k, 0, G(), combined[k] == MA(k, 1 + _it0) and combined_count[k] == MC(k, 1 + _it0))"],
                        "lemmas": ["forall(k, 0, G(), chunk[k] == blkval(1 + _it0, k) and count[k] == blkcnt(1 + _it0, k))"]}},
          "ensures": ["len(result0) == G() and len(result1) == G()", "forall(k, 0, G(), result0[k] == MA(k, len(chunks)) and result1[k] == MC(k, len(chunks)))"]},
         specs={"STEP_acc": stepA, "STEP_cnt": stepC, "MA": MA, "MC": MC, "G": lambda: Gc, "blkval": None, "blkcnt": None}, setup=_late_combine,
         callees={"reduce_array_pair": _RapCallee()}, props=("C01", "C03", "C04", "C12"), lemma_deps=("L-merge", "L-merge-step"),
         cex=_cex_step("nanmin", {"MA": (["I", "I"], "F")}, {"chunks": "chunks:float:float64", "counts": "chunks:int:int64"}, {"reduce_func_name": "str:nanmin", "chunks": "list", "counts": "list"}))

# ----------------------------------------------------------------------------- _rolling_shift_or_diff_1d (shift on an OPAQUE value sort, diff on floats; mask / no mask)
# shift: the value sort is opaque (no arithmetic exists on it), so the postcondition "out[r] is Hist(k, A - w)" says the result is exactly an input element
# for every value type - this is the exactness clause of C09/C12 for shifted values.
HistV = z3.Function("HistV", I, I, V); XVv = z3.Function("XVv", I, V); VNULL = z3.Function("VNULL", V, B); NULLV = z3.Const("NULLV", V)
def _sh_main(m, masked, shift):
    A = f"Cnt(k, {m})"; acc = _roll_acc(masked); H = "HistV" if shift else "HistF"
    prev = f"{H}(group_key[r], Cnt(group_key[r], r) - window)"
    val = prev if shift else f"fsub(X(r), {prev})"
    return [f"forall(k, 0, ngroups, {A} >= 0 and {A} <= {m} and 0 <= group_buffer_pos[k] and group_buffer_pos[k] < window and group_counts[k] == minw({A}, window) and implies({A} < window, group_buffer_pos[k] == {A}))",
            f"forall(k, 0, ngroups, forall(j, 0, window, implies(idx(j, group_buffer_pos[k], {A}, window) >= 0, group_buffers[k, j] == {H}(k, idx(j, group_buffer_pos[k], {A}, window)))))",
            f"forall(r, 0, {m}, implies(group_key[r] < 0 or not {acc('r')}, out[r] == null_value))",
            f"forall(r, 0, {m}, implies(group_key[r] >= 0 and {acc('r')}, out[r] == ite(Cnt(group_key[r], r) >= window, {val}, null_value)))",
            f"forall(r, {m}, len(out), out[r] == null_value)"]
for _shift in (True, False):
    for _m in (False, True):
        _H = "HistV" if _shift else "HistF"; _acc = _roll_acc(_m)
        _unf = [f"forall(k, 0, ngroups, Cnt(k, i + 2) == Cnt(k, i + 1) + (1 if (group_key[i + 1] == k and {_acc('i + 1')}) else 0))",
                f"implies(group_key[i + 1] >= 0 and {_acc('i + 1')}, {_H}(group_key[i + 1], Cnt(group_key[i + 1], i + 1)) == X(i + 1))"]
        _specs = dict(ROLL_SPECS); _specs.update({"HistV": HistV, "fsub": lambda a, b: f_bin(lambda x, y: x - y, a, b)})
        if _shift: _specs.update({"X": XVv, "__vnull__": VNULL})
        register(NUMBA, "_rolling_shift_or_diff_1d", f"{'opaque' if _shift else 'float'},chunked,mask={'bool' if _m else 'None'},{'shift' if _shift else 'diff'}",
                 {"group_key": "arr:int:int64", "values": "chunks:opaque:V" if _shift else "chunks:float:float64", "ngroups": "int", "window": "int", "mask": "arr:bool:bool" if _m else "none",
                  "null_value": "opaque" if _shift else "float", "want_shift": f"const:{_shift}"},
                 {"requires": ["window >= 1", "window <= 32767", "ngroups >= 0"] + ([] if _shift else ["isnull(null_value)"]) + (["len(mask) == len(group_key)"] if _m else []) + _CHUNK_REQ + [
                      "forall(c, 0, len(values), forall(p, 0, clen_values(c), chunkval(c, p) == X(off(c) + p)))",
                      "forall(r, 0, len(group_key), group_key[r] < ngroups)", "forall(k, 0, ngroups, Cnt(k, 0) == 0)"],
                  "frozen": ["group_key"] + (["mask"] if _m else []), "nonneg_index": ["group_buffers", "group_buffer_pos", "group_counts"],
                  # the circular buffers and the output hold elements of the INPUT's type (exactness clause of C09 / C12: no detour through another dtype)
                  "array_elem": {"group_buffers": "values", "out": "values"},
                  "loops": {0: {"iter": "values", "invariant": ["i == off(_it0) - 1", "_it0 <= len(values)"] + _sh_main("(i + 1)", _m, _shift)},
                            1: {"iter": "arr", "invariant": ["i == off(_it0) + _it1 - 1", "_it0 < len(values)", "_it1 <= clen_values(_it0)"] + _sh_main("(i + 1)", _m, _shift),
                                "unfold": _unf, "lemmas": ["val == X(i + 1)"]}},
                  "ensures": [x.replace("out[", "result[") for x in _sh_main("len(group_key)", _m, _shift)[2:4]]},
                 specs=_specs, setup=_late_chunkval, props=("C09", "C06", "C12", "C05"), lemma_deps=("L-cnt-bound",),
                 cex=({"inst": {"values": "chunks:float:float64", "null_value": "float"}, "specs": (lambda: {"HistV": z3.Function("HistV_f", I, I, F), "X": XF}), "native": {}} if _shift else None))

# ---- diff on int64 values (what datetime64 / timedelta64 inputs run as: the integer view with null = MIN_INT; the result is in the input's own unit because nothing is
#      converted: the buffers and the output are int64 arrays (array_elem) and the difference is the integer difference).  |x| <= 2^62 keeps x - y inside int64 (A-int64).
def _shi_main(m, masked):
    A = f"Cnt(k, {m})"; acc = _roll_acc(masked); prev = "HistI(group_key[r], Cnt(group_key[r], r) - window)"
    return [f"forall(k, 0, ngroups, {A} >= 0 and {A} <= {m} and 0 <= group_buffer_pos[k] and group_buffer_pos[k] < window and group_counts[k] == minw({A}, window) and implies({A} < window, group_buffer_pos[k] == {A}))",
            f"forall(k, 0, ngroups, forall(j, 0, window, implies(idx(j, group_buffer_pos[k], {A}, window) >= 0, group_buffers[k, j] == HistI(k, idx(j, group_buffer_pos[k], {A}, window)))))",
            f"forall(r, 0, {m}, implies(group_key[r] < 0 or not {acc('r')}, out[r] == null_value))",
            f"forall(r, 0, {m}, implies(group_key[r] >= 0 and {acc('r')}, out[r] == ite(Cnt(group_key[r], r) >= window and X(r) != null_value and {prev} != null_value, X(r) - {prev}, null_value)))",
            f"forall(r, {m}, len(out), out[r] == null_value)"]
for _m in (False, True):
    _acc = _roll_acc(_m)
    _unf = [f"forall(k, 0, ngroups, Cnt(k, i + 2) == Cnt(k, i + 1) + (1 if (group_key[i + 1] == k and {_acc('i + 1')}) else 0))",
            f"implies(group_key[i + 1] >= 0 and {_acc('i + 1')}, HistI(group_key[i + 1], Cnt(group_key[i + 1], i + 1)) == X(i + 1))"]
    _specs = dict(ROLL_SPECS); _specs.update({"HistI": HistI, "X": XIv})
    register(NUMBA, "_rolling_shift_or_diff_1d", f"int,chunked,mask={'bool' if _m else 'None'},diff",
             {"group_key": "arr:int:int64", "values": "chunks:int:int64", "ngroups": "int", "window": "int", "mask": "arr:bool:bool" if _m else "none", "null_value": "int", "want_shift": "const:False"},
             {"requires": ["window >= 1", "window <= 32767", "ngroups >= 0", f"null_value == {MIN_INT}"] + (["len(mask) == len(group_key)"] if _m else []) + _CHUNK_REQ + [
                  "forall(c, 0, len(values), forall(p, 0, clen_values(c), chunkval(c, p) == X(off(c) + p)))",
                  f"forall(r, 0, len(group_key), X(r) == null_value or (X(r) >= -{2 ** 62} and X(r) <= {2 ** 62}))",
                  "forall(r, 0, len(group_key), group_key[r] < ngroups)", "forall(k, 0, ngroups, Cnt(k, 0) == 0)"],
              "frozen": ["group_key"] + (["mask"] if _m else []), "nonneg_index": ["group_buffers", "group_buffer_pos", "group_counts"],
              "array_elem": {"group_buffers": "values", "out": "values"},
              "loops": {0: {"iter": "values", "invariant": ["i == off(_it0) - 1", "_it0 <= len(values)"] + _shi_main("(i + 1)", _m)},
                        1: {"iter": "arr", "invariant": ["i == off(_it0) + _it1 - 1", "_it0 < len(values)", "_it1 <= clen_values(_it0)"] + _shi_main("(i + 1)", _m),
                            "unfold": _unf, "lemmas": ["val == X(i + 1)"]}},
              "ensures": [x.replace("out[", "result[") for x in _shi_main("len(group_key)", _m)[2:4]]},
             specs=_specs, setup=_late_chunkval, props=("C09", "C12"), lemma_deps=("L-cnt-bound",))

# ----------------------------------------------------------------------------- _find_first_or_last_n (forward / backward; mask / no mask)
def _firstn_contract(masked, forward):
    L = "len(group_key)"
    row = "_it0" if forward else f"({L} - 1 - _it0)"
    visit = (lambda r: r) if forward else (lambda r: f"({L} - 1 - {r})")
    selr = (lambda r: f"mask[{r}]") if masked else (lambda r: "True")
    visited = (lambda r: f"0 <= {r} and {r} < _it0") if forward else (lambda r: f"{L} - _it0 <= {r} and {r} < {L}")
    col = (lambda j: j) if forward else (lambda j: f"(n - 1 - {j})")          # the backward variant returns the column-reversed view out[:, ::-1]
    cfin = f"minw(Cnt(k, {L}), n)"
    return {"requires": ["n >= 0", "ngroups >= 0", f"forall(r, 0, {L}, group_key[r] < ngroups)", "forall(k, 0, ngroups, Cnt(k, 0) == 0)"] + ([f"len(mask) == {L}"] if masked else []),
            "frozen": ["group_key"] + (["mask"] if masked else []), "nonneg_index": ["out", "seen"],
            "loops": {0: {"iter": "rng", "invariant": [
                "forall(k, 0, ngroups, Cnt(k, _it0) >= 0 and seen[k] == minw(Cnt(k, _it0), n))",
                f"forall(k, 0, ngroups, forall(j, 0, n, implies(j < seen[k], {visited('out[k, j]')} and group_key[out[k, j]] == k and {selr('out[k, j]')} and Cnt(k, {visit('out[k, j]')}) == j) and implies(j >= seen[k], out[k, j] == -1)))"],
                "unfold": [f"forall(k, 0, ngroups, Cnt(k, _it0 + 1) == Cnt(k, _it0) + (1 if (group_key[{row}] == k and {selr(row)}) else 0))"]}},
            "ensures": [f"forall(k, 0, ngroups, forall(j, 0, n, implies({col('j')} < {cfin}, 0 <= result[k, j] and result[k, j] < {L} and group_key[result[k, j]] == k and {selr('result[k, j]')} and Cnt(k, {visit('result[k, j]')}) == {col('j')}) and implies({col('j')} >= {cfin}, result[k, j] == -1)))"]}
for _m in (False, True):
    for _fw in (True, False):
        register(NUMBA, "_find_first_or_last_n", f"{'forward' if _fw else 'backward'},mask={'bool' if _m else 'None'}",
                 {"group_key": "arr:int:int64", "ngroups": "int", "n": "int", "mask": "arr:bool:bool" if _m else "none", "forward": f"const:{_fw}"}, _firstn_contract(_m, _fw),
                 specs={"Cnt": Cnt, "minw": lambda A, w: z3.If(A < w, A, w)}, props=("C15", "C05", "C06"), lemma_deps=("L-cnt-bound",))

# ----------------------------------------------------------------------------- nanops._nb_reduce / util._get_first_non_null / NumbaReductionOps / _nb_dot / arr_is_null
NANOPS = "groupby_lib/nanops.py"; UTIL = "groupby_lib/util.py"
OPF = z3.Function("OPF", F, F, F); AccF = z3.Function("AccF", I, F); HasF = z3.Function("HasF", I, B)
OPI = z3.Function("OPI", I, I, I); AccI = z3.Function("AccI", I, I)
def _gfnn(kind):
    nul = "isnullf" ; return {"_get_first_non_null": {"params": ["arr"], "returns": ["int", kind], "requires": [],
         "ensures": ["result0 == -1 or (0 <= result0 and result0 < len(arr))",
                     "implies(result0 == -1, forall(l, 0, len(arr), isnullf(arr[l])))",
                     "implies(result0 >= 0, not isnullf(arr[result0]) and result1 == arr[result0] and forall(l, 0, result0, isnullf(arr[l])))"]}}
_NBR_SPEC_F = {"OPF": OPF, "AccF": AccF, "HasF": HasF, "isnullf": lambda f: F.is_NaN(f)}
# concrete reading for the counterexample search only: the binary reducer is NumbaReductionOps.sum (proved below to be fadd / integer +)
_NBR_CEX_F = {"inst": {}, "specs": (lambda: {"OPF": fadd}), "native": {"reduce_func": "func:groupby_lib.util:NumbaReductionOps.sum"}}
_NBR_CEX_I = {"inst": {}, "specs": (lambda: {"OPF": (lambda a, b: a + b)}), "native": {"reduce_func": "func:groupby_lib.util:NumbaReductionOps.sum"}}
_NBR_SPEC_I = {"OPF": OPI, "AccF": AccI, "HasF": HasF, "isnullf": lambda x: x == MIN_INT}
# (a) skipna, no initial value: fold of the reducer over the non-null elements in order; all null -> a null (arr[0]); requires a non-empty array
for _vk, _dt, _sp in (("float", "float64", _NBR_SPEC_F), ("int", "int64", _NBR_SPEC_I)):
    register(NANOPS, "_nb_reduce", f"{_vk},skipna,no initial value", {"reduce_func": "bin:OPF", "arr": f"arr:{_vk}:{_dt}", "skipna": "const:True", "initial_value": "none"},
             {"requires": ["len(arr) >= 1", "not HasF(0)",
                           "forall(j, 0, len(arr), HasF(j + 1) == (HasF(j) or not isnullf(arr[j])))",
                           "forall(j, 0, len(arr), AccF(j + 1) == ite(isnullf(arr[j]), AccF(j), ite(HasF(j), OPF(AccF(j), arr[j]), arr[j])))",
                           # L-has (proved separately by induction): HasF(j) iff some non-null before j
                           "forall(j, 0, len(arr) + 1, HasF(j) == exists(l, 0, j, not isnullf(arr[l])))"],
              "frozen": ["arr"],
              "loops": {0: {"iter": "range(start, len(arr))", "invariant": ["1 <= start and start <= len(arr)", "HasF(start + _it0)", "out == AccF(start + _it0)"]}},
              "ensures": ["ite(HasF(len(arr)), result == AccF(len(arr)), isnullf(result))"]},
             specs=_sp, callees=_gfnn(_vk), props=("C20",), lemma_deps=("L-has",), cex=_NBR_CEX_F if _vk == "float" else _NBR_CEX_I)
# (b) skipna with an initial value (count uses this): fold from the initial value over the non-null elements; any length
register(NANOPS, "_nb_reduce", "float,skipna,initial value", {"reduce_func": "bin:OPF", "arr": "arr:float:float64", "skipna": "const:True", "initial_value": "float"},
         {"requires": ["AccF(0) == initial_value", "forall(j, 0, len(arr), AccF(j + 1) == ite(isnullf(arr[j]), AccF(j), OPF(AccF(j), arr[j])))"], "frozen": ["arr"],
          "loops": {0: {"iter": "range(start, len(arr))", "invariant": ["start == 0", "out == AccF(_it0)"]}}, "ensures": ["result == AccF(len(arr))"]},
         specs=_NBR_SPEC_F, props=("C20",), cex=_NBR_CEX_F)
# (c) no null skipping: a null first element is returned as is, otherwise the plain left fold; requires a non-empty array when no initial value is given
register(NANOPS, "_nb_reduce", "float,no skipna,no initial value", {"reduce_func": "bin:OPF", "arr": "arr:float:float64", "skipna": "const:False", "initial_value": "none"},
         {"requires": ["len(arr) >= 1", "AccF(1) == arr[0]", "forall(j, 1, len(arr), AccF(j + 1) == OPF(AccF(j), arr[j]))"], "frozen": ["arr"],
          "loops": {1: {"iter": "range(start, len(arr))", "invariant": ["start == 1", "out == AccF(1 + _it1)"]}},
          "ensures": ["ite(isnullf(arr[0]), result == arr[0], result == AccF(len(arr)))"]}, specs=_NBR_SPEC_F, props=("C20",), cex=_NBR_CEX_F)
register(NANOPS, "_nb_reduce", "float,no skipna,initial value", {"reduce_func": "bin:OPF", "arr": "arr:float:float64", "skipna": "const:False", "initial_value": "float"},
         {"requires": ["AccF(0) == initial_value", "forall(j, 0, len(arr), AccF(j + 1) == OPF(AccF(j), arr[j]))"], "frozen": ["arr"],
          "loops": {1: {"iter": "range(start, len(arr))", "invariant": ["start == 0", "out == AccF(_it1)"]}}, "ensures": ["result == AccF(len(arr))"]}, specs=_NBR_SPEC_F, props=("C20",), cex=_NBR_CEX_F)

# _get_first_non_null itself (float version = the module-level function; int version = first nested def of the numba overload)
_GF_ENS = ["result0 == -1 or (0 <= result0 and result0 < len(arr))", "implies(result0 == -1, forall(l, 0, len(arr), isnullf(arr[l])))",
           "implies(result0 >= 0, not isnullf(arr[result0]) and result1 == arr[result0] and forall(l, 0, result0, isnullf(arr[l])))"]
register(UTIL, "_get_first_non_null", "float", {"arr": "arr:float:float64"},
         {"frozen": ["arr"], "loops": {0: {"iter": "enumerate(arr)", "invariant": ["forall(l, 0, _it0, isnullf(arr[l]))"]}}, "ensures": _GF_ENS}, specs=_NBR_SPEC_F, props=("C20",))
register(UTIL, "jit_get_first_non_null.f#0", "int", {"arr": "arr:int:int64"},
         {"frozen": ["arr"], "loops": {0: {"iter": "enumerate(arr)", "invariant": ["forall(l, 0, _it0, isnullf(arr[l]))"]}}, "ensures": _GF_ENS}, specs=_NBR_SPEC_I, props=("C20",))

# NumbaReductionOps.X (loop-free): the binary reducers nanops folds with
_fle = lambda a, b: f_cmp(lambda x, y: x <= y, a, b); _fge = lambda a, b: f_cmp(lambda x, y: x >= y, a, b)
_NRO = {"count": "result == x + 1", "min": "result == (x if fle(x, y) else y)", "max": "result == (x if fge(x, y) else y)", "sum": "result == fadd(x, y)", "first": "result == x",
        "first_skipna": "result == (y if isnullf(x) else x)", "last": "result == y", "last_skipna": "result == (x if isnullf(y) else y)", "sum_square": "result == fadd(x, fmul(y, y))"}
for _nm, _ens in _NRO.items():
    register(UTIL, f"NumbaReductionOps.{_nm}", "float" if _nm != "count" else "int,float", {"x": "int" if _nm == "count" else "float", "y": "float"},
             {"ensures": [_ens]}, specs={"fle": _fle, "fge": _fge, "fadd": fadd, "fmul": lambda a, b: f_bin(lambda x, y: x * y, a, b), "isnullf": lambda f: F.is_NaN(f)}, props=("C20",))
# consequences used by C20: min/max of two non-null floats is one of them and bounds both (stated as extra postconditions)
register(UTIL, "NumbaReductionOps.min", "float,characterisation", {"x": "float", "y": "float"},
         {"requires": ["not isnullf(x)", "not isnullf(y)"], "ensures": ["(result == x or result == y) and fle(result, x) and fle(result, y)"]}, specs={"fle": _fle, "isnullf": lambda f: F.is_NaN(f)}, props=("C20",))
register(UTIL, "NumbaReductionOps.max", "float,characterisation", {"x": "float", "y": "float"},
         {"requires": ["not isnullf(x)", "not isnullf(y)"], "ensures": ["(result == x or result == y) and fge(result, x) and fge(result, y)"]}, specs={"fge": _fge, "isnullf": lambda f: F.is_NaN(f)}, props=("C20",))

# _nb_dot: out[row] = out0[row] + sum_col a[col][row] * b[col]   (DOT(row, c) = partial sum over the first c columns); race-free: iteration `row` touches only out[row]
DOT = z3.Function("DOT", I, I, F); Acol = z3.Function("Acol", I, I, F); Bv = z3.Function("Bv", I, F)
def _late_chunk_a(eng): eng.specs["chunkval_a"] = lambda c, p: z3.Select(eng.specs["chunk_a"](c), p)
register(UTIL, "_nb_dot", "float", {"a": "chunks:float:float64", "b": "arr:float:float64", "out": "arr:float:float64"},
         {"requires": ["len(a) >= 1", "len(b) <= len(a)", "len(out) == clen_a(0)", "forall(c, 0, len(a), clen_a(c) == clen_a(0))",
                       "forall(c, 0, len(a), forall(p, 0, clen_a(0), chunkval_a(c, p) == Acol(c, p)))", "forall(c, 0, len(b), b[c] == Bv(c))",
                       "forall(r, 0, len(out), DOT(r, 0) == out[r])",
                       "forall(r, 0, len(out), forall(c, 0, len(b), DOT(r, c + 1) == fadd(DOT(r, c), fmul(Acol(c, r), Bv(c)))))"],
          "frozen": ["b"],
          "loops": {0: {"iter": "nb.prange(len(a[0]))", "invariant": ["forall(r, 0, _it0, out[r] == DOT(r, len(b)))", "forall(r, _it0, len(out), out[r] == DOT(r, 0))"]},
                    1: {"iter": "nb.prange(len(b))", "invariant": ["forall(r, 0, row, out[r] == DOT(r, len(b)))", "forall(r, row + 1, len(out), out[r] == DOT(r, 0))", "out[row] == DOT(row, _it1)", "0 <= row and row < len(out)"]}},
          "ensures": ["forall(r, 0, len(out), result[r] == DOT(r, len(b)))"]},
         specs={"DOT": DOT, "Acol": Acol, "Bv": Bv, "chunkval_a": None, "fadd": fadd, "fmul": lambda a, b: f_bin(lambda x, y: x * y, a, b)}, setup=_late_chunk_a, props=("C20",))

# arr_is_null: out[i] == is_null(arr[i]); race-free
for _vk, _dt, _nul in (("float", "float64", "isnullf(arr[j])"), ("int", "int64", "arr[j] == MINI()")):
    register(UTIL, "arr_is_null", _vk, {"arr": f"arr:{_vk}:{_dt}"},
             {"frozen": ["arr"], "loops": {0: {"iter": "nb.prange(len(arr))", "invariant": ["len(out) == len(arr)", f"forall(j, 0, _it0, out[j] == ({_nul}))"]}},
              "ensures": ["len(result) == len(arr)", f"forall(j, 0, len(arr), result[j] == ({_nul}))"]}, specs={"isnullf": lambda f: F.is_NaN(f), "MINI": lambda: z3.IntVal(MIN_INT)}, props=("C20", "C12"))

# ----------------------------------------------------------------------------- group_nearby_members: null-key rows keep the -1 marker and touch no per-group state (C06)
# (the sub-grouping itself is not part of any listed property; what is proved is non-interference: outputs of real rows equal NB(r), a function defined by the
#  recursion over rows with key >= 0 only, and the per-group state is indexed only by non-negative keys)
GC = z3.Function("GC", I, I); SeenG = z3.Function("SeenG", I, I, B); LastG = z3.Function("LastG", I, I, F); TrkG = z3.Function("TrkG", I, I, I); NewG = z3.Function("NewG", I, B)
_K = "group_key[_it0]"
register(NUMBA, "group_nearby_members", "float values", {"group_key": "arr:int:int64", "values": "arr:float:float64", "max_diff": "float", "n_groups": "int"},
         {"requires": ["len(values) == len(group_key)", "n_groups >= 0", "forall(r, 0, len(group_key), group_key[r] < n_groups and group_key[r] >= -1)",
                       "GC(0) == -1", "forall(k, 0, n_groups, not SeenG(k, 0) and TrkG(k, 0) == -1)"],
          "frozen": ["group_key", "values"], "nonneg_index": ["seen", "last_seen", "group_tracker"],
          "loops": {0: {"iter": "range(len(group_key))", "invariant": [
              "group_counter == GC(_it0)", "len(out) == len(group_key)",
              "forall(k, 0, n_groups, seen[k] == SeenG(k, _it0) and group_tracker[k] == TrkG(k, _it0) and implies(SeenG(k, _it0), last_seen[k] == LastG(k, _it0)))",
              "forall(r, 0, _it0, implies(group_key[r] < 0, out[r] == -1))", "forall(r, 0, _it0, implies(group_key[r] >= 0, out[r] == TrkG(group_key[r], r + 1)))",
              "forall(r, _it0, len(out), out[r] == -1)"],
              "unfold": [f"implies({_K} >= 0, NewG(_it0) == (not SeenG({_K}, _it0) or fgt(fabs(fsub(values[_it0], LastG({_K}, _it0))), max_diff)))",
                         f"GC(_it0 + 1) == ite({_K} >= 0 and NewG(_it0), GC(_it0) + 1, GC(_it0))",
                         f"forall(k, 0, n_groups, SeenG(k, _it0 + 1) == (SeenG(k, _it0) or {_K} == k) and LastG(k, _it0 + 1) == ite({_K} == k, values[_it0], LastG(k, _it0))"
                         f" and TrkG(k, _it0 + 1) == ite({_K} == k and NewG(_it0), GC(_it0) + 1, TrkG(k, _it0)))"]}},
          "ensures": ["forall(r, 0, len(group_key), implies(group_key[r] < 0, result[r] == -1))", "forall(r, 0, len(group_key), implies(group_key[r] >= 0, result[r] == TrkG(group_key[r], r + 1)))"]},
         specs={"GC": GC, "SeenG": SeenG, "LastG": LastG, "TrkG": TrkG, "NewG": NewG, "fsub": lambda a, b: f_bin(lambda x, y: x - y, a, b),
                "fabs": lambda a: z3.If(F.is_NaN(a), F.NaN, F.Fin(z3.If(F.val(a) < 0, -F.val(a), F.val(a)))), "fgt": lambda a, b: f_cmp(lambda x, y: x > y, a, b)}, props=("C06",))

# ----------------------------------------------------------------------------- core.GroupBy._build_group_sorted_indexer_numba (counting sort; key_map / mask optional)
# XK(r): code of flat row r; MK(r) = key_map[XK(r)] (or XK(r) without a key map): the output slot group of the row; accepted(r) = XK(r) >= 0 and selected.
# CntK(m, i): accepted rows with MK == m among the first i rows; PS(m): prefix sums of group_counts.  The caller must pass the TRUE counts: group_counts[m] == CntK(m, N).
# Position q of the output belongs to (GrpOf(q), RankOf(q)); postcondition: indexer[q] is the RankOf(q)-th accepted row of slot group GrpOf(q), i.e. rows are
# grouped in slot order, ascending inside a group, and every accepted row appears exactly once (a permutation of the accepted rows).
CORE = "groupby_lib/groupby/core.py"
PS = z3.Function("PS", I, I); XK = z3.Function("XK", I, I); CntK = z3.Function("CntK", I, I, I); offk = z3.Function("offk", I, I)
def _late_chunkkey(eng): eng.specs["chunkkey"] = lambda c, p: z3.Select(eng.specs["chunk_group_key_list"](c), p)
_N = "offk(len(group_key_list))"
def _cs_contract(mapped, masked):
    MK = (lambda r: f"key_map[XK({r})]") if mapped else (lambda r: f"XK({r})")
    acc = (lambda r: f"(XK({r}) >= 0 and mask[{r}])") if masked else (lambda r: f"(XK({r}) >= 0)")
    def main(i):
        return ["len(indexer) == PS(len(group_counts))", "len(current_pos) == len(group_counts)",
                f"forall(m, 0, len(group_counts), current_pos[m] == PS(m) + CntK(m, {i}))",
                f"forall(q, 0, len(indexer), implies(RankOf(q) < CntK(GrpOf(q), {i}), 0 <= indexer[q] and indexer[q] < {i} and {acc('indexer[q]')} and {MK('indexer[q]')} == GrpOf(q) and CntK(GrpOf(q), indexer[q]) == RankOf(q)), trigger=indexer[q])"]
    return {"requires": ["offk(0) == 0", f"forall(c, 0, len(group_key_list), offk(c + 1) == offk(c) + clen_group_key_list(c) and offk(c + 1) <= {_N} and offk(c) >= 0)",
                         "forall(c, 0, len(group_key_list), forall(p, 0, clen_group_key_list(c), chunkkey(c, p) == XK(offk(c) + p)))"]
                        + ([f"len(mask) == {_N}"] if masked else [])
                        + ([f"forall(r, 0, {_N}, XK(r) < len(key_map))", f"forall(r, 0, {_N}, implies(XK(r) >= 0, 0 <= key_map[XK(r)] and key_map[XK(r)] < len(group_counts)))"] if mapped
                           else [f"forall(r, 0, {_N}, XK(r) < len(group_counts))"]) + [
                         "PS(0) == 0", "forall(m, 0, len(group_counts), PS(m + 1) == PS(m) + group_counts[m] and group_counts[m] >= 0 and CntK(m, 0) == 0)",
                         # what the caller must establish: the counts are the true counts of accepted rows per slot group
                         f"forall(m, 0, len(group_counts), group_counts[m] == CntK(m, {_N}))",
                         # L-cnt-mono and L-ps-mono (lemmas over the specs, proved separately by induction)
                         f"forall(m, 0, len(group_counts), forall(r, 0, {_N}, implies({acc('r')} and {MK('r')} == m, CntK(m, r) < CntK(m, {_N})) and CntK(m, r) >= 0))",
                         "forall(m, 0, len(group_counts), forall(j, m + 1, len(group_counts) + 1, PS(m + 1) <= PS(j)))", "forall(m, 0, len(group_counts) + 1, PS(m) >= 0)",
                         # position -> (group, rank): definitional, with its inverse as an L lemma instantiated in the loop hint
                         "forall(q, 0, PS(len(group_counts)), 0 <= GrpOf(q) and GrpOf(q) < len(group_counts) and PS(GrpOf(q)) <= q and q < PS(GrpOf(q) + 1) and RankOf(q) == q - PS(GrpOf(q)))"],
            "frozen": ["group_counts"] + (["key_map"] if mapped else []) + (["mask"] if masked else []), "nonneg_index": ["current_pos", "indexer", "group_starts"] + (["key_map"] if mapped else []),
            "loops": {0: {"iter": "range(ngroups)", "invariant": ["len(group_starts) == ngroups + 1", "ngroups == len(group_counts)", "forall(m, 0, _it0 + 1, group_starts[m] == PS(m))"]},
                      1: {"iter": "group_key_list", "invariant": ["i == offk(_it1)", "_it1 <= len(group_key_list)"] + main("i")},
                      2: {"iter": "arr", "invariant": ["i == offk(_it1) + _it2", "_it1 < len(group_key_list)", "_it2 <= clen_group_key_list(_it1)"] + main("i"),
                          "unfold": [f"forall(m, 0, len(group_counts), CntK(m, i + 1) == CntK(m, i) + (1 if ({acc('i')} and {MK('i')} == m) else 0))",
                                     f"implies({acc('i')}, GrpOf(PS({MK('i')}) + CntK({MK('i')}, i)) == {MK('i')})"], "lemmas": ["k == XK(i)"]}},
            "ensures": ["len(result) == PS(len(group_counts))",
                        f"forall(q, 0, len(result), 0 <= result[q] and result[q] < {_N} and {acc('result[q]')} and {MK('result[q]')} == GrpOf(q) and CntK(GrpOf(q), result[q]) == RankOf(q), trigger=result[q])"]}
for _mp in (False, True):
    for _m in (False, True):
        register(CORE, "GroupBy._build_group_sorted_indexer_numba", f"key_map={'array' if _mp else 'None'},mask={'bool' if _m else 'None'}",
                 {"group_key_list": "chunks:int:int64", "group_counts": "arr:int:int64", "key_map": "arr:int:int64" if _mp else "none", "mask": "arr:bool:bool" if _m else "none"}, _cs_contract(_mp, _m),
                 specs={"PS": PS, "XK": XK, "CntK": CntK, "offk": offk, "chunkkey": None, "GrpOf": z3.Function("GrpOf", I, I), "RankOf": z3.Function("RankOf", I, I)}, setup=_late_chunkkey,
                 props=("C02", "C16", "C05", "C06"), lemma_deps=("L-cnt-mono", "L-ps-mono"))

# ----------------------------------------------------------------------------- util.jit_is_null: the three bodies numba's overload of is_null resolves to
# The engine resolves every `is_null(x)` in a kernel by the KIND of x (float -> isnan, integer -> == -2^63, bool -> False); these records put the code that numba really
# compiles for each kind under that very contract, so the null convention used by every other proof is checked against the source instead of assumed.
# (Which body is selected for which numba type is a structural obligation on the dispatcher, props/c12.py; MIN_INT's value is a finite fact checked there as well.)
for _k, (_vk, _ens) in enumerate((("float", "result == isnanf(x)"), ("int", f"result == (x == {MIN_INT})"), ("bool", "result == False"))):
    register(UTIL, f"jit_is_null.is_null#{_k}", _vk, {"x": _vk}, {"ensures": [_ens]}, specs={"isnanf": lambda f: F.is_NaN(f)}, props=("C01", "C06", "C12", "C20"))

# ----------------------------------------------------------------------------- GroupBy._find_first_chunk_in_slice (plain Python glue in core.py, C05 / C03)
# The chunk that holds the first row of a slice mask: the pointer tables / mask chunks of a chunked key are re-based on it (_resolve_mask_argument_into_chunks and its callers).
# `self` and the slice are read only through attributes: the instantiation names them (self.key_is_chunked, self._group_key_lengths, len(self); mask.start / mask.step with their
# None-ness fixed per instantiation, like numba's optionals).  offc(c) = number of rows before chunk c.
CORE = "groupby_lib/groupby/core.py"; offc = z3.Function("offc", I, I)
def _ffc_contract(start_kind, stepped):
    L = "len(self._group_key_lengths)"
    startv = {"none": "0", "int": "(len(self) + mask.start if mask.start < 0 else mask.start)"}[start_kind]
    return {"requires": [f"{L} >= 1", "offc(0) == 0", f"forall(c, 0, {L}, offc(c + 1) == offc(c) + self._group_key_lengths[c] and self._group_key_lengths[c] >= 0)", f"offc({L}) == len(self)",
                         # L-ps-mono (proved separately by induction): prefix sums of non-negative lengths are monotone
                         f"forall(c, 0, {L} + 1, offc(c) <= offc({L}))"],
            "raises": "self.key_is_chunked" if stepped else None,
            "loops": {0: {"iter": "enumerate(self._group_key_lengths)", "invariant": [f"start == {startv}", "cum_length == offc(_it0)", "forall(c, 0, _it0, offc(c + 1) <= start)", "implies(_it0 > 0, i == _it0 - 1)"],
                          "unfold": ["offc(_it0 + 1) == offc(_it0) + self._group_key_lengths[_it0]"]}},
            "ensures": [f"0 <= result and result < {L}",
                        # the first chunk whose end lies beyond the first selected row: every earlier chunk ends at or before it (so it is wholly outside the slice), and this one does not
                        f"forall(c, 0, result, offc(c + 1) <= {startv})", f"implies({startv} < len(self), {startv} < offc(result + 1))", f"implies({startv} >= len(self), result == {L} - 1)"]}
for _sk in ("none", "int"):
    for _stepped in (False, True):
        register(CORE, "GroupBy._find_first_chunk_in_slice", f"start={_sk},step={'int' if _stepped else 'None'}",
                 {"self": {"key_is_chunked": "bool", "_group_key_lengths": "arr:int:int64", "__len__": "int"}, "mask": {"start": _sk, "step": "int" if _stepped else "none"}},
                 _ffc_contract(_sk, _stepped), specs={"offc": offc}, props=("C05", "C03", "C13"), lemma_deps=("L-ps-mono",))

# ----------------------------------------------------------------------------- GroupBy.count_ikey (plain Python glue in core.py: C02 / C03 / C05 / C13)
# Rows per GLOBAL group code under a mask.  On a chunked key every chunk holds chunk-local codes; `_group_key_pointers[c][l]` is the global code of local code l of chunk c
# (None once the codes have been unified in place).  A slice mask drops the leading chunks that lie wholly before it: `_resolve_mask_argument_into_chunks` returns the remaining
# key chunks, the index of the first of them (proved for `_find_first_chunk_in_slice` above) and the per-chunk masks; count_ikey must pair returned chunk i with the pointer table
# of chunk first_chunk_in + i.   CSZ(i, l) = selected rows of returned chunk i with local code l (what group_size reports; its contract is ASSUMED here - it is the dispatch over
# the proved kernel _group_by_reduce, checked in the bounded tier of C04);  GC(g, i) = selected rows with global code g in the first i returned chunks:
#     GC(g, 0) = 0;   GC(ptr[l], i + 1) = GC(ptr[l], i) + CSZ(i, l)  for every local code l of chunk i;   GC(g, i + 1) = GC(g, i)  for a global code no local code maps to
# (a definition because each pointer table is injective - required, and what the factorisation establishes: distinct local codes are distinct labels).
CSZ = z3.Function("CSZ", I, I, I); GCf = z3.Function("GC", I, I, I)
_RESOLVE = {"params": ["mask"], "returns": ["chunkstruct:int:int64", "int", "optlist"], "requires": [],
            "assumed": "GroupBy._resolve_mask_argument_into_chunks (pandas / pyarrow glue): returns the key chunks first_chunk_in .. of the (sliced) key, that index, and one mask entry per returned chunk; local codes of returned chunk j lie below the length of pointer table first_chunk_in + j. Not proved: decided within a bound by the run-time contracts of C03 / C05 / C13",
            # ASSUMED contract of the pandas / pyarrow glue (decided in the bounded tier of C03 / C05 / C13, not proved): the chunks returned are chunks first .. first + k - 1 of the key
            "ensures": ["0 <= result1", "len(result2) == len(result0.chunks)",
                        "implies(PTRS_GIVEN(), result1 + len(result0.chunks) <= NPTR())",
                        "forall(j, 0, len(result0.chunks), forall(p, 0, len(result0.chunks[j]), result0.chunks[j][p] < CODEBOUND(result1 + j)))"]}
_GSIZE = {"params": ["group_key", "ngroups", "mask"], "returns": ["arr:int:int64"], "result_len": ["ngroups"], "defaults": {"mask": None},
          "assumed": "numba.group_size(codes, n, mask)[l] == number of selected rows with code l, requires every code < n: the Python dispatch (_group_func_wrap) over the PROVED kernel _group_by_reduce with ScalarFuncs.count; the dispatch itself is not proved: decided within a bound by the run-time contracts of C04",
          # ASSUMED: group_size(codes, n, mask)[l] = number of selected rows with code l (negative codes ignored); requires every code below n
          "requires": ["ngroups >= 0", "forall(p, 0, len(group_key), group_key[p] < ngroups)"],
          "ensures": ["forall(l, 0, ngroups, result[l] == CSZ(jchunk, l) and CSZ(jchunk, l) >= 0)"]}
def _count_ikey_contract(pointers):
    P = "self._group_key_pointers"; NG = "self.ngroups"
    if pointers:
        ptr = f"{P}[first_chunk_in + _it0]"
        req = [f"{NG} >= 0", f"forall(g, 0, {NG}, GC(g, 0) == 0)",
               f"forall(c, 0, len({P}), forall(l, 0, len({P}[c]), 0 <= {P}[c][l] and {P}[c][l] < {NG}))",
               f"forall(c, 0, len({P}), forall(l, 0, len({P}[c]), forall(m, 0, l, {P}[c][m] != {P}[c][l])))"]
        unf = [f"forall(l, 0, len({ptr}), GC({ptr}[l], _it0 + 1) == GC({ptr}[l], _it0) + CSZ(_it0, l))",
               f"forall(g, 0, {NG}, implies(forall(l, 0, len({ptr}), {ptr}[l] != g), GC(g, _it0 + 1) == GC(g, _it0)))"]
    else:
        req = [f"{NG} >= 0", f"forall(g, 0, {NG}, GC(g, 0) == 0)"]
        unf = [f"forall(g, 0, {NG}, GC(g, _it0 + 1) == GC(g, _it0) + CSZ(_it0, g))"]
    return {"requires": req, "call_ghost": {"numba_funcs.group_size": {"jchunk": "i"}},
            "loops": {0: {"iter": "enumerate(group_key.chunks)", "invariant": [f"len(count) == {NG}", f"forall(g, 0, {NG}, count[g] == GC(g, _it0))"], "unfold": unf}},
            "ensures": [f"len(result) == {NG}", f"forall(g, 0, {NG}, result[g] == GC(g, len(group_key.chunks)))"]}
def _count_ikey_specs(pointers):
    def mk():
        return {"CSZ": CSZ, "GC": GCf, "PTRS_GIVEN": (lambda: z3.BoolVal(pointers)), "NPTR": None, "CODEBOUND": None}
    return mk
def _late_count_ikey(pointers):
    def setup(eng):
        if pointers:
            eng.specs["NPTR"] = lambda: z3.Int("nchunks_self._group_key_pointers"); ln = z3.Function("clen_self._group_key_pointers", I, I)
            eng.specs["CODEBOUND"] = lambda c: ln(c)          # local codes of chunk c lie below the length of its pointer table
        else:
            eng.specs["NPTR"] = lambda: z3.IntVal(0); eng.specs["CODEBOUND"] = lambda c: z3.Int("self.ngroups")
    return setup
for _ptr in (True, False):
    register(CORE, "GroupBy.count_ikey", f"chunked key,pointers={'tables' if _ptr else 'None'}",
             {"self": {"key_is_chunked": "const:True", "ngroups": "int", "_group_key_pointers": "chunks:int:int64" if _ptr else "none"}, "mask": "opaque"},
             _count_ikey_contract(_ptr), specs=_count_ikey_specs(_ptr), setup=_late_count_ikey(_ptr),
             callees={"self._resolve_mask_argument_into_chunks": _RESOLVE, "numba_funcs.group_size": _GSIZE}, props=("C02", "C03", "C05", "C13"))

# ----------------------------------------------------------------------------- the merge of per-chunk partial results on CHUNKED keys (core.py, C03 / C04 / C06 / C11)
# GroupBy._apply_gb_func_across_chunked_group_keys is dynamic glue (signature().bind, a thread pool, zip(*...)) outside the subset; its inner loop - the only place where the
# partial results of the key chunks are merged through the pointer tables - is extracted mechanically on every run (Engine: "::loop(<header>)") and proved against the CONTRACT of
# reduce_array_pair (proved above) with the same merge as L-merge:  per GLOBAL group g, MAg / MCg(g, j) = merged accumulator / count after the first j chunks,
#     for a local code l of chunk j (global code ptr[l]):  MAg(ptr[l], j+1) = MAg(ptr[l], j) if the chunk saw nothing of it (count 0) else STEP(MAg(ptr[l], j), partial, MCg(ptr[l], j))
#     for a global code no local code of chunk j maps to:   unchanged
# chunk j is paired with pointer table first_chunk_in + j; the trailing slot of every partial (the chunk's null-key group) is dropped; the trailing slot of `combined` (the null
# group of the result) is never written.  Free variables of the loop are parameters; what the surrounding glue establishes about them is stated as requires (ASSUMED, bounded tier).
MAg = z3.Function("MAg", I, I, V); MCg = z3.Function("MCg", I, I, I)
def _chunkmerge_contract():
    P = "self._group_key_pointers"; ptr = f"{P}[first_chunk_in + _it0]"; G = "len(count)"; R = "results_one_value"; Cn = "counts_one_value"
    return {"fragment_params": ["self", "results_one_value", "counts_one_value", "combined", "count", "first_chunk_in", "reducer"],
            "requires": ["first_chunk_in >= 0", f"first_chunk_in + len({R}) <= len({P})", f"len({Cn}) == len({R})", f"len(combined) == {G} + 1",
                         f"forall(j, 0, len({R}), len({R}[j]) == len({P}[first_chunk_in + j]) + 1 and len({Cn}[j]) == len({R}[j]))",
                         f"forall(c, 0, len({P}), forall(l, 0, len({P}[c]), 0 <= {P}[c][l] and {P}[c][l] < {G}))",
                         f"forall(c, 0, len({P}), forall(l, 0, len({P}[c]), forall(m, 0, l, {P}[c][m] != {P}[c][l])))",
                         f"forall(g, 0, {G}, MAg(g, 0) == combined[g] and MCg(g, 0) == count[g])", f"NULLSLOT() == combined[{G}]"],
            "nonneg_index": ["combined", "count"],
            "loops": {0: {"iter": "enumerate(results_one_value)",
                          "invariant": [f"forall(g, 0, {G}, combined[g] == MAg(g, _it0) and count[g] == MCg(g, _it0))", f"combined[{G}] == NULLSLOT()"],
                          "unfold": [f"forall(l, 0, len({ptr}), MAg({ptr}[l], _it0 + 1) == ite({Cn}[_it0][l] == 0, MAg({ptr}[l], _it0), STEP_acc(MAg({ptr}[l], _it0), {R}[_it0][l], MCg({ptr}[l], _it0))) and MCg({ptr}[l], _it0 + 1) == MCg({ptr}[l], _it0) + {Cn}[_it0][l])",
                                     f"forall(g, 0, {G}, implies(forall(l, 0, len({ptr}), {ptr}[l] != g), MAg(g, _it0 + 1) == MAg(g, _it0) and MCg(g, _it0 + 1) == MCg(g, _it0)))"]}},
            "ensures": [f"forall(g, 0, {G}, combined[g] == MAg(g, len({R})) and count[g] == MCg(g, len({R})))", f"combined[{G}] == NULLSLOT()"]}
_NULLSLOT = z3.Const("NULLSLOT", V)
register(CORE, "GroupBy._apply_gb_func_across_chunked_group_keys::loop(for j, result in enumerate(results_one_value))", "pointer tables,generic reducer",
         {"self": {"_group_key_pointers": "chunks:int:int64"}, "results_one_value": "chunks:opaque:V", "counts_one_value": "chunks:int:int64", "combined": "arr:opaque:V", "count": "arr:int:int64",
          "first_chunk_in": "int", "reducer": "step:STEP"},
         _chunkmerge_contract(), specs={"STEP_acc": stepA, "STEP_cnt": stepC, "MAg": MAg, "MCg": MCg, "NULLSLOT": lambda: _NULLSLOT},
         callees={"numba_funcs.reduce_array_pair": _RapCallee()}, props=("C03", "C04", "C06", "C11"), lemma_deps=("L-merge", "L-merge-step"))

# ----------------------------------------------------------------------------- GroupBy._unify_group_key_chunks: chunk-local codes -> global codes (core.py, C13 / C06 / C02)
# The state change behind "a GroupBy object can be reused": transform, row selection, cumulative / rolling operations, groups, apply ... replace the chunk-local codes by global
# ones in place and drop the pointer tables. Its loop is extracted mechanically (the rest of the method re-wraps the list as a pyarrow / NumPy array and assigns attributes of
# self: outside the subset).  Proved: every new chunk has the length of the old one, a row with a key gets the GLOBAL code its local code pointed to, a null-key row (-1) stays -1 -
# it is never used as an index (p[-1] would silently be the chunk's last label).  Vectorised NumPy (k >= 0, k[m], p[...], codes[m] = ...) is executed as defined by NumPy, the
# boolean-mask reads kept as (element function, mask) pairs.
def _unify_contract():
    P = "self._group_key_pointers"; K = "self._group_ikey.chunks"
    row = lambda c, r: f"ite({K}[{c}][{r}] >= 0, {P}[{c}][{K}[{c}][{r}]], -1)"
    done = lambda n: f"forall(c, 0, {n}, len(chunks[c]) == len({K}[c]) and forall(r, 0, len({K}[c]), chunks[c][r] == {row('c', 'r')}))"
    return {"fragment_params": ["self", "chunks"],
            "requires": ["len(chunks) == 0", f"len({P}) == len({K})", f"forall(c, 0, len({K}), forall(r, 0, len({K}[c]), -1 <= {K}[c][r] and {K}[c][r] < len({P}[c])))"],
            "loops": {0: {"iter": f"zip({P}, {K})", "appended_lists": ["chunks"], "invariant": ["len(chunks) == _it0", done("_it0")]}},
            "ensures": [f"len(chunks) == len({K})", done(f"len({K})")]}
register(CORE, "GroupBy._unify_group_key_chunks::loop(for p, k in zip(self._group_key_pointers, self._group_ikey.chunks))", "pointer tables",
         {"self": {"_group_key_pointers": "chunks:int:int64", "_group_ikey": {"chunks": "chunks:int:int64"}}, "chunks": "chunks:int:int64"},
         _unify_contract(), specs={}, props=("C13", "C06", "C02"))
