"""Sidecar contracts for numba kernels (ported from the run*.py drivers). One register() per function instantiation."""
import z3
from pyvc.engine import F, V, I, B, R, MIN_INT, f_isnan, f_bin, f_cmp
from pyvc.registry import register

NUMBA = "groupby_lib/groupby/numba.py"; EMAS = "groupby_lib/emas.py"; FACT = "groupby_lib/groupby/factorization.py"

isn = f_isnan
lt = lambda a, b: f_cmp(lambda x, y: x < y, a, b)
fadd = lambda a, b: f_bin(lambda x, y: x + y, a, b)
def _pick(better):
    return (lambda a, v, c: z3.If(isn(v), a, z3.If(c == 0, v, z3.If(better(v, a), v, a)))), (lambda a, v, c: z3.If(isn(v), c, c + 1))
SF = {"same": lambda a, b: a == b}
SF["step_nanmin_acc"], SF["step_nanmin_cnt"] = _pick(lambda v, a: lt(v, a))
SF["step_nanmax_acc"], SF["step_nanmax_cnt"] = _pick(lambda v, a: lt(a, v))
SF["step_first_acc"], SF["step_first_cnt"] = _pick(lambda v, a: z3.BoolVal(False))
SF["step_nansum_acc"] = lambda a, v, c: z3.If(isn(v), a, z3.If(c == 0, v, fadd(a, v))); SF["step_nansum_cnt"] = lambda a, v, c: z3.If(isn(v), c, c + 1)
SF["step_nansum_squares_acc"] = lambda a, v, c: z3.If(isn(v), a, z3.If(c == 0, f_bin(lambda x, y: x * y, v, v), fadd(a, f_bin(lambda x, y: x * y, v, v))))
SF["step_nansum_squares_cnt"] = SF["step_nansum_cnt"]
SF["step_sum_acc"] = lambda a, v, c: z3.If(c == 0, v, fadd(a, v)); SF["step_sum_cnt"] = lambda a, v, c: c + 1
SF["step_last_acc"] = lambda a, v, c: z3.If(isn(v), a, v); SF["step_last_cnt"] = lambda a, v, c: c + 1
for _fn, (_a, _v, _c) in {"nanmin": ("cur_min", "next_val", "count"), "nanmax": ("cur_max", "next_val", "count"), "first": ("cur_first", "next_val", "count"),
                          "nansum": ("cur_sum", "next_val", "count"), "nansum_squares": ("cur_sum", "next_val", "count"), "sum": ("cur_sum", "next_val", "count"),
                          "last": ("cur_last", "next_val", "count")}.items():
    register(NUMBA, f"ScalarFuncs.{_fn}", "float", {_a: "float", _v: "float", _c: "int"},
             {"requires": [f"{_c} >= 0"], "ensures": [f"same(result0, step_{_fn}_acc({_a}, {_v}, {_c}))", f"result1 == step_{_fn}_cnt({_a}, {_v}, {_c})"]},
             specs=SF, props=("C01", "C04", "C08"))
for _fn, _first in {"nancount": "cur_count", "count": "cur_size"}.items():
    register(NUMBA, f"ScalarFuncs.{_fn}", "float", {_first: "int", "next_val": "float", "count": "int"},
             {"requires": ["count >= 0"], "ensures": ["result0 == result1", ("result1 == ite(isnanv(next_val), count, count + 1)" if _fn == "nancount" else "result1 == count + 1")]},
             specs={"isnanv": lambda f: f_isnan(f)}, props=("C01", "C04", "C08"))

stepA = z3.Function("STEP_acc", V, V, I, V); stepC = z3.Function("STEP_cnt", V, V, I, I)
FA = z3.Function("FA", I, I, V); FC = z3.Function("FC", I, I, I)
GBR_SPECS = {"STEP_acc": stepA, "STEP_cnt": stepC, "FA": FA, "FC": FC, "same": lambda a, b: a == b, "wrapn": lambda i, n: z3.If(i < 0, i + n, i)}
def _unf(rowexpr, t):
    return (f"forall(k, 0, len(target), same(FA(k, {t} + 1), STEP_acc(FA(k, {t}), values[{rowexpr}], FC(k, {t})) if group_key[{rowexpr}] == k else FA(k, {t})) and "
            f"FC(k, {t} + 1) == (STEP_cnt(FA(k, {t}), values[{rowexpr}], FC(k, {t})) if group_key[{rowexpr}] == k else FC(k, {t})))")
_GBR_REQ = ["len(values) == len(group_key)", "forall(r, 0, len(group_key), group_key[r] < len(target))",
            "forall(k, 0, len(target), same(FA(k, 0), target[k]) and FC(k, 0) == 0)"]
register(NUMBA, "_group_by_reduce", "generic,indexer=None",
         {"group_key": "arr:int:int64", "values": "arr:opaque:V", "target": "arr:opaque:V", "reduce_func": "step:STEP", "indexer": "none", "check_in_bounds": "bool"},
         {"requires": _GBR_REQ, "frozen": ["group_key", "values"], "nonneg_index": ["target", "count"],
          "loops": {0: {"iter": "range(len(group_key))", "invariant": ["forall(k, 0, len(target), same(target[k], FA(k, _it0)) and count[k] == FC(k, _it0))"], "unfold": [_unf("_it0", "_it0")]}},
          "ensures": ["forall(k, 0, len(target), same(result0[k], FA(k, len(group_key))) and result1[k] == FC(k, len(group_key)))"]},
         specs=GBR_SPECS, props=("C01", "C04", "C06"))
register(NUMBA, "_group_by_reduce", "generic,indexer=positions",
         {"group_key": "arr:int:int64", "values": "arr:opaque:V", "target": "arr:opaque:V", "reduce_func": "step:STEP", "indexer": "arr:int:int64", "check_in_bounds": "bool"},
         {"requires": _GBR_REQ + ["forall(t, 0, len(indexer), indexer[t] >= -len(group_key))", "implies(not check_in_bounds, forall(t, 0, len(indexer), indexer[t] < len(group_key)))"],
          "frozen": ["group_key", "values", "indexer"], "nonneg_index": ["target", "count"],
          "raises": "check_in_bounds and exists(t, 0, len(indexer), indexer[t] >= len(group_key))",
          "loops": {1: {"iter": "indexer", "invariant": ["forall(k, 0, len(target), same(target[k], FA(k, _it1)) and count[k] == FC(k, _it1))",
                                                        "implies(check_in_bounds, forall(t, 0, _it1, indexer[t] < len(group_key)))"],
                        "unfold": [_unf("wrapn(indexer[_it1], len(group_key))", "_it1")]}},
          "ensures": ["forall(k, 0, len(target), same(result0[k], FA(k, len(indexer))) and result1[k] == FC(k, len(indexer)))"]},
         specs=GBR_SPECS, props=("C01", "C04", "C05", "C06"))

# ----------------------------------------------------------------------------- _find_nth (forward)
Cnt = z3.Function("Cnt", I, I, I)
def _nth_contract(masked):
    sel = "mask[_it0]" if masked else "True"
    selr = lambda r: f"mask[{r}]" if masked else "True"
    return {
        "requires": ["n >= 0", "ngroups >= 0", "forall(r, 0, len(group_key), group_key[r] < ngroups)", "forall(k, 0, ngroups, Cnt(k, 0) == 0)"]
                    + (["len(mask) == len(group_key)"] if masked else []),
        "frozen": ["group_key"] + (["mask"] if masked else []), "nonneg_index": ["out", "seen"],
        "loops": {0: {"iter": "rng", "invariant": [
            f"forall(k, 0, ngroups, seen[k] == Cnt(k, _it0) and Cnt(k, _it0) >= 0 and ((out[k] == -1 and Cnt(k, _it0) <= n) or (0 <= out[k] and out[k] < _it0 and group_key[out[k]] == k and {selr('out[k]')} and Cnt(k, out[k]) == n and Cnt(k, _it0) > n)))"],
            "unfold": [f"forall(k, 0, ngroups, Cnt(k, _it0 + 1) == Cnt(k, _it0) + (1 if (group_key[_it0] == k and {sel}) else 0))"]}},
        "ensures": [f"forall(k, 0, ngroups, (result[k] == -1 and Cnt(k, len(group_key)) <= n) or (0 <= result[k] and result[k] < len(group_key) and group_key[result[k]] == k and {selr('result[k]')} and Cnt(k, result[k]) == n))"]}
for _m in (False, True):
    register(NUMBA, "_find_nth", f"forward,mask={'bool' if _m else 'None'}",
             {"group_key": "arr:int:int64", "ngroups": "int", "n": "int", "mask": "arr:bool:bool" if _m else "none"}, _nth_contract(_m), specs={"Cnt": Cnt}, props=("C15", "C05", "C06"))

# ----------------------------------------------------------------------------- _cumulative_reduce (generic step, chunked values, mask None)
LS = z3.Function("LS", I, I, I); off = z3.Function("off", I, I); XV = z3.Function("XV", I, V); INIT = z3.Const("INIT", V)
def _cum_main(m):
    return [f"forall(r, {m}, len(target), target[r] == INIT())",
            f"forall(k, 0, ngroups, group_last_seen[k] == LS(k, {m}) and group_count[k] == FC(k, {m}) and -1 <= LS(k, {m}) and LS(k, {m}) < {m} and 0 <= FC(k, {m}) and FC(k, {m}) <= {m} and implies(LS(k, {m}) >= 0, target[LS(k, {m})] == FA(k, {m})) and implies(LS(k, {m}) < 0, FA(k, {m}) == INIT()))",
            f"forall(r, 0, {m}, implies(group_key[r] >= 0, target[r] == FA(group_key[r], r + 1)))",
            f"forall(r, 0, {m}, implies(group_key[r] < 0, target[r] == INIT()))",
            f"has_null_key == exists(r, 0, {m}, group_key[r] < 0)"]
_CUM_UNF = ("forall(k, 0, ngroups, FA(k, i + 2) == (STEP_acc(FA(k, i + 1), XV(i + 1), FC(k, i + 1)) if group_key[i + 1] == k else FA(k, i + 1))"
            " and FC(k, i + 2) == (STEP_cnt(FA(k, i + 1), XV(i + 1), FC(k, i + 1)) if group_key[i + 1] == k else FC(k, i + 1))"
            " and LS(k, i + 2) == (i + 1 if group_key[i + 1] == k else LS(k, i + 1)))")
_CHUNK_REQ = ["off(0) == 0", "off(len(values)) == len(group_key)",
              "forall(c, 0, len(values), off(c + 1) == off(c) + clen_values(c) and off(c + 1) <= len(group_key) and off(c) >= 0)"]
def _late_chunkval(eng): eng.specs["chunkval"] = lambda c, p: z3.Select(eng.specs["chunk_values"](c), p)
def _step_fact(eng):
    a, v = z3.Consts("a v", V); c = z3.Int("c")
    return [z3.ForAll([a, v, c], z3.And(stepC(a, v, c) >= c, stepC(a, v, c) <= c + 1), patterns=[stepC(a, v, c)])]
register(NUMBA, "_cumulative_reduce", "generic,chunked,mask=None",
         {"group_key": "arr:int:int64", "values": "chunks:opaque:V", "reduce_func": "step:STEP", "ngroups": "int", "target": "arr:opaque:V", "mask": "none"},
         {"requires": ["len(target) == len(group_key)", "len(group_key) < 4294967296", "ngroups >= 0"] + _CHUNK_REQ + [
              "forall(r, 0, len(group_key), group_key[r] < ngroups)", "forall(r, 0, len(target), target[r] == INIT())",
              "forall(k, 0, ngroups, FA(k, 0) == INIT() and FC(k, 0) == 0 and LS(k, 0) == -1)",
              "forall(c, 0, len(values), forall(p, 0, clen_values(c), chunkval(c, p) == XV(off(c) + p)))"],
          "frozen": ["group_key"], "nonneg_index": ["group_last_seen", "group_count"],
          "loops": {0: {"iter": "values", "invariant": ["i == off(_it0) - 1", "_it0 <= len(values)"] + _cum_main("(i + 1)")},
                    1: {"iter": "arr", "invariant": ["i == off(_it0) + _it1 - 1", "_it0 < len(values)", "_it1 <= clen_values(_it0)"] + _cum_main("(i + 1)"),
                        "unfold": [_CUM_UNF], "lemmas": ["val == XV(i + 1)"]}},
          "ensures": ["forall(r, 0, len(group_key), implies(group_key[r] >= 0, result0[r] == FA(group_key[r], r + 1)))",
                      "forall(r, 0, len(group_key), implies(group_key[r] < 0, result0[r] == INIT()))", "result1 == exists(r, 0, len(group_key), group_key[r] < 0)"]},
         specs={"chunkval": None, "STEP_acc": stepA, "STEP_cnt": stepC, "FA": FA, "FC": FC, "LS": LS, "off": off, "XV": XV, "INIT": lambda: INIT},
         setup=_late_chunkval, extra_hyps=_step_fact, props=("C08", "C06"))

# ----------------------------------------------------------------------------- _rolling_sum_or_mean_1d (float, chunked, mask None, sum)
HistF = z3.Function("HistF", I, I, F); Pre = z3.Function("Pre", I, I, R); NNc = z3.Function("NNc", I, I, I); XF = z3.Function("XF", I, F)
ROLL_SPECS = {"Cnt": Cnt, "HistF": HistF, "Pre": Pre, "NNc": NNc, "off": off, "X": XF, "chunkval": None,
              "idx": lambda j, pos, A, w: z3.If(j < pos, A - pos + j, A - pos - w + j), "lo": lambda A, w: z3.If(A - w > 0, A - w, 0), "minw": lambda A, w: z3.If(A < w, A, w),
              "mkfin": lambda r: F.Fin(r), "isnull": lambda f: F.is_NaN(f), "NaN": lambda: F.NaN,
              "nnval": lambda f: z3.If(F.is_NaN(f), z3.RealVal(0), F.val(f)), "nn1": lambda f: z3.If(F.is_NaN(f), 0, 1)}
_WIN_SUM = "mkfin(Pre(group_key[r], Cnt(group_key[r], r) + 1) - Pre(group_key[r], lo(Cnt(group_key[r], r) + 1, window)))"
def _rs_main(m):
    A = f"Cnt(k, {m})"
    return [f"forall(k, 0, ngroups, {A} >= 0 and {A} <= {m} and 0 <= group_positions[k] and group_positions[k] < window and group_n_seen[k] == minw({A}, window) and implies({A} < window, group_positions[k] == {A}))",
            f"forall(k, 0, ngroups, forall(j, 0, window, implies(idx(j, group_positions[k], {A}, window) >= 0, group_buffers[k, j] == HistF(k, idx(j, group_positions[k], {A}, window))) and implies(idx(j, group_positions[k], {A}, window) < 0, isnull(group_buffers[k, j]))))",
            f"forall(k, 0, ngroups, group_non_null[k] == NNc(k, {A}) - NNc(k, lo({A}, window)) and group_sums[k] == mkfin(Pre(k, {A}) - Pre(k, lo({A}, window))))",
            f"forall(r, 0, {m}, implies(group_key[r] < 0, isnull(out[r])))",
            f"forall(r, 0, {m}, implies(group_key[r] >= 0, out[r] == ite(NNc(group_key[r], Cnt(group_key[r], r) + 1) - NNc(group_key[r], lo(Cnt(group_key[r], r) + 1, window)) >= min_periods, {_WIN_SUM}, NaN())))",
            f"forall(r, {m}, len(out), isnull(out[r]))"]
_K, _A = "group_key[i + 1]", "Cnt(group_key[i + 1], i + 1)"
ROLL_UNF = [
    "forall(k, 0, ngroups, Cnt(k, i + 2) == Cnt(k, i + 1) + (1 if group_key[i + 1] == k else 0))",
    f"implies({_K} >= 0, HistF({_K}, {_A}) == X(i + 1))",
    f"implies({_K} >= 0, Pre({_K}, {_A} + 1) == Pre({_K}, {_A}) + nnval(HistF({_K}, {_A})))",
    f"implies({_K} >= 0, NNc({_K}, {_A} + 1) == NNc({_K}, {_A}) + nn1(HistF({_K}, {_A})))",
    f"implies({_K} >= 0 and {_A} >= window, Pre({_K}, {_A} - window + 1) == Pre({_K}, {_A} - window) + nnval(HistF({_K}, {_A} - window)))",
    f"implies({_K} >= 0 and {_A} >= window, NNc({_K}, {_A} - window + 1) == NNc({_K}, {_A} - window) + nn1(HistF({_K}, {_A} - window)))",
    # L-nncount (proved separately by induction): 0 <= NNc(k,b) - NNc(k,a) <= b - a, instantiated at the old window, the new window and the kept part
    f"implies({_K} >= 0, 0 <= NNc({_K}, {_A}) - NNc({_K}, lo({_A}, window)) and NNc({_K}, {_A}) - NNc({_K}, lo({_A}, window)) <= {_A} - lo({_A}, window))",
    f"implies({_K} >= 0, 0 <= NNc({_K}, {_A} + 1) - NNc({_K}, lo({_A} + 1, window)) and NNc({_K}, {_A} + 1) - NNc({_K}, lo({_A} + 1, window)) <= {_A} + 1 - lo({_A} + 1, window))",
    f"implies({_K} >= 0 and {_A} >= window, 0 <= NNc({_K}, {_A}) - NNc({_K}, {_A} - window + 1) and NNc({_K}, {_A}) - NNc({_K}, {_A} - window + 1) <= window - 1)"]
register(NUMBA, "_rolling_sum_or_mean_1d", "float,chunked,mask=None,sum",
         {"group_key": "arr:int:int64", "values": "chunks:float:float64", "ngroups": "int", "window": "int", "min_periods": "none", "mask": "none", "null_value": "float", "want_mean": "const:False"},
         {"requires": ["window >= 1", "window <= 32767", "ngroups >= 0", "isnull(null_value)"] + _CHUNK_REQ + [
              "forall(c, 0, len(values), forall(p, 0, clen_values(c), chunkval(c, p) == X(off(c) + p)))",
              "forall(r, 0, len(group_key), group_key[r] < ngroups)", "forall(k, 0, ngroups, Cnt(k, 0) == 0 and NNc(k, 0) == 0 and Pre(k, 0) == 0)"],
          "frozen": ["group_key"], "nonneg_index": ["group_sums", "group_buffers", "group_positions", "group_non_null", "group_n_seen"],
          "loops": {0: {"iter": "values", "invariant": ["i == off(_it0) - 1", "_it0 <= len(values)"] + _rs_main("(i + 1)")},
                    1: {"iter": "arr", "invariant": ["i == off(_it0) + _it1 - 1", "_it0 < len(values)", "_it1 <= clen_values(_it0)"] + _rs_main("(i + 1)"),
                        "unfold": ROLL_UNF, "lemmas": ["val == X(i + 1)"]}},
          "ensures": [s.replace("out[", "result[") for s in _rs_main("len(group_key)")[3:5]]},
         specs=ROLL_SPECS, setup=_late_chunkval, props=("C09", "C06"))

# ----------------------------------------------------------------------------- min_or_max_and_position
def _momp_contract(want_max):
    better = ">=" if want_max else "<="
    def char(b, n):
        return (f"((isnullv({b}) and forall(l, 0, {n}, isnullv(arr[l]))) or (not isnullv({b}) and exists(l, 0, {n}, arr[l] == {b}) and "
                f"forall(l, 0, {n}, implies(not isnullv(arr[l]), {b} {better} arr[l]))))")
    return {"requires": ["len(arr) >= 1"], "frozen": ["arr"],
            "loops": {0: {"invariant": ["0 <= i and i <= len(arr) - 1", "forall(l, 0, i, isnullv(arr[l]))"], "decreases": "len(arr) - i"},
                      1: {"iter": "enumerate(arr[i + 1:], i)", "invariant": ["0 <= i and i <= len(arr) - 1", "forall(l, 0, i, isnullv(arr[l]))", char("best", "(i + 1 + _it1)")]}},
            "ensures": [char("result0", "len(arr)")]}
for _kind, _dt in (("float", "float64"), ("int", "int64")):
    for _wm in (True, False):
        register(NUMBA, "min_or_max_and_position", f"{_kind},want_max={_wm}", {"arr": f"arr:{_kind}:{_dt}", "want_max": f"const:{_wm}"}, _momp_contract(_wm),
                 specs={"isnullv": (lambda f: F.is_NaN(f)) if _kind == "float" else (lambda x: x == MIN_INT)}, props=("C09", "C12"))

# ----------------------------------------------------------------------------- emas._ema_grouped
Nk = z3.Function("Nk", I, I, R); Dk = z3.Function("Dk", I, I, R); LastOut = z3.Function("LastOut", I, I, F); OutF = z3.Function("OutF", I, F)
EMA_SPECS = {"Nk": Nk, "Dk": Dk, "LastOut": LastOut, "OutF": OutF, "fval": lambda f: F.val(f), "mkfin": lambda r: F.Fin(r), "isnan": lambda f: F.is_NaN(f), "NaN": lambda: F.NaN}
def _ema_contract(keylo):
    return {"requires": ["len(values) == len(group_key)", "ngroups >= 0", "not isnan(alpha)", "fval(alpha) > 0", "fval(alpha) <= 1",
                         f"forall(r, 0, len(group_key), group_key[r] < ngroups and group_key[r] >= {keylo})",
                         "forall(k, 0, ngroups, Nk(k, 0) == 0 and Dk(k, 0) == 0 and isnan(LastOut(k, 0)))"],
            "frozen": ["group_key", "values"], "nonneg_index": ["residuals", "residual_weights", "last_seen"],
            "loops": {0: {"iter": "enumerate(zip(group_key, values))",
                "invariant": ["not isnan(beta)", "fval(beta) == 1 - fval(alpha)",
                              "forall(q, 0, ngroups, residuals[q] == mkfin(Nk(q, _it0)) and residual_weights[q] == mkfin(Dk(q, _it0)) and last_seen[q] == LastOut(q, _it0) and Dk(q, _it0) >= 0)",
                              "forall(r, 0, _it0, implies(group_key[r] >= 0, out[r] == OutF(r)))"],
                "unfold": ["forall(q, 0, ngroups, Nk(q, _it0 + 1) == ite(group_key[_it0] == q, (1 - fval(alpha)) * (Nk(q, _it0) + ite(isnan(values[_it0]), 0, fval(values[_it0]))), Nk(q, _it0))"
                           " and Dk(q, _it0 + 1) == ite(group_key[_it0] == q, (1 - fval(alpha)) * (Dk(q, _it0) + ite(isnan(values[_it0]), 0, 1)), Dk(q, _it0))"
                           " and LastOut(q, _it0 + 1) == ite(group_key[_it0] == q, OutF(_it0), LastOut(q, _it0)))",
                           "implies(group_key[_it0] >= 0, OutF(_it0) == ite(isnan(values[_it0]), LastOut(group_key[_it0], _it0), mkfin((fval(values[_it0]) + Nk(group_key[_it0], _it0)) / (1 + Dk(group_key[_it0], _it0)))))"]}},
            "ensures": ["forall(r, 0, len(group_key), implies(group_key[r] >= 0, result[r] == OutF(r)))"]}
register(EMAS, "_ema_grouped", "float,mask=None,keys>=-1(what callers pass)", {"group_key": "arr:int:int64", "values": "arr:float:float64", "alpha": "float", "ngroups": "int", "mask": "none"},
         _ema_contract("-1"), specs=EMA_SPECS, props=("C10", "C06"))

# ----------------------------------------------------------------------------- factorization
CODES0 = z3.Function("CODES0", I, I, I); WT = z3.Function("WT", I, I); WS2 = z3.Function("WS2", I, I, I); RowNull = z3.Function("RowNull", I, B); Mc = z3.Int("M"); Tlen = z3.Int("T")
FSPECS = {"CODES0": CODES0, "WT": WT, "WS2": WS2, "RowNull": RowNull, "M": lambda: Mc, "T": lambda: Tlen, "Code": lambda r_: WS2(r_, Mc)}
register(FACT, "_weight_code_sum", "int64", {"codes": "arr:int:int64", "weights": "arr:int:int64"},
         {"ghost_params": {"r": "int"},
          "requires": ["M() >= 1", "len(codes) == M()", "len(weights) == M()", "WT(M() - 1) == 1", "WS2(r, 0) == 0",
                       "forall(l, 0, M(), codes[l] == CODES0(r, l) and weights[l] == WT(l))", "forall(l, 0, M(), WS2(r, l + 1) == WS2(r, l) + CODES0(r, l) * WT(l))",
                       "RowNull(r) == exists(l, 0, M(), CODES0(r, l) == -1)"],
          "frozen": ["codes", "weights"],
          "loops": {0: {"iter": "zip(codes[:-1], weights[:-1])", "invariant": ["out == WS2(r, _it0)", "forall(l, 0, _it0, CODES0(r, l) != -1)"]}},
          "ensures": ["result == ite(RowNull(r), -1, WS2(r, M()))"]}, specs=FSPECS, props=("C02", "C06"))
_WCS = {"_weight_code_sum": {"params": ["codes", "weights"], "returns": ["int"],
        "requires": ["len(codes) == M()", "len(weights) == M()", "forall(l, 0, M(), codes[l] == CODES0(r, l) and weights[l] == WT(l))"],
        "ensures": ["result == ite(RowNull(r), -1, Code(r))"]}}
register(FACT, "_combine_factorizations", "array tracker", {"codes": "arr2:int:int64", "code_weights": "arr:int:int64", "code_tracker": "arr:int:int32"},
         {"call_ghost": {"_weight_code_sum": {"r": "i"}}, "ghost": {"wit": ("arr:int:T()", None)}, "ghost_updates": [("after_store(code_tracker)", "wit[k] = i")],
          "nonneg_index": ["code_tracker", "combined_codes"],
          "requires": ["M() >= 1", "T() >= 1", "len(code_tracker) == T()", "len(code_weights) == M()", "len(codes) < 2147483648",
                       "forall(l, 0, M(), code_weights[l] == WT(l))", "forall(a, 0, len(codes), forall(b, 0, M(), codes[a, b] == CODES0(a, b)))",
                       "forall(x, 0, T(), code_tracker[x] == -1)",
                       "forall(a, 0, len(codes), implies(not RowNull(a), 0 <= Code(a) and Code(a) < T()))",
                       "forall(a, 0, len(codes), forall(b, 0, len(codes), implies(not RowNull(a) and not RowNull(b), (Code(a) == Code(b)) == forall(l, 0, M(), CODES0(a, l) == CODES0(b, l)))))"],
          "loops": {0: {"iter": "range(len(combined_codes))", "ghost_arrays": ["wit"],
              "invariant": ["0 <= group_id and group_id <= _it0", "len(combined_codes) == len(codes)",
                            "forall(a, _it0, len(codes), forall(b, 0, M(), codes[a, b] == CODES0(a, b)))",
                            "forall(a, 0, _it0, implies(RowNull(a), combined_codes[a] == -1))",
                            "forall(a, 0, _it0, implies(not RowNull(a), 0 <= combined_codes[a] and combined_codes[a] < group_id and code_tracker[Code(a)] == combined_codes[a] and forall(b, 0, M(), codes[combined_codes[a], b] == CODES0(a, b))))",
                            "forall(x, 0, T(), code_tracker[x] == -1 or (0 <= code_tracker[x] and code_tracker[x] < group_id and 0 <= wit[x] and wit[x] < _it0 and not RowNull(wit[x]) and Code(wit[x]) == x and combined_codes[wit[x]] == code_tracker[x]))"]}},
          "ensures": ["forall(a, 0, len(codes), implies(RowNull(a), result0[a] == -1))",
                      "forall(a, 0, len(codes), implies(not RowNull(a), 0 <= result0[a] and forall(b, 0, M(), result1[result0[a], b] == CODES0(a, b))))",
                      "forall(a, 0, len(codes), forall(c, 0, len(codes), implies(not RowNull(a) and not RowNull(c), (result0[a] == result0[c]) == forall(l, 0, M(), CODES0(a, l) == CODES0(c, l)))))"]},
         specs=FSPECS, callees=_WCS, extra_hyps=lambda eng: [z3.Int("len1_codes") == Mc], props=("C02", "C06"))

# ----------------------------------------------------------------------------- reduce_array_pair (generic reducer)
for _cn, _ct, _cexpr in (("counts=None", "none", "1"), ("counts=array", "arr:int:int64", "counts[j]")):
    register(NUMBA, "reduce_array_pair", f"generic,{_cn}", {"x": "arr:opaque:V", "y": "arr:opaque:V", "reducer": "step:STEP", "counts": _ct},
             {"requires": ["len(y) == len(x)"] + (["len(counts) == len(x)"] if _ct != "none" else []),
              "frozen": ["x", "y"] + (["counts"] if _ct != "none" else []),
              "loops": {0: {"iter": "nb.prange(len(x))", "invariant": ["len(out) == len(x)", f"forall(j, 0, _it0, out[j] == STEP_acc(x[j], y[j], {_cexpr}))", "forall(j, _it0, len(x), out[j] == x[j])"]}},
              "ensures": ["len(result) == len(x)", f"forall(j, 0, len(x), result[j] == STEP_acc(x[j], y[j], {_cexpr}))"]},
             specs={"STEP_acc": stepA, "STEP_cnt": stepC}, props=("C03", "C04"))

# ----------------------------------------------------------------------------- _rolling_shift_or_diff_1d (float, chunked, mask None, shift)
def _sh_main(m):
    A = f"Cnt(k, {m})"
    return [f"forall(k, 0, ngroups, {A} >= 0 and {A} <= {m} and 0 <= group_buffer_pos[k] and group_buffer_pos[k] < window and group_counts[k] == minw({A}, window) and implies({A} < window, group_buffer_pos[k] == {A}))",
            f"forall(k, 0, ngroups, forall(j, 0, window, implies(idx(j, group_buffer_pos[k], {A}, window) >= 0, group_buffers[k, j] == HistF(k, idx(j, group_buffer_pos[k], {A}, window)))))",
            f"forall(r, 0, {m}, implies(group_key[r] < 0, isnull(out[r])))",
            f"forall(r, 0, {m}, implies(group_key[r] >= 0, out[r] == ite(Cnt(group_key[r], r) >= window, HistF(group_key[r], Cnt(group_key[r], r) - window), NaN())))",
            f"forall(r, {m}, len(out), isnull(out[r]))"]
register(NUMBA, "_rolling_shift_or_diff_1d", "float,chunked,mask=None,shift",
         {"group_key": "arr:int:int64", "values": "chunks:float:float64", "ngroups": "int", "window": "int", "mask": "none", "null_value": "float", "want_shift": "const:True"},
         {"requires": ["window >= 1", "window <= 32767", "ngroups >= 0", "isnull(null_value)"] + _CHUNK_REQ + [
              "forall(c, 0, len(values), forall(p, 0, clen_values(c), chunkval(c, p) == X(off(c) + p)))",
              "forall(r, 0, len(group_key), group_key[r] < ngroups)", "forall(k, 0, ngroups, Cnt(k, 0) == 0)"],
          "frozen": ["group_key"], "nonneg_index": ["group_buffers", "group_buffer_pos", "group_counts"],
          "loops": {0: {"iter": "values", "invariant": ["i == off(_it0) - 1", "_it0 <= len(values)"] + _sh_main("(i + 1)")},
                    1: {"iter": "arr", "invariant": ["i == off(_it0) + _it1 - 1", "_it0 < len(values)", "_it1 <= clen_values(_it0)"] + _sh_main("(i + 1)"),
                        "unfold": ROLL_UNF[:2], "lemmas": ["val == X(i + 1)"]}},
          "ensures": [s.replace("out[", "result[") for s in _sh_main("len(group_key)")[2:4]]},
         specs=ROLL_SPECS, setup=_late_chunkval, props=("C09", "C06", "C12"))

# ----------------------------------------------------------------------------- _find_first_or_last_n (forward)
register(NUMBA, "_find_first_or_last_n", "forward,mask=None",
         {"group_key": "arr:int:int64", "ngroups": "int", "n": "int", "mask": "none", "forward": "const:True"},
         {"requires": ["n >= 0", "ngroups >= 0", "forall(r, 0, len(group_key), group_key[r] < ngroups)", "forall(k, 0, ngroups, Cnt(k, 0) == 0)"],
          "frozen": ["group_key"], "nonneg_index": ["out", "seen"],
          "loops": {0: {"iter": "rng", "invariant": [
              "forall(k, 0, ngroups, Cnt(k, _it0) >= 0 and seen[k] == minw(Cnt(k, _it0), n))",
              "forall(k, 0, ngroups, forall(j, 0, n, implies(j < seen[k], 0 <= out[k, j] and out[k, j] < _it0 and group_key[out[k, j]] == k and Cnt(k, out[k, j]) == j) and implies(j >= seen[k], out[k, j] == -1)))"],
              "unfold": ["forall(k, 0, ngroups, Cnt(k, _it0 + 1) == Cnt(k, _it0) + (1 if group_key[_it0] == k else 0))"]}},
          "ensures": ["forall(k, 0, ngroups, forall(j, 0, n, implies(j < minw(Cnt(k, len(group_key)), n), 0 <= result[k, j] and result[k, j] < len(group_key) and group_key[result[k, j]] == k and Cnt(k, result[k, j]) == j) and implies(j >= minw(Cnt(k, len(group_key)), n), result[k, j] == -1)))"]},
         specs={"Cnt": Cnt, "minw": lambda A, w: z3.If(A < w, A, w)}, props=("C15", "C06"))

# ----------------------------------------------------------------------------- nanops._nb_reduce (float, skipna, no initial value) against the contract of _get_first_non_null
NANOPS = "groupby_lib/nanops.py"
OPF = z3.Function("OPF", F, F, F); AccF = z3.Function("AccF", I, F); HasF = z3.Function("HasF", I, B)
_GFNN = {"_get_first_non_null": {"params": ["arr"], "returns": ["int", "float"], "requires": [],
         "ensures": ["result0 == -1 or (0 <= result0 and result0 < len(arr))",
                     "implies(result0 == -1, forall(l, 0, len(arr), isnullf(arr[l])))",
                     "implies(result0 >= 0, not isnullf(arr[result0]) and result1 == arr[result0] and forall(l, 0, result0, isnullf(arr[l])))"]}}
register(NANOPS, "_nb_reduce", "float,skipna,no initial value", {"reduce_func": "bin:OPF", "arr": "arr:float:float64", "skipna": "const:True", "initial_value": "none"},
         {"requires": ["len(arr) >= 1", "not HasF(0)",
                       "forall(j, 0, len(arr), HasF(j + 1) == (HasF(j) or not isnullf(arr[j])))",
                       "forall(j, 0, len(arr), AccF(j + 1) == ite(isnullf(arr[j]), AccF(j), ite(HasF(j), OPF(AccF(j), arr[j]), arr[j])))",
                       # L-has (proved separately by induction): HasF(j) iff some non-null before j
                       "forall(j, 0, len(arr) + 1, HasF(j) == exists(l, 0, j, not isnullf(arr[l])))"],
          "frozen": ["arr"],
          "loops": {0: {"iter": "range(start, len(arr))", "invariant": ["1 <= start and start <= len(arr)", "HasF(start + _it0)", "out == AccF(start + _it0)"]}},
          "ensures": ["ite(HasF(len(arr)), result == AccF(len(arr)), isnullf(result))"]},
         specs={"OPF": OPF, "AccF": AccF, "HasF": HasF, "isnullf": lambda f: F.is_NaN(f)}, callees=_GFNN, props=("C20",))

# ----------------------------------------------------------------------------- core.GroupBy._build_group_sorted_indexer_numba (counting sort; key_map None, mask None)
CORE = "groupby_lib/groupby/core.py"
PS = z3.Function("PS", I, I); XK = z3.Function("XK", I, I); CntK = z3.Function("CntK", I, I, I); offk = z3.Function("offk", I, I)
def _late_chunkkey(eng): eng.specs["chunkkey"] = lambda c, p: z3.Select(eng.specs["chunk_group_key_list"](c), p)
_N = "offk(len(group_key_list))"
def _cs_main(i):
    return ["len(indexer) == PS(len(group_counts))", "len(current_pos) == len(group_counts)",
            f"forall(m, 0, len(group_counts), current_pos[m] == PS(m) + CntK(m, {i}))",
            f"forall(q, 0, len(indexer), implies(RankOf(q) < CntK(GrpOf(q), {i}), 0 <= indexer[q] and indexer[q] < {i} and XK(indexer[q]) == GrpOf(q) and CntK(GrpOf(q), indexer[q]) == RankOf(q)), trigger=indexer[q])"]
register(CORE, "GroupBy._build_group_sorted_indexer_numba", "key_map=None,mask=None",
         {"group_key_list": "chunks:int:int64", "group_counts": "arr:int:int64", "key_map": "none", "mask": "none"},
         {"requires": ["offk(0) == 0", f"forall(c, 0, len(group_key_list), offk(c + 1) == offk(c) + clen_group_key_list(c) and offk(c + 1) <= {_N} and offk(c) >= 0)",
                       "forall(c, 0, len(group_key_list), forall(p, 0, clen_group_key_list(c), chunkkey(c, p) == XK(offk(c) + p)))",
                       f"forall(r, 0, {_N}, XK(r) < len(group_counts))", "PS(0) == 0",
                       "forall(m, 0, len(group_counts), PS(m + 1) == PS(m) + group_counts[m] and group_counts[m] >= 0 and CntK(m, 0) == 0)",
                       # what the caller must establish: the counts are the true counts
                       f"forall(m, 0, len(group_counts), group_counts[m] == CntK(m, {_N}))",
                       # L-cnt-mono and L-ps-mono (lemmas over the specs, proved separately by induction)
                       f"forall(m, 0, len(group_counts), forall(r, 0, {_N}, implies(XK(r) == m, CntK(m, r) < CntK(m, {_N})) and CntK(m, r) >= 0))",
                       "forall(m, 0, len(group_counts), forall(j, m + 1, len(group_counts) + 1, PS(m + 1) <= PS(j)))", "forall(m, 0, len(group_counts) + 1, PS(m) >= 0)",
                       # position -> (group, rank): definitional, with its inverse as an L lemma instantiated in the loop hint
                       "forall(q, 0, PS(len(group_counts)), 0 <= GrpOf(q) and GrpOf(q) < len(group_counts) and PS(GrpOf(q)) <= q and q < PS(GrpOf(q) + 1) and RankOf(q) == q - PS(GrpOf(q)))"],
          "frozen": ["group_counts"], "nonneg_index": ["current_pos", "indexer", "group_starts"],
          "loops": {0: {"iter": "range(ngroups)", "invariant": ["len(group_starts) == ngroups + 1", "ngroups == len(group_counts)", "forall(m, 0, _it0 + 1, group_starts[m] == PS(m))"]},
                    1: {"iter": "group_key_list", "invariant": ["i == offk(_it1)", "_it1 <= len(group_key_list)"] + _cs_main("i")},
                    2: {"iter": "arr", "invariant": ["i == offk(_it1) + _it2", "_it1 < len(group_key_list)", "_it2 <= clen_group_key_list(_it1)"] + _cs_main("i"),
                        "unfold": ["forall(m, 0, len(group_counts), CntK(m, i + 1) == CntK(m, i) + (1 if XK(i) == m else 0))",
                                   "implies(XK(i) >= 0, GrpOf(PS(XK(i)) + CntK(XK(i), i)) == XK(i))"], "lemmas": ["k == XK(i)"]}},
          "ensures": [f"len(result) == PS(len(group_counts))",
                      f"forall(q, 0, len(result), 0 <= result[q] and result[q] < {_N} and XK(result[q]) == GrpOf(q) and CntK(GrpOf(q), result[q]) == RankOf(q), trigger=result[q])"]},
         specs={"PS": PS, "XK": XK, "CntK": CntK, "offk": offk, "chunkkey": None, "GrpOf": z3.Function("GrpOf", I, I), "RankOf": z3.Function("RankOf", I, I)}, setup=_late_chunkkey, props=("C02", "C16"))
