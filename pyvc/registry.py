"""PyVC registry: (function, instantiation, contract) records, VC generation from the real source, parallel discharge, report.

A record names a function of /repo by file + qualified name; `generate` re-reads that file from the working tree on every run,
extracts the function's AST, symbolically executes it under the sidecar contract and returns one SMT-LIB query per obligation.
Discharge: z3 (python API, text round-trip through a process pool); what z3 leaves open is retried with other random seeds and
then handed to /usr/bin/cvc5; `both=True` (thorough tier) also sends every obligation to cvc5 independently.
"""
import os, json, time, hashlib, importlib, subprocess, tempfile, multiprocessing as mp
import z3
from .engine import Engine, Unsupported, Stale

RECORDS = []
LEMMAS = []      # (name, props, callable -> list of (subname, hyps, goal))


def register(file, qualname, inst_name, inst, contract, specs=None, callees=None, props=(), extra_hyps=None, setup=None, lemma_deps=(), thorough_only=False, cex=None):
    """specs: dict or callable returning a fresh dict; extra_hyps: callable(engine) -> list of z3 terms (instantiated L lemmas, axioms);
    setup: callable(engine) run after construction (late-bound spec functions); lemma_deps: names of L lemmas the contract uses as hypotheses"""
    props = tuple(props)
    # every kernel with a frame clause (`frozen`: arrays it must not write, discharged as `frame` obligations at every store) serves C19
    # (the two heaviest rolling kernels serve C19 through one instantiation each, to keep the quick tier of C19 short)
    heavy = qualname in ("_rolling_max_or_min_1d", "_rolling_sum_or_mean_1d") and not inst_name.startswith(("float,chunked,mask=None,max", "float,chunked,mask=None,sum"))
    if contract.get("frozen") and "C19" not in props and not heavy and not contract.get("no_auto_props"): props += ("C19",)
    RECORDS.append(dict(file=file, qualname=qualname, inst_name=inst_name, inst=inst, contract=contract, specs=specs, callees=callees or {},
                        props=props, extra_hyps=extra_hyps, setup=setup, lemma_deps=tuple(lemma_deps), thorough_only=thorough_only, cex=cex))


def lemma(name, props):
    def deco(fn):
        LEMMAS.append((name, tuple(props), fn)); return fn
    return deco


def fname_of(rec): return f"{rec['file']}::{rec['qualname']}[{rec['inst_name']}]"


def generate(rec, repo):
    path = os.path.join(repo, rec["file"])
    specs = rec["specs"]() if callable(rec["specs"]) else dict(rec["specs"] or {})
    eng = Engine(path, rec["qualname"], rec["contract"], specs, callees=rec["callees"]); eng.inst_name = rec["inst_name"]
    if rec["setup"]: rec["setup"](eng)
    t = time.time()
    obls = eng.verify(rec["inst"])
    extra = rec["extra_hyps"](eng) if rec["extra_hyps"] else []
    jobs = []; covers = {}
    for o in obls:
        s = z3.Solver(); s.add(*o.hyps); s.add(*extra); s.add(z3.Not(o.goal))
        jobs.append({"name": f"{os.path.basename(rec['file'])}::{o.name}", "kind": o.kind, "line": o.line, "smt2": s.to_smt2()})
        if o.kind in ("post", "inv_pres", "raises"):
            path_sig = o.name.split("@", 1)[1].rsplit("#", 1)[0]
            if path_sig not in covers:
                c = z3.Solver(); c.add(*o.hyps); c.add(*extra)
                covers[path_sig] = {"name": f"{os.path.basename(rec['file'])}::{rec['qualname']}[{rec['inst_name']}]::cover@{path_sig}", "smt2": c.to_smt2()}
    return {"function": fname_of(rec), "file": rec["file"], "qualname": rec["qualname"], "inst": rec["inst_name"], "sha": eng.sha, "pre_sat": eng.pre_sat,
            "props": rec["props"], "gen_s": round(time.time() - t, 2), "paths_pruned": eng.stats["paths_pruned"], "prune_max_s": round(eng.stats.get("prune_max_s", 0), 2), "jobs": jobs,
            "covers": list(covers.values()), "lemma_deps": rec["lemma_deps"], "assumes": eng.assume_log if hasattr(eng, "assume_log") else [],
            "assumed_callee_contracts": [{"callee": k, "contract": v["assumed"]} for k, v in (rec["callees"] or {}).items() if isinstance(v, dict) and v.get("assumed")]}


def _gen(args):
    idx, repo, mods = args
    for m in mods: importlib.import_module(m)
    rec = RECORDS[idx]
    base = {"function": fname_of(rec), "file": rec["file"], "qualname": rec["qualname"], "inst": rec["inst_name"], "props": rec["props"], "jobs": [], "covers": [],
            "lemma_deps": rec["lemma_deps"]}
    try: return generate(rec, repo)
    except Stale as ex: return dict(base, stale=str(ex))
    except Unsupported as ex: return dict(base, unsupported=str(ex))
    except FileNotFoundError as ex: return dict(base, stale=str(ex))
    except RecursionError as ex: return dict(base, unsupported="recursion limit in the front end")
    except Exception as ex:
        import traceback
        return dict(base, unsupported=f"front end error {type(ex).__name__}: {ex}", traceback=traceback.format_exc()[-1500:])


def _solve(args):
    name, text, timeout, seed = args
    s = z3.Solver(); s.set(timeout=timeout)
    if seed: s.set("random_seed", seed); z3.set_param("smt.random_seed", seed)
    s.from_string(text)
    t = time.time(); r = str(s.check()); return name, r, round(time.time() - t, 3)


def _sexprs(text):
    """minimal SMT-LIB reader: nested lists of atoms (quoted symbols and comments handled)"""
    toks = []; i = 0; n = len(text)
    while i < n:
        ch = text[i]
        if ch.isspace(): i += 1
        elif ch == ";":
            while i < n and text[i] != "\n": i += 1
        elif ch in "()": toks.append(ch); i += 1
        elif ch == "|":
            j = text.index("|", i + 1); toks.append(text[i:j + 1]); i = j + 1
        elif ch == '"':
            j = text.index('"', i + 1); toks.append(text[i:j + 1]); i = j + 1
        else:
            j = i
            while j < n and not text[j].isspace() and text[j] not in "()": j += 1
            toks.append(text[i:j]); i = j
    out = []; stack = [out]
    for t in toks:
        if t == "(": new = []; stack[-1].append(new); stack.append(new)
        elif t == ")": stack.pop()
        else: stack[-1].append(t)
    return out


def _nest2d(x):
    """z3 prints two-index arrays as (Array Int Int T) / (select a i j) / (store a i j v), which is not SMT-LIB: rewrite to nested arrays for cvc5"""
    if not isinstance(x, list): return x
    x = [_nest2d(y) for y in x]
    if len(x) == 4 and x[0] == "Array": return ["Array", x[1], ["Array", x[2], x[3]]]
    if len(x) == 4 and x[0] == "select": return ["select", ["select", x[1], x[2]], x[3]]
    if len(x) == 5 and x[0] == "store": return ["store", x[1], x[2], ["store", ["select", x[1], x[2]], x[3], x[4]]]
    if len(x) == 2 and isinstance(x[0], list) and len(x[0]) == 3 and x[0][0] == "as" and x[0][1] == "const" and isinstance(x[0][2], list) and x[0][2][0] == "Array" \
            and isinstance(x[0][2][2], list) and x[0][2][2][0] == "Array" and x[0][2].__len__() == 3 and getattr(_nest2d, "_depth", 0) == 0:
        return x
    return x


def _dump(x): return x if not isinstance(x, list) else "(" + " ".join(_dump(y) for y in x) + ")"


def to_cvc5(text):
    try: return "\n".join(_dump(_nest2d(e)) for e in _sexprs(text))
    except Exception: return text


def _solve_cvc5(args):
    name, text, timeout = args
    text = to_cvc5(text)
    t = time.time()
    with tempfile.NamedTemporaryFile("w", suffix=".smt2", delete=False, dir=os.environ.get("PYVC_TMP") or None) as f:
        f.write("(set-logic ALL)\n" + text + "\n(check-sat)\n" if "(check-sat)" not in text else "(set-logic ALL)\n" + text); fn = f.name
    try:
        p = subprocess.run(["/usr/bin/cvc5", f"--tlimit={timeout}", "--full-saturate-quant", fn], capture_output=True, text=True, timeout=timeout / 1000 * 2 + 10)
        out = (p.stdout.strip().splitlines() or ["unknown"])[0].strip()
        if out not in ("sat", "unsat", "unknown"): out = "unknown"
    except Exception:
        out = "unknown"
    finally:
        try: os.unlink(fn)
        except OSError: pass
    return name, out, round(time.time() - t, 3)


def _run_lemma(args):
    idx, mods = args
    for m in mods: importlib.import_module(m)
    name, props, fn = LEMMAS[idx]; out = []
    for sub, hyps, goal in fn():
        s = z3.Solver(); s.set(timeout=60000); s.add(*hyps); s.add(z3.Not(goal))
        t = time.time(); r = str(s.check()); out.append({"name": f"lemma::{name}::{sub}", "kind": "lemma-spec", "result": r, "solver_s": round(time.time() - t, 3), "backend": "z3"})
    return {"lemma": name, "props": props, "rows": out}


def select(only=None, props=None, tier="thorough"):
    idxs = []
    for i, r in enumerate(RECORDS):
        if tier == "quick" and r.get("thorough_only"): continue       # the heaviest instantiations are discharged in the thorough tier only (and by ./check baseline / selftest)
        if props and not (set(props) & set(r["props"])): continue
        if only and not any(x in f"{r['qualname']}[{r['inst_name']}]" for x in only): continue
        idxs.append(i)
    return idxs


def run_all(repo, modules, only=None, props=None, timeout=30000, procs=16, both=False, retries=(7, 23), covers=True, lemmas=True, tier="thorough"):
    for m in modules: importlib.import_module(m)
    idxs = select(only, props, tier)
    t0 = time.time()
    ctx = mp.get_context("spawn")
    with ctx.Pool(min(procs, max(1, len(idxs)))) as pool: gens = pool.map(_gen, [(i, repo, modules) for i in idxs], chunksize=1)
    tgen = time.time() - t0
    t1 = time.time()
    texts = {j["name"]: j["smt2"] for g in gens for j in g["jobs"]}
    # longest-first would need history; keep generation order (deterministic)
    res = {}
    with ctx.Pool(procs) as pool:
        for n, r, dt in pool.map(_solve, [(n, t, timeout, 0) for n, t in texts.items()], chunksize=1): res[n] = {"result": r, "solver_s": dt, "backend": "z3", "attempts": [["z3", r, dt]]}
        # retries: other seeds, then cvc5
        for seed in retries:
            open_ = [n for n, v in res.items() if v["result"] == "unknown"]
            if not open_: break
            for n, r, dt in pool.map(_solve, [(n, texts[n], timeout, seed) for n in open_], chunksize=1):
                res[n]["attempts"].append([f"z3(seed={seed})", r, dt])
                if r != "unknown": res[n].update(result=r, solver_s=dt, backend=f"z3(seed={seed})")
        open_ = [n for n, v in res.items() if v["result"] == "unknown"] if not both else list(res)
        if open_:
            for n, r, dt in pool.map(_solve_cvc5, [(n, texts[n], timeout) for n in open_], chunksize=1):
                res[n]["attempts"].append(["cvc5", r, dt]); res[n]["cvc5"] = r
                if res[n]["result"] == "unknown" and r != "unknown": res[n].update(result=r, solver_s=dt, backend="cvc5")
        cover_res = {}
        if covers:
            cjobs = [(c["name"], c["smt2"], 2000, 0) for g in gens for c in g["covers"]]
            for n, r, dt in pool.map(_solve, cjobs, chunksize=4): cover_res[n] = r
        lem_rows = []
        if lemmas:
            want = set(d for g in gens for d in g.get("lemma_deps", ()))
            lidx = [i for i, (nm, lp, _) in enumerate(LEMMAS) if nm in want or (props and set(props) & set(lp)) or (not props and not only)]
            lem_rows = pool.map(_run_lemma, [(i, modules) for i in lidx], chunksize=1)
    report = {"repo": repo, "functions": [], "obligations": 0, "discharged": 0, "wall_generate_s": round(tgen, 1), "wall_discharge_s": round(time.time() - t1, 1),
              "lemmas": lem_rows, "by_backend": {}, "solver_s": 0.0}
    for g in gens:
        rows = [dict(name=j["name"], kind=j["kind"], line=j["line"], **res[j["name"]]) for j in g["jobs"]]
        ok = sum(1 for r in rows if r["result"] == "unsat")
        vac = [c["name"] for c in g["covers"] if cover_res.get(c["name"]) == "unsat"]
        # a single infeasible path that the 0.5 s pruning check did not decide is harmless (its obligations are trivially valid); a *group* of paths
        # (all paths whose last cut point is the same loop head / loop exit / function entry) that is entirely unsatisfiable means the hypotheses
        # introduced there (requires, invariant) are contradictory: that is a vacuous proof and a checker fault.
        import re as _re
        groups = {}
        for c in g["covers"]:
            sig = c["name"].split("::cover@", 1)[1]; marks = _re.findall(r"/(?:L|X)\d+", sig); key = marks[-1] if marks else "entry"
            groups.setdefault(key, []).append(cover_res.get(c["name"]))
        vac_groups = sorted(k for k, rs in groups.items() if rs and all(r == "unsat" for r in rs))
        for r in rows:
            if r["result"] == "unsat": report["by_backend"][r["backend"].split("(")[0]] = report["by_backend"].get(r["backend"].split("(")[0], 0) + 1
        report["functions"].append({k: v for k, v in g.items() if k not in ("jobs", "covers")} | {
            "obligations": len(rows), "discharged": ok, "failed": [r for r in rows if r["result"] != "unsat"], "names": [r["name"] for r in rows],
            "solver_s": round(sum(r["solver_s"] for r in rows), 2), "covers": len(g["covers"]), "vacuous_paths": vac, "vacuous_groups": vac_groups,
            "cvc5_agree": (sum(1 for r in rows if r.get("cvc5") == "unsat") if both else None),
            "slowest": sorted(((r["solver_s"], r["name"]) for r in rows), reverse=True)[:3]})
        report["obligations"] += len(rows); report["discharged"] += ok; report["solver_s"] += sum(r["solver_s"] for r in rows)
    report["solver_s"] = round(report["solver_s"], 2)
    return report
