"""PyVC counterexample search: for a function whose obligations are no longer discharged, look for a CONCRETE input on which the real code breaks its contract.

  1. shapes: small values for every array length / chunk layout / size parameter that satisfy the contract's preconditions (enumerated with z3 by total size);
  2. bounded execution: the SAME engine that generates the verification conditions runs the real source with those shapes, loops unrolled (no invariant is used),
     array contents and the other scalars symbolic; every obligation (postcondition, raises clause, assert, division by zero) whose negation is satisfiable
     gives a model = candidate input;
  3. replay: the candidate is run through the real compiled function (tools/native_run.py under the repository's interpreter); it is CONFIRMED when
       (a) what the function really did equals what the engine predicts for that input (same exception / same returned numbers), and
       (b) with the input fixed, the obligation is unsatisfiable under EVERY interpretation of the specification functions allowed by their defining equations.
     A confirmed candidate is the verifier's counterexample replayed on the real code. Anything else (no model within the bound, prediction and reality differ,
     uninterpreted exp/log involved) is reported as not found - never as a violation by itself.

The search is bounded (stated in the report) and is used only to attach a failing input to an obligation that already failed; it proves nothing."""
import os, sys, json, time, subprocess, tempfile, itertools, fractions, importlib
import z3
from . import engine as E
from .engine import Engine, State, Val, F, I, MIN_INT, Unsupported, Stale, INT_RANGES

ROOT = os.path.dirname(os.path.dirname(os.path.abspath(__file__)))
SIZE_NAMES = {"ngroups", "n_groups", "window", "n", "min_periods", "total_len"}
KINDS = ("post", "raises", "assert", "divzero")
NMAX, CHMAX, CLMAX = 4, 3, 3


def concretize(rec):
    """a generic record (uninterpreted step function, opaque value sort) is searched under the concrete reading its registration names (`cex=`): same source, same contract text"""
    cx = rec.get("cex")
    if not cx: return rec
    if set(cx) <= {"axioms"}: r2 = dict(rec); r2["axioms"] = list(cx["axioms"]); return r2
    base = rec["specs"]
    def specs():
        d = base() if callable(base) else dict(base or {}); d.update(cx["specs"]()); return d
    r2 = dict(rec); r2["inst"] = {**rec["inst"], **cx["inst"]}; r2["specs"] = specs; r2["extra_hyps"] = None
    native = dict(cx.get("native", {}))
    for k, v in list(native.items()):
        if v == "step": native[k] = cx["step"]
    r2["native_types"] = native; r2["axioms"] = list(cx.get("axioms", []))
    return r2


def runnable(rec):
    if "#" in rec["qualname"]: return False
    nt = rec.get("native_types", {})
    for name, t in rec["inst"].items():
        if isinstance(t, dict): return False            # object parameters (self, slice): no stand-alone native call
        if t.startswith(("step:", "bin:")) and name not in nt: return False
        if ":opaque:" in t or t == "opaque": return False
    return True


def mk_engine(rec, repo, bmc=False):
    specs = rec["specs"]() if callable(rec["specs"]) else dict(rec["specs"] or {})
    eng = Engine(os.path.join(repo, rec["file"]), rec["qualname"], rec["contract"], specs, callees=rec["callees"], prune=True); eng.inst_name = rec["inst_name"]; eng.bmc = bmc
    if rec["setup"]: rec["setup"](eng)
    return eng


LN2 = fractions.Fraction(6931471805599453, 10 ** 16)


def exp_constraints(obls, kmax=8):
    """functions that call np.exp / np.log (the time-decayed EMAs compute exp(-log(2) * dt / halflife)): in the encoding EXP and LOG are uninterpreted, so a model's numbers are
    not the real ones. For the bounded search every EXP application is confined to the points where the real function is dyadic: its argument must be -log(2) * n for an integer
    0 <= n <= kmax, and there EXP is 2^-n (LOG(2) pinned to its decimal expansion to 16 digits). Inputs are thereby restricted to elapsed times that are whole halflives -
    a restriction of the SEARCH only; the real function agrees with these values to ~1e-16, far inside the comparison tolerance of the native replay."""
    apps = {}; logs = {}
    stack = [t for ob in obls for t in list(ob.hyps) + [ob.goal]]; seen = set()
    while stack:
        x = stack.pop()
        if x.get_id() in seen: continue
        seen.add(x.get_id())
        if z3.is_quantifier(x): stack.append(x.body()); continue
        if z3.is_app(x):
            if x.decl().name() == "EXP" and x.num_args() == 1: apps[x.get_id()] = x
            if x.decl().name() == "LOG" and x.num_args() == 1: logs[x.get_id()] = x
            stack.extend(x.children())
    cons = []
    for lg in logs.values():
        a = z3.simplify(lg.arg(0))
        if z3.is_rational_value(a) and a.numerator_as_long() == 2 and a.denominator_as_long() == 1: cons.append(lg == z3.RealVal(f"{LN2.numerator}/{LN2.denominator}"))
    for i, t in enumerate(apps.values()):
        n = z3.Int(f"exp_n!{i}"); val = z3.RealVal(0)
        for k in reversed(range(kmax + 1)): val = z3.If(n == k, z3.RealVal(f"1/{2 ** k}"), val)
        cons += [n >= 0, n <= kmax, t.arg(0) == -z3.RealVal(f"{LN2.numerator}/{LN2.denominator}") * z3.ToReal(n), t == val]
    return cons, bool(apps)


def add_axioms(eng, st, rec):
    """defining equations of specification symbols that this function's own contract takes from a callee's contract (the callee proves its result against them; the caller's
    bounded execution needs them so that a model's interpretation of the symbols is the intended one)"""
    for ax in rec.get("axioms", []) or []: st.pc.append(eng.spec(st, ax))


def has_quant(t, memo=None):
    memo = {} if memo is None else memo
    stack = [t]; seen = set()
    while stack:
        x = stack.pop()
        if x.get_id() in seen: continue
        seen.add(x.get_id())
        if z3.is_quantifier(x): return True
        if z3.is_app(x): stack.extend(x.children())
    return False


def shapes(rec, repo, cap=400, per_size=40, budget=60.0):
    """yield concrete instantiations (dict like rec['inst'] with lengths / chunk layouts / size parameters fixed), smallest total size first"""
    eng = mk_engine(rec, repo); inst = rec["inst"]; eng.expand = (-1, NMAX + 3)
    st = eng.init_state(inst)
    svars = []       # (z3 term, (param, what))
    for name, t in inst.items():
        v = st.env[name]
        if v.kind == "arr" and v.ref is not None:
            for d, dim in enumerate(st.heap.shape[v.ref]):
                if not z3.is_int_value(dim): svars.append((dim, (name, "len", d), 0, NMAX))
        elif v.kind == "chunks":
            svars.append((v.z, (name, "nchunks", 0), 0, CHMAX))
            for c in range(CHMAX): svars.append((v.items[0](z3.IntVal(c)), (name, "clen", c), 0, CLMAX))
        elif v.kind == "int" and name in SIZE_NAMES and not z3.is_int_value(v.z): svars.append((v.z, (name, "val", 0), -3, 3))
    t0 = time.time(); out = 0; chunk_counts = [z for z, (nm, what, d), lo, hi in svars if what == "nchunks"]
    phases = [(False, True), (False, False), (True, False)] if chunk_counts else [(False, False), (True, False)]       # (drop quantified requires?, one chunk per list first?)
    seen_shapes = set()
    for drop_quant, single_chunk in phases:
        s = z3.Solver(); s.set(timeout=4000)
        if single_chunk:
            for z in chunk_counts: s.add(z <= 1)
        for h in st.pc:
            if drop_quant and has_quant(h): continue
            s.add(h)
        if rec.get("extra_hyps"):
            try: s.add(*rec["extra_hyps"](eng))          # facts the proofs assume about the shapes (e.g. the number of columns of the code matrix is M)
            except Exception: pass
        for z, key, lo, hi in svars: s.add(z >= lo, z <= hi)
        for name, t in inst.items():
            v = st.env[name]
            if v.kind == "chunks":
                for c in range(CHMAX): s.add(z3.Implies(z3.IntVal(c) >= v.z, v.items[0](z3.IntVal(c)) == 0))
        total = z3.Sum([z3.If(z < 0, -z, z) for z, *_ in svars]) if svars else z3.IntVal(0)
        got_any = False; unknown = False
        for S in range(0, 14):
            s.push(); s.add(total == S); k = 0
            while k < per_size and out < cap and time.time() - t0 < budget * (0.6 if single_chunk else 1.0):
                r = s.check()
                if r != z3.sat: unknown |= (r == z3.unknown); break
                m = s.model(); vals = [m.eval(z, model_completion=True).as_long() for z, *_ in svars]
                s.add(z3.Or([z != val for (z, *_), val in zip(svars, vals)]) if svars else z3.BoolVal(False))
                conc = dict(inst); lens = {}; chunks = {}
                for (z, (name, what, d), lo, hi), val in zip(svars, vals):
                    if what == "len": lens.setdefault(name, {})[d] = val
                    elif what == "nchunks": chunks.setdefault(name, {})["n"] = val
                    elif what == "clen": chunks.setdefault(name, {}).setdefault("l", {})[d] = val
                    else: conc[name] = f"const:{val}"
                for name, ds in lens.items():
                    v = st.env[name]; dims = []
                    for d, dim in enumerate(st.heap.shape[v.ref]): dims.append(str(ds[d]) if d in ds else str(dim.as_long()))
                    conc[name] = ":".join(inst[name].split(":")[:3] + dims)
                for name, cd in chunks.items():
                    conc[name] = ":".join(inst[name].split(":")[:3]) + ":" + ",".join(str(cd["l"][c]) for c in range(cd["n"]))
                key = json.dumps(conc, sort_keys=True)
                if key in seen_shapes: continue
                seen_shapes.add(key)
                k += 1; out += 1; got_any = True
                yield conc
                if not svars: break
            s.pop()
            if not svars or out >= cap or time.time() - t0 > budget: break
        if single_chunk: continue
        if got_any: break


def nice(eng, st, inst):
    """input atoms (z3 terms of the caller-supplied data) + constraints that keep a model's numbers exactly representable"""
    atoms = []; cons = []
    # the integer null (-2^63) is offered only where an integer is DATA (values, accumulators, the null marker itself): in keys, counts, weights, times and sizes it would only
    # produce 64-bit overflow, which the encoding (mathematical integers, assumption A-int64) does not model
    DATA = ("values", "arr", "arr_list", "null_value", "next_val", "x", "y", "target", "initial_value")
    def add(z, elem, dtype, where):
        atoms.append((z, elem, where))
        if elem == "int" and not (where[0] in DATA or where[0].startswith("cur_")):
            rng = INT_RANGES.get(dtype); cons.append(z3.And(z >= max(-3, rng[0] if rng else -3), z <= 9)); return
        if elem == "float": cons.append(z3.Or(F.is_NaN(z), z3.And(z3.IsInt(F.val(z) * 4), F.val(z) >= -8, F.val(z) <= 8)))
        elif elem == "int":
            lo, hi = -3, 9
            rng = INT_RANGES.get(dtype)
            if rng is None and dtype not in ("uint64",): cons.append(z3.Or(z == MIN_INT, z3.And(z >= lo, z <= hi)))
            else: cons.append(z3.And(z >= max(lo, rng[0] if rng else 0), z <= hi))
    for name, t in inst.items():
        v = st.env[name]
        if v.kind == "arr" and v.ref is not None:
            shp = [d.as_long() for d in st.heap.shape[v.ref]]; base = eng.entry_heap.arr[v.ref]
            if len(shp) == 1:
                for i in range(shp[0]): add(z3.Select(base, i), v.elem, v.dtype, (name, i))
            else:
                for i in range(shp[0]):
                    for j in range(shp[1]): add(z3.Select(base, i, j), v.elem, v.dtype, (name, i, j))
        elif v.kind == "chunks":
            n = v.z.as_long()
            for c in range(n):
                ln = z3.simplify(v.items[0](z3.IntVal(c))).as_long()
                for p_ in range(ln): add(z3.Select(v.term(z3.IntVal(c)), p_), v.elem, v.dtype, (name, c, p_))
        elif v.kind in ("int", "float", "bool") and not t.startswith("const:") and t in ("int", "float", "bool"):
            if v.kind == "bool": atoms.append((v.z, "bool", (name,)))
            else: add(v.z, v.kind, "int64" if v.kind == "int" else "float64", (name,))
    return atoms, cons


def zval(m, z, elem):
    x = m.eval(z, model_completion=True)
    if elem == "bool": return z3.is_true(x)
    if elem == "int": return x.as_long()
    if elem == "float":
        if x.decl().name() == "NaN": return "nan"
        q = x.arg(0); q = z3.simplify(q)
        if z3.is_rational_value(q): return float(fractions.Fraction(q.numerator_as_long(), q.denominator_as_long()))
        if z3.is_algebraic_value(q): return float(q.approx(20).as_fraction())
        raise ValueError(f"non-numeral real {q}")
    raise ValueError(elem)


def zconst(val, elem):
    if elem == "bool": return z3.BoolVal(bool(val))
    if elem == "int": return z3.IntVal(int(val))
    if val == "nan": return F.NaN
    fr = fractions.Fraction(val).limit_denominator(1 << 40)
    return F.Fin(z3.RealVal(f"{fr.numerator}/{fr.denominator}"))


def model_inputs(m, atoms, inst, st, native_types=None):
    vals = {}; native_types = native_types or {}
    for z, elem, where in atoms: vals[where] = zval(m, z, elem)
    args = []
    for name, t in inst.items():
        v = st.env[name]
        if t == "none" or t.startswith("const:"): args.append({"name": name, "type": t, "value": None}); continue
        if native_types.get(name, "").startswith(("func:", "str:")): args.append({"name": name, "type": native_types[name], "value": None}); continue
        if v.kind == "arr":
            shp = [d.as_long() for d in st.heap.shape[v.ref]]
            val = [vals[(name, i)] for i in range(shp[0])] if len(shp) == 1 else [[vals[(name, i, j)] for j in range(shp[1])] for i in range(shp[0])]
            args.append({"name": name, "type": ":".join(t.split(":")[:3]), "value": val})
        elif v.kind == "chunks":
            n = v.z.as_long(); val = []
            for c in range(n):
                ln = z3.simplify(v.items[0](z3.IntVal(c))).as_long(); val.append([vals[(name, c, p_)] for p_ in range(ln)])
            args.append({"name": name, "type": ("list:" if native_types.get(name) == "list" else "chunks:") + ":".join(t.split(":")[1:3]), "value": val})
        else: args.append({"name": name, "type": t, "value": vals[(name,)]})
    return args


def predicted(eng, ob, m):
    """what the engine says the code returns on the model's input (None when the path does not return normally)"""
    if ob.outcome != "return": return None
    st = ob.st
    def enc(v):
        if v.kind == "none": return None
        if v.kind in ("int", "float", "bool"): return zval(m, v.z, v.kind)
        if v.kind == "tuple": return {"tuple": [enc(x) for x in v.items]}
        if v.kind == "arr":
            saved = eng.in_spec; eng.in_spec = True
            try:
                if v.ndim == 2 and v.row is None:
                    n0, n1 = st.heap.shape[v.ref]; n0 = v.vlen if v.vlen is not None else n0
                    r0 = m.eval(n0, model_completion=True).as_long(); r1 = m.eval(n1, model_completion=True).as_long(); rows = []
                    for i in range(r0):
                        rows.append([zval(m, z3.Select(st.heap.arr[v.ref], i, (r1 - 1 - j) if v.rev else j), v.elem) for j in range(r1)])
                    return {"array": rows}
                n = m.eval(eng.arr_len(st, v), model_completion=True).as_long()
                return {"array": [zval(m, eng.arr_read(st, v, z3.IntVal(i), 0, check=False), v.elem) for i in range(n)]}
            finally: eng.in_spec = saved
        raise Unsupported(f"return kind {v.kind}")
    return enc(ob.rv)


def result_constraints(eng, ob, returns, tol=1e-9):
    """z3 constraints saying 'the value the engine computes on this path IS the value the real function returned' (None when the shapes cannot even match).
    Used to ask whether the real result is AMONG the results the encoding allows (uninitialised memory, callee contracts and uninterpreted symbols leave some outputs open)."""
    st = ob.st; cons = []
    def scalar(z, kind, x):
        if kind == "bool": cons.append(z == z3.BoolVal(bool(x))); return True
        if kind == "int":
            if isinstance(x, (str, float)) and not (isinstance(x, float) and float(x).is_integer()): return False
            cons.append(z == z3.IntVal(int(x))); return True
        if kind == "float":
            if x == "nan": cons.append(F.is_NaN(z)); return True
            if isinstance(x, str): return False          # +-inf is not modelled
            fr = fractions.Fraction(float(x)).limit_denominator(1 << 50); eps = fractions.Fraction(max(1.0, abs(float(x))) * tol).limit_denominator(1 << 60)
            cons.append(z3.And(F.is_Fin(z), F.val(z) >= z3.RealVal(f"{(fr - eps).numerator}/{(fr - eps).denominator}"), F.val(z) <= z3.RealVal(f"{(fr + eps).numerator}/{(fr + eps).denominator}"))); return True
        return False
    def walk(v, x):
        if v.kind == "none": return x is None
        if v.kind in ("int", "float", "bool"): return scalar(v.z, v.kind, x)
        if v.kind == "tuple": return isinstance(x, dict) and "tuple" in x and len(x["tuple"]) == len(v.items) and all(walk(a, b) for a, b in zip(v.items, x["tuple"]))
        if v.kind == "arr":
            if not (isinstance(x, dict) and "array" in x): return False
            saved = eng.in_spec; eng.in_spec = True
            try:
                if v.ndim == 2 and v.row is None:
                    n0, n1 = st.heap.shape[v.ref]; n0 = v.vlen if v.vlen is not None else n0; rows = x["array"]
                    cons.append(n0 == len(rows))
                    for i, row in enumerate(rows):
                        cons.append(n1 == len(row))
                        for j, y in enumerate(row):
                            if not scalar(z3.Select(st.heap.arr[v.ref], i, (n1 - 1 - j) if v.rev else j), v.elem, y): return False
                    return True
                cons.append(eng.arr_len(st, v) == len(x["array"]))
                return all(scalar(eng.arr_read(st, v, z3.IntVal(i), 0, check=False), v.elem, y) for i, y in enumerate(x["array"]))
            finally: eng.in_spec = saved
        return False
    return cons if walk(ob.rv, returns) else None


def same(a, b, tol=1e-9):
    if isinstance(a, dict) and isinstance(b, dict):
        ka = "tuple" if "tuple" in a else ("array" if "array" in a else "list"); kb = "tuple" if "tuple" in b else ("array" if "array" in b else "list")
        if ka != kb or len(a[ka]) != len(b[kb]): return False
        return all(same(x, y, tol) for x, y in zip(a[ka], b[kb]))
    if isinstance(a, list) and isinstance(b, list): return len(a) == len(b) and all(same(x, y, tol) for x, y in zip(a, b))
    if isinstance(a, str) or isinstance(b, str): return a == b
    if a is None or b is None: return a is b
    if isinstance(a, bool) or isinstance(b, bool): return bool(a) == bool(b)
    return abs(float(a) - float(b)) <= tol * max(1.0, abs(float(a)), abs(float(b)))


def native(repo, rec, args, timeout=300):
    job = {"repo": repo, "file": rec["file"], "qualname": rec["qualname"], "args": args}
    env = dict(os.environ); env["NUMBA_CACHE_DIR"] = os.path.join(ROOT, ".cache", "numba", "cex"); env["PYTHONPATH"] = repo; env["NUMBA_NUM_THREADS"] = "2"
    os.makedirs(os.path.join(ROOT, "work"), exist_ok=True)
    with tempfile.NamedTemporaryFile("w", suffix=".json", delete=False, dir=os.path.join(ROOT, "work")) as f: json.dump(job, f); fn = f.name
    try:
        p = subprocess.run(["/venv/bin/python", os.path.join(ROOT, "tools", "native_run.py"), fn], capture_output=True, text=True, timeout=timeout, env=env, cwd=repo)
        line = (p.stdout.strip().splitlines() or [""])[-1]
        return json.loads(line) if line.startswith("{") else {"error": (p.stderr or p.stdout)[-500:], "exit": p.returncode}
    except subprocess.TimeoutExpired: return {"error": "native run timed out"}
    finally:
        try: os.unlink(fn)
        except OSError: pass


def search(rec, repo, budget=120.0, want_kinds=KINDS, only_obligations=None, verbose=False):
    """-> report dict: {"function", "status": confirmed|candidate-not-confirmed|none, "tried_shapes", "bound", "counterexample": {...}}"""
    from . import registry
    fname = registry.fname_of(rec); t0 = time.time(); rec = concretize(rec)
    rep = {"function": fname, "status": "none", "tried_shapes": 0, "candidates": 0,
           "bound": f"array lengths <= {NMAX}, <= {CHMAX} chunks of <= {CLMAX} elements, size parameters in [-3, 3], data in quarter steps of [-8, 8] / integers of [-3, 9] / nulls; {budget:.0f} s"}
    if not runnable(rec): rep["status"] = "not-runnable"; rep["why"] = "generic instantiation (uninterpreted step function / opaque element sort): no concrete call exists for it"; return rep
    E.EXACT_DIV = True
    unconfirmed = None
    try:
        for conc in shapes(rec, repo, budget=budget):
            if time.time() - t0 > budget: break
            rep["tried_shapes"] += 1
            try:
                eng = mk_engine(rec, repo, bmc=True); st = eng.init_state(conc); add_axioms(eng, st, rec)
                atoms, cons = nice(eng, st, conc)
                obls = eng.verify_from(st)
            except (Unsupported, Stale) as ex:
                rep.setdefault("skipped_shapes", []).append(f"{type(ex).__name__}: {ex}"[:160]); continue
            if eng.pre_sat == "unsat": continue
            extra = rec["extra_hyps"](eng) if rec["extra_hyps"] else []
            expc, uses_exp = exp_constraints(obls)
            if uses_exp: extra = []; cons = cons + expc; rep["exp_points"] = "every exp() argument confined to -log(2)*n, n = 0..8 (elapsed times that are whole halflives)"
            for ob in obls:
                if ob.kind not in want_kinds: continue
                if only_obligations and not any(ob.name.split("@")[0].endswith(x) for x in only_obligations): continue
                s = z3.Solver(); s.set(timeout=8000); s.add(*ob.hyps); s.add(*extra); s.add(*cons); s.add(z3.Not(ob.goal))
                if s.check() != z3.sat: continue
                m = s.model(); rep["candidates"] += 1
                try: args = model_inputs(m, atoms, conc, st, rec.get("native_types", {}))
                except Exception as ex:
                    rep.setdefault("skipped_models", []).append(str(ex)[:120]); continue
                nat = native(repo, rec, args)
                if "error" in nat: rep.setdefault("native_errors", []).append(nat["error"][:200]); continue
                # (a) reality == prediction
                if ob.outcome == "return":
                    try: pred = predicted(eng, ob, m)
                    except Exception as ex: pred = {"unavailable": str(ex)[:100]}
                    agree = nat["raised"] is None and same(pred, nat["returns"])
                    pred_txt = pred
                else:
                    want_exc = {"raises": None, "assert": "AssertionError", "divzero": "ZeroDivisionError"}[ob.kind]
                    agree = nat["raised"] is not None and (want_exc is None or nat["raised"].startswith(want_exc)); pred_txt = f"raises {want_exc or 'an exception'}"
                # (b) with the input fixed the obligation fails under every admissible interpretation of the specification functions
                s2 = z3.Solver(); s2.set(timeout=8000); s2.add(*ob.hyps); s2.add(*extra); s2.add(*expc)
                for z, elem, where in atoms: s2.add(z == zconst(zval(m, z, elem), elem))
                s2.add(ob.goal); forced = s2.check() == z3.unsat
                cx = {"obligation": f"{os.path.basename(rec['file'])}::{ob.name}", "kind": ob.kind, "line": ob.line, "shape": {k: v for k, v in conc.items()}, "args": args,
                      "engine_predicts": pred_txt, "real_code": nat, "prediction_matches_real_code": bool(agree), "obligation_fails_for_every_spec_interpretation": bool(forced)}
                if agree and forced:
                    rep["status"] = "confirmed"; rep["counterexample"] = cx; rep["wall_s"] = round(time.time() - t0, 1); return rep
                if unconfirmed is None: unconfirmed = cx
                if verbose: print("   candidate not confirmed:", json.dumps(cx, default=str)[:400])
    finally:
        E.EXACT_DIV = False
    if unconfirmed is not None: rep["status"] = "candidate-not-confirmed"; rep["counterexample"] = unconfirmed
    rep["wall_s"] = round(time.time() - t0, 1)
    return rep


def xcheck(rec, repo, budget=40.0, max_paths=24):
    """translation validation of the ENCODING on the unchanged source: for every path of the bounded execution (small shapes) one solver-chosen input - on which every safety
    obligation of the function holds, i.e. inside defined behaviour - is run through the real compiled function, and what it returns / raises must be AMONG the results the
    engine's semantics allows for that input on that path (outputs the encoding leaves open - uninitialised memory, a callee known only by its contract - are not compared
    with a particular model).  A disagreement means PyVC's model of numba's semantics is wrong for some construct - a checker fault, never a finding about the repository."""
    from . import registry
    extra_fn = rec.get("extra_hyps"); rec = concretize(rec); fname = registry.fname_of(rec); t0 = time.time()
    rep = {"function": fname, "paths_executed": 0, "agree": 0, "disagree": [], "skipped": 0}
    if not runnable(rec): rep["status"] = "not-runnable"; return rep
    E.EXACT_DIV = True; seen_paths = set(); SAFETY = ("bounds", "negindex", "overflow", "pre", "shape", "alloc", "lossy", "exact", "assert", "divzero", "raises")
    try:
        for conc in shapes(rec, repo, budget=budget):
            if time.time() - t0 > budget or rep["paths_executed"] >= max_paths: break
            try:
                eng = mk_engine(rec, repo, bmc=True); st = eng.init_state(conc); add_axioms(eng, st, rec); atoms, cons = nice(eng, st, conc); obls = eng.verify_from(st)
            except (Unsupported, Stale): rep["skipped"] += 1; continue
            if eng.pre_sat == "unsat": continue
            extra = rec["extra_hyps"](eng) if rec.get("extra_hyps") else []
            expc, uses_exp = exp_constraints(obls)
            if uses_exp: extra = list(expc); rep["exp_points"] = "exp() arguments confined to -log(2)*n, n = 0..8"
            for ob in obls:
                if ob.outcome not in ("return", "raise") and ob.kind not in ("assert", "divzero"): continue
                path = (json.dumps(conc, sort_keys=True), ob.name.split("@", 1)[1].rsplit("#", 1)[0], ob.kind if ob.outcome is None else ob.outcome)
                if path in seen_paths: continue
                seen_paths.add(path)
                if rep["paths_executed"] >= max_paths or time.time() - t0 > budget: break
                # inside defined behaviour: wherever another obligation's path prefix is taken, that obligation holds (the one under test excepted when it is the failing assert / division)
                safe = [z3.Implies(z3.And(*o2.hyps), o2.goal) for o2 in obls if o2 is not ob and o2.kind in SAFETY and not (ob.outcome == "raise" and o2.kind == "raises")]
                s = z3.Solver(); s.set(timeout=5000); s.add(*ob.hyps); s.add(*extra); s.add(*cons); s.add(*safe)
                if ob.outcome is None: s.add(z3.Not(ob.goal))         # an assert / division that fails on this path: the real code must raise
                if s.check() != z3.sat: continue
                m = s.model()
                try: args = model_inputs(m, atoms, conc, st, rec.get("native_types", {}))
                except Exception: rep["skipped"] += 1; continue
                nat = native(repo, rec, args)
                if "error" in nat: rep["skipped"] += 1; continue
                rep["paths_executed"] += 1
                if ob.outcome == "return":
                    ok = False; pred = None
                    if nat["raised"] is None:
                        rc = result_constraints(eng, ob, nat["returns"])
                        if rc is not None:
                            s2 = z3.Solver(); s2.set(timeout=8000); s2.add(*ob.hyps); s2.add(*extra); s2.add(*safe)
                            for z, elem, where in atoms: s2.add(z == zconst(zval(m, z, elem), elem))
                            s2.add(*rc); ok = s2.check() == z3.sat
                    if not ok:
                        try: pred = predicted(eng, ob, m)
                        except Exception as ex: pred = f"(unavailable: {ex})"
                else: pred = "raises"; ok = nat["raised"] is not None
                if ok: rep["agree"] += 1
                else: rep["disagree"].append({"shape": conc, "args": args, "one_admissible_engine_result": pred, "real_code": nat, "path": path[1]})
    finally: E.EXACT_DIV = False
    rep["status"] = "ok" if not rep["disagree"] else "DISAGREE"; rep["wall_s"] = round(time.time() - t0, 1)
    return rep


def _xjob(args):
    idx, repo, mods, budget = args
    from . import registry
    for m in mods: importlib.import_module(m)
    try: return xcheck(registry.RECORDS[idx], repo, budget)
    except Exception as ex:
        import traceback
        return {"function": registry.fname_of(registry.RECORDS[idx]), "status": "error", "error": traceback.format_exc()[-1200:], "paths_executed": 0, "agree": 0, "disagree": []}


def recheck(rec, repo, cx):
    """replay of a recorded counterexample on the CURRENT source: the input is fixed, the engine executes the source on it (bounded mode, the recorded shape), the real compiled
    function is run on it, and the input still violates the contract iff some obligation of the path it takes is unsatisfiable with the input fixed (and reality == prediction)"""
    rec = concretize(rec); E.EXACT_DIV = True
    try:
        conc = cx["shape"]; eng = mk_engine(rec, repo, bmc=True); st = eng.init_state(conc); add_axioms(eng, st, rec); atoms, cons = nice(eng, st, conc); obls = eng.verify_from(st)
        given = {}
        for a in cx["args"]:
            v = a["value"]
            if v is None: continue
            if a["type"].startswith(("arr:",)):
                for i, x in enumerate(v): given[(a["name"], i)] = x
            elif a["type"].startswith("arr2:"):
                for i, row in enumerate(v):
                    for j, x in enumerate(row): given[(a["name"], i, j)] = x
            elif a["type"].startswith(("chunks:", "list:")):
                for c, ch in enumerate(v):
                    for p_, x in enumerate(ch): given[(a["name"], c, p_)] = x
            else: given[(a["name"],)] = v
        fixed = [z == zconst(given[where], elem) for z, elem, where in atoms if where in given]
        nat = native(repo, rec, cx["args"])
        if "error" in nat: return {"still_violates": False, "why": "native run failed: " + nat["error"][:200]}
        for ob in obls:
            if ob.kind not in KINDS: continue
            s1 = z3.Solver(); s1.set(timeout=8000); s1.add(*ob.hyps); s1.add(*fixed)
            if s1.check() != z3.sat: continue
            m = s1.model(); s1.add(ob.goal)
            if s1.check() != z3.unsat: continue
            if ob.outcome == "return":
                agree = nat["raised"] is None and same(predicted(eng, ob, m), nat["returns"])
            else: agree = nat["raised"] is not None
            return {"still_violates": bool(agree), "obligation": f"{os.path.basename(rec['file'])}::{ob.name}", "real_code": nat, "prediction_matches_real_code": bool(agree)}
        return {"still_violates": False, "real_code": nat, "why": "every obligation of the path this input takes holds on the current source"}
    finally: E.EXACT_DIV = False


def _job(args):
    idx, repo, mods, budget, only = args
    from . import registry
    for m in mods: importlib.import_module(m)
    try: return search(registry.RECORDS[idx], repo, budget, only_obligations=only)
    except Exception as ex:
        import traceback
        return {"function": registry.fname_of(registry.RECORDS[idx]), "status": "error", "error": traceback.format_exc()[-1200:]}


def main():
    import argparse, multiprocessing as mp
    from . import registry
    ap = argparse.ArgumentParser(); ap.add_argument("--repo", default="/repo"); ap.add_argument("--functions", nargs="*", help="substrings of function[instantiation]")
    ap.add_argument("--budget", type=float, default=120.0); ap.add_argument("--json"); ap.add_argument("--procs", type=int, default=8); ap.add_argument("--stems", nargs="*")
    ap.add_argument("--recheck", help="replay file holding a verifier_counterexample: exit 1 while the input still violates the contract on the current source")
    ap.add_argument("--props", nargs="*", help="only the records serving these properties")
    ap.add_argument("--xcheck", action="store_true", help="translation validation of the encoding: one natively executed input per path of the bounded execution")
    a = ap.parse_args(); mods = ["contracts.kernels"]
    for m in mods: importlib.import_module(m)
    if a.xcheck:
        idxs = registry.select(only=a.functions, props=a.props, tier="thorough")
        with mp.get_context("spawn").Pool(min(a.procs, max(1, len(idxs)))) as pool: reps = pool.map(_xjob, [(i, a.repo, mods, a.budget) for i in idxs], chunksize=1)
        for r in reps:
            print(f"{r['function']:100s} {r.get('status'):14s} paths={r['paths_executed']} agree={r['agree']} disagree={len(r['disagree'])} skipped={r.get('skipped')} {r.get('wall_s', '')}s")
            for d in r["disagree"][:2]: print("      ", json.dumps(d, default=str)[:700])
            if r.get("status") == "error": print(r["error"])
        print(f"XCHECK: {sum(r['agree'] for r in reps)} paths agree, {sum(len(r['disagree']) for r in reps)} disagree, over {sum(1 for r in reps if r['paths_executed'])} function instantiations")
        if a.json: json.dump(reps, open(a.json, "w"), indent=1, default=str)
        sys.exit(3 if any(r["disagree"] for r in reps) else 0)
    if a.recheck:
        f = json.load(open(a.recheck)); cx = f["verifier_counterexample"]
        rec = next(r for r in registry.RECORDS if registry.fname_of(r) == f["function"])
        res = recheck(rec, a.repo, cx); print(json.dumps(res, default=str)[:1500]); sys.exit(1 if res.get("still_violates") else 0)
    idxs = registry.select(only=a.functions, tier="thorough")
    with mp.get_context("spawn").Pool(min(a.procs, max(1, len(idxs)))) as pool: reps = pool.map(_job, [(i, a.repo, mods, a.budget, a.stems) for i in idxs], chunksize=1)
    for r in reps:
        print(f"{r['function']:100s} {r['status']:24s} shapes={r.get('tried_shapes')} candidates={r.get('candidates')} {r.get('wall_s', '')}s")
        if r["status"] == "confirmed": print("     ", json.dumps({k: r['counterexample'][k] for k in ('obligation', 'args', 'engine_predicts', 'real_code')}, default=str)[:600])
        if r["status"] == "error": print(r["error"])
    if a.json: json.dump(reps, open(a.json, "w"), indent=1, default=str)


if __name__ == "__main__":
    sys.path.insert(0, ROOT)
    main()
