"""PyVC engine: AST -> z3 VC generator for numba kernels, numba nopython semantics.

Covers: scalars (int/float(F)/bool/opaque), 1-D/2-D heap arrays, read-only views (slices, chunks of a list of arrays),
for over range/array/enumerate/zip/list-of-arrays, while, continue/break/return/raise/assert, first-class step
functions, calls to contracted callees, ghost state with anchored ghost updates, proved intermediate lemmas,
loop invariants with unfold hints, infeasible-path pruning.
"""
import ast, hashlib, itertools, time, re, os
from dataclasses import dataclass, field
import z3

F = z3.Datatype("F"); F.declare("NaN"); F.declare("Fin", ("val", z3.RealSort())); F = F.create()
V = z3.DeclareSort("V")
I = z3.IntSort(); B = z3.BoolSort(); R = z3.RealSort()
MIN_INT = -(2 ** 63)
INT_RANGES = {"int8": (-2**7, 2**7-1), "int16": (-2**15, 2**15-1), "int32": (-2**31, 2**31-1),
              "uint32": (0, 2**32-1), "int64": None, "uint64": None, "intp": None}


RDIV = z3.Function("RDIV", R, R, R)
EXACT_DIV = False      # counterexample search (pyvc/cex.py): a real quotient, so that a model's numbers are the numbers the code computes
def rdiv(a, b):
    """real division: by a numeral it is linear arithmetic; by a symbolic divisor it is the uninterpreted RDIV(a, b) in code AND in specifications, so that
    'the code computes the quotient the contract names' is decided by congruence instead of non-linear arithmetic. Facts about quotients that a proof needs
    (b != 0 => RDIV(a, b) * b == a) are stated where they are needed (contracts / lemmas), not assumed globally."""
    sb = z3.simplify(b)
    if EXACT_DIV: return a / b
    return a / b if z3.is_rational_value(sb) or z3.is_int_value(sb) else RDIV(a, b)


def f_isnan(a): return F.is_NaN(a)
def f_bin(op, a, b): return z3.If(z3.Or(f_isnan(a), f_isnan(b)), F.NaN, F.Fin(op(F.val(a), F.val(b))))
def f_cmp(op, a, b): return z3.And(F.is_Fin(a), F.is_Fin(b), op(F.val(a), F.val(b)))
def sort_of(kind): return {"int": I, "float": F, "bool": B, "opaque": V}[kind]


PRUNE_RLIMIT = int(os.environ.get("PYVC_PRUNE_RLIMIT", "100000"))
class Unsupported(Exception): pass
class ElemTypeMismatch(Unsupported): pass        # an array the contract types by the input's element type was allocated with another element type: the analysis stops, the failed obligation is kept
class Stale(Exception): pass


@dataclass
class Val:
    kind: str               # int|float|bool|opaque|none|str|arr|chunks|func|tuple|range|iter
    z: object = None
    items: tuple = None
    name: str = None
    # arrays / views
    ref: int = None         # heap ref (None for immutable term-backed arrays)
    term: object = None     # z3 array term for immutable arrays
    elem: str = None
    dtype: str = None
    ndim: int = 1
    off: object = None      # view offset (1-D views)
    vlen: object = None     # view length
    row: object = None      # row index when this is a row-view of a 2-D array
    rev: bool = False
    cidx: object = None     # chunk index term when this is chunk `cidx` of a list of arrays
    fn: object = None       # kind "comp" (the result of boolean-mask indexing a[m]): the elements are fn(r) for the rows r with mask(r), in row order
    mask: object = None     # kind "comp": (mask array Val, mask reader r -> Bool term)


@dataclass
class Obligation:
    name: str; kind: str; hyps: list; goal: object; line: int = 0
    st: object = None; rv: object = None; outcome: str = None      # bounded counterexample search only: the state the obligation was emitted in, the value returned on that path


class Heap:
    def __init__(self):
        self.arr, self.shape, self.meta = {}, {}, {}
        self.counter = itertools.count()
    def copy(self):
        h = Heap(); h.arr = dict(self.arr); h.shape = dict(self.shape); h.meta = dict(self.meta); h.counter = self.counter
        return h
    def new(self, elem, dtype, shape, init=None, label="a", ghost=False):
        ref = next(self.counter)
        srt = z3.ArraySort(I, sort_of(elem)) if len(shape) == 1 else z3.ArraySort(I, I, sort_of(elem))
        self.arr[ref] = init if init is not None else z3.Const(f"{label}!h{ref}", srt)
        self.shape[ref] = tuple(shape); self.meta[ref] = (elem, dtype, ghost, label)
        return ref


@dataclass
class State:
    env: dict; heap: Heap; pc: list; path: str = ""
    def fork(self): return State(dict(self.env), self.heap.copy(), list(self.pc), self.path)


class Engine:
    def __init__(self, src_path, qualname, contract, specs=None, callees=None, prune=True):
        self.src = open(src_path).read(); self.tree = ast.parse(self.src)
        self.qualname = qualname
        if "::loop(" in qualname:
            # a LOOP of a function that is otherwise outside the subset, extracted mechanically on every run: the `for` statement whose header is the quoted text, inside the named
            # function, becomes the whole body of a synthetic function whose parameters are the loop's free variables named by the contract ("fragment_params"). Dropped: everything
            # of the enclosing function before and after the loop; what the loop assumes about its free variables is stated as `requires` (assumptions about the surrounding glue).
            fq, hdr = qualname.split("::loop(", 1); hdr = hdr.rsplit(")", 1)[0]; outer = self._find(fq)
            tgt_txt = lambda t: ", ".join(ast.unparse(x) for x in t.elts) if isinstance(t, ast.Tuple) else ast.unparse(t)
            loops_ = [n for n in ast.walk(outer) if isinstance(n, ast.For) and f"for {tgt_txt(n.target)} in {ast.unparse(n.iter)}" == hdr]
            if len(loops_) != 1: raise Stale(f"{qualname}: {len(loops_)} loops with this header")
            params = contract.get("fragment_params") or []
            self.fn = ast.FunctionDef(name=outer.name + "__loop", args=ast.arguments(posonlyargs=[], args=[ast.arg(arg=p_) for p_ in params], kwonlyargs=[], kw_defaults=[], defaults=[]),
                                      body=[loops_[0]], decorator_list=[], lineno=loops_[0].lineno, col_offset=loops_[0].col_offset, end_lineno=loops_[0].end_lineno, end_col_offset=loops_[0].end_col_offset)
        else: self.fn = self._find(qualname)
        self.contract = contract; self.specs = dict(specs or {}); self.callees = callees or {}
        self.obls = []; self.fresh = itertools.count(); self.prune = prune
        loops = [n for n in ast.walk(self.fn) if isinstance(n, (ast.For, ast.While))]
        loops.sort(key=lambda n: (n.lineno, n.col_offset))
        self.loop_ord = {id(n): i for i, n in enumerate(loops)}
        self.sha = hashlib.sha256((ast.get_source_segment(self.src, self.fn) or ast.unparse(self.fn)).encode()).hexdigest()[:16]
        self.in_spec = False; self.frozen = {}; self.ghost_names = set(); self.bmc = False; self.finals = []; self.scope_of = {}
        self.inst_name = ""; self.name_count = {}; self.defs = []
        # occurrence numbers of assignments, by target (a local name, or the base array of a subscript store), in source order: anchors of ghost code
        self.stmt_occ = {}; cnt = {}
        asg = [n for n in ast.walk(self.fn) if isinstance(n, (ast.Assign, ast.AugAssign))]; asg.sort(key=lambda n: (n.lineno, n.col_offset))
        for n in asg:
            tg = (n.targets if isinstance(n, ast.Assign) else [n.target])
            for t in tg:
                for x in ([t] if not isinstance(t, ast.Tuple) else t.elts):
                    b = x
                    while isinstance(b, ast.Subscript): b = b.value
                    if isinstance(b, ast.Name):
                        key = ("store" if isinstance(x, ast.Subscript) else "assign", b.id); k = cnt.get(key, 0); cnt[key] = k + 1
                        self.stmt_occ.setdefault(id(n), {})[key] = k
        self.cur_stmt = None
        self.stats = {"paths_pruned": 0, "solver_prune_s": 0.0}

    def _find(self, qualname):
        scope, node = self.tree.body, None
        for p in qualname.split("."):
            if "#" in p:        # f#1: the second function named f anywhere inside the enclosing definition (defs nested in if/elif branches)
                nm, k = p.split("#"); cands = [n for n in ast.walk(node) if isinstance(n, ast.FunctionDef) and n.name == nm and n is not node]
                cands.sort(key=lambda n: (n.lineno, n.col_offset))
                node = cands[int(k)] if int(k) < len(cands) else None
            else:
                node = next((n for n in scope if isinstance(n, (ast.FunctionDef, ast.ClassDef)) and n.name == p), None)
            if node is None: raise Stale(f"{qualname}: not found")
            scope = node.body
        return node

    # ------------------------------------------------------------------ utilities
    def fc(self, base, sort): return z3.Const(f"{base}!{next(self.fresh)}", sort)

    def emit(self, st, kind, goal, line, tag=""):
        if self.bmc and kind not in ("post", "raises", "assert", "divzero", "bounds", "overflow", "race", "negindex", "lossy", "exact", "alloc_elem", "frame", "pre", "shape"): return
        hyps = list(st.pc)
        if kind == "inv_pres":
            m0 = re.match(r"\[loop(\d+)\.(\d+)\]", tag)
            if m0:
                lo_, ix_ = int(m0.group(1)), int(m0.group(2))
                hyps = [h for h in hyps if h.get_id() not in self.scope_of or ix_ in self.scope_of[h.get_id()] or (lo_, ix_) in self.scope_of[h.get_id()]]
                for term, idxs, o_ in getattr(self, "scoped", []):
                    if int(m0.group(1)) == o_ and int(m0.group(2)) in idxs: hyps.append(term)
        hyps = hyps + self.relevant_defs(hyps, goal)
        what = tag.strip("[]").replace(" ", "_")
        base = f"{self.qualname}[{self.inst_name}]::{kind}.{what}@{st.path or '-'}"
        k = self.name_count.get(base, 0); self.name_count[base] = k + 1
        ob = Obligation(f"{base}#{k}", kind, hyps, goal, line, st=(st.fork() if self.bmc else None))
        self.obls.append(ob); return ob

    # ---- cone of influence over the global definitions (conservative facts about fresh constants; dropping unreferenced ones is sound and keeps
    #      e.g. a non-linear quotient that only flows into `out` away from the obligations that do not mention `out`)
    def consts_of(self, t):
        memo = self.__dict__.setdefault("_consts_memo", {})
        tid = t.get_id()
        if tid in memo: return memo[tid]
        out = set(); stack = [t]; seen = set()
        while stack:
            x = stack.pop(); xid = x.get_id()
            if xid in seen: continue
            seen.add(xid)
            if xid in memo and xid != tid: out |= memo[xid]; continue
            if z3.is_quantifier(x): stack.append(x.body()); continue
            if z3.is_app(x):
                if x.num_args() == 0:
                    if x.decl().kind() == z3.Z3_OP_UNINTERPRETED: out.add(x.decl().name())
                else: stack.extend(x.children())
        memo[tid] = out; return out

    def relevant_defs(self, hyps, goal):
        R = set(self.consts_of(goal))
        for h in hyps: R |= self.consts_of(h)
        info = self.__dict__.setdefault("_def_info", {})
        pending = []
        for d in self.defs:
            did = d.get_id()
            if did not in info:
                lhs = None
                if z3.is_eq(d) and d.arg(0).num_args() == 0 and z3.is_app(d.arg(0)) and d.arg(0).decl().kind() == z3.Z3_OP_UNINTERPRETED and "!" in d.arg(0).decl().name():
                    lhs = d.arg(0).decl().name()
                info[did] = (lhs, self.consts_of(d))
            pending.append(d)
        chosen = []; changed = True
        while changed:
            changed = False; rest = []
            for d in pending:
                lhs, cs = info[d.get_id()]
                if (lhs is not None and lhs in R) or (lhs is None and (cs & R)):
                    chosen.append(d); R |= cs; changed = True
                else: rest.append(d)
            pending = rest
        order = {d.get_id(): i for i, d in enumerate(self.defs)}
        chosen.sort(key=lambda d: order[d.get_id()])
        return chosen

    def feasible(self, st):
        if not self.prune: return True
        # a resource limit instead of a wall-clock limit: which paths are pruned (hence the set and the names of the obligations) must not depend on the machine's load
        t = time.time(); s = z3.Solver(); s.set("rlimit", PRUNE_RLIMIT); s.set(timeout=20000); s.add(*st.pc); s.add(*self.defs); r = s.check()
        self.stats["prune_max_s"] = max(self.stats.get("prune_max_s", 0), time.time() - t)
        self.stats["solver_prune_s"] += time.time() - t
        if r == z3.unsat: self.stats["paths_pruned"] += 1; return False
        return True

    def truthy(self, v):
        if v.kind == "bool": return v.z
        if v.kind == "int": return v.z != 0
        if v.kind == "none": return z3.BoolVal(False)
        raise Unsupported(f"truthiness of {v.kind}")

    def to_float(self, v):
        if v.kind == "float": return v.z
        if v.kind == "int": return F.Fin(z3.ToReal(v.z))
        if v.kind == "bool": return F.Fin(z3.If(v.z, z3.RealVal(1), z3.RealVal(0)))
        raise Unsupported(f"to_float {v.kind}")

    def wrap(self, z):
        s = z.sort()
        if s == I: return Val("int", z)
        if s == B: return Val("bool", z)
        if s == F: return Val("float", z)
        if s == V: return Val("opaque", z)
        if s == R: return Val("real", z)
        raise Unsupported(f"wrap {s}")

    def coerce(self, v, kind):
        if v.kind == kind: return v.z
        if kind == "float": return self.to_float(v)
        raise Unsupported(f"coerce {v.kind}->{kind}")

    # ------------------------------------------------------------------ arrays
    def arr_len(self, st, a, axis=0):
        if a.vlen is not None and not (a.ndim == 2 and axis == 1): return a.vlen
        if a.ref is not None: return st.heap.shape[a.ref][axis if a.row is None else 1]
        raise Unsupported("len of term array without vlen")

    def arr_read(self, st, a, idx, line, check=True):
        """1-D read with numba wrap-around + bounds obligation"""
        n = self.arr_len(st, a)
        pr = getattr(self, "prange", None)
        if pr is not None and check and not self.in_spec and a.ref is not None and a.ref in pr["written_refs"]:
            self.emit(st, "race", idx == st.env[pr["var"]].z, line, f"[read {st.heap.meta[a.ref][3]}]")     # an array written in the parallel loop is read only at the own slot
        if check and not self.in_spec:
            self.emit(st, "bounds", z3.And(idx >= -n, idx < n), line)
            if a.ref is not None and st.heap.meta[a.ref][3] in self.contract.get("nonneg_index", ()): self.emit(st, "negindex", idx >= 0, line, f"[{st.heap.meta[a.ref][3]}]")
        ix = idx if (self.in_spec or not check) else self.named_index(st, idx, n)
        if a.rev: ix = n - 1 - ix
        if a.off is not None: ix = ix + a.off
        base = st.heap.arr[a.ref] if a.ref is not None else a.term
        val = z3.Select(base, a.row, ix) if a.row is not None else z3.Select(base, ix)
        # type invariant of machine integers: every element of an integer array lies in its dtype's range
        if a.elem == "int" and not self.in_spec and a.dtype != "ghost":
            lo, hi = INT_RANGES.get(a.dtype) or (-2**63, 2**63 - 1)
            if a.dtype == "uint64": lo, hi = 0, 2**64 - 1
            self.defs.append(z3.And(val >= lo, val <= hi))
        return val

    def norm_index(self, st, n, idx, line, label=None):
        if not self.in_spec: self.emit(st, "bounds", z3.And(idx >= -n, idx < n), line)
        if not self.in_spec and label in self.contract.get("nonneg_index", ()): self.emit(st, "negindex", idx >= 0, line, f"[{label}]")
        if self.in_spec: return idx
        return self.named_index(st, idx, n)

    def named_index(self, st, idx, n):
        """numba wrap-around, bound to a fresh constant so that array terms stay free of `ite` (usable in triggers)"""
        if self.bmc: return z3.If(idx < 0, idx + n, idx)
        ix = self.fc("ix", I); self.defs.append(ix == z3.If(idx < 0, idx + n, idx)); return ix

    # ------------------------------------------------------------------ expressions
    def ev(self, st, e):
        m = getattr(self, "ev_" + type(e).__name__, None)
        if m is None: raise Unsupported(f"expr {type(e).__name__} @L{getattr(e, 'lineno', 0)}")
        return m(st, e)

    def ev_Constant(self, st, e):
        c = e.value
        if c is None: return Val("none")
        if isinstance(c, bool): return Val("bool", z3.BoolVal(c))
        if isinstance(c, int): return Val("int", z3.IntVal(c))
        if isinstance(c, float): return Val("float", F.Fin(z3.RealVal(c)))
        if isinstance(c, str): return Val("str", name=c)
        raise Unsupported(f"constant {c!r}")

    def ev_Name(self, st, e):
        if e.id in st.env: return st.env[e.id]
        if e.id == "MIN_INT": return Val("int", z3.IntVal(MIN_INT))
        if e.id in ("True", "False"): return Val("bool", z3.BoolVal(e.id == "True"))
        if e.id in ("ScalarFuncs", "NumbaReductionOps"): return Val("str", name=e.id)
        raise Stale(f"unknown name {e.id!r} @L{getattr(e, 'lineno', 0)}")

    def ev_Attribute(self, st, e):
        s = ast.unparse(e)
        if s in ("np.nan",): return Val("float", F.NaN)
        if s == "np.inf": return Val("float", self.specs.setdefault("__inf__", z3.Const("INF", F)))
        if s.startswith(("np.", "nb.")) and (s[3:] in INT_RANGES or s[3:] in ("float64", "float32", "bool_")): return Val("str", name=s[3:])
        if isinstance(e.value, ast.Name) and e.value.id in st.env and st.env[e.value.id].kind == "struct":
            sv = st.env[e.value.id]
            if e.attr in sv.items: return sv.items[e.attr]
            raise Stale(f"attribute {s} is not part of the instantiation of {e.value.id!r}")
        if isinstance(e.value, ast.Attribute) and isinstance(e.value.value, ast.Name) and e.value.value.id in st.env and st.env[e.value.value.id].kind == "struct":
            inner = self.ev_Attribute(st, e.value)
            if inner.kind == "struct" and e.attr in inner.items: return inner.items[e.attr]
            raise Stale(f"attribute {s} is not part of the instantiation")
        if e.attr == "dtype":
            saved = self.in_spec; self.in_spec = True       # reading .dtype touches no element
            try: a = self.ev(st, e.value)
            finally: self.in_spec = saved
            if a.kind == "arr": return Val("str", name=a.dtype)
        raise Unsupported(f"attribute {s}")

    def ev_UnaryOp(self, st, e):
        v = self.ev(st, e.operand)
        if isinstance(e.op, ast.Not): return Val("bool", z3.Not(self.truthy(v)))
        if isinstance(e.op, ast.USub):
            if v.kind == "int": return Val("int", -v.z)
            if v.kind == "float": return Val("float", z3.If(f_isnan(v.z), F.NaN, F.Fin(-F.val(v.z))))
        raise Unsupported("unary")

    def ev_BoolOp(self, st, e):
        is_and = isinstance(e.op, ast.And); cur = st if self.in_spec else st.fork(); vs = []
        for x in e.values:
            v = z3.simplify(self.truthy(self.ev(cur, x)))
            if (is_and and z3.is_false(v)) or (not is_and and z3.is_true(v)): return Val("bool", z3.BoolVal(not is_and))
            vs.append(v)
            if not self.in_spec: cur = cur.fork(); cur.pc.append(v if is_and else z3.Not(v))
        return Val("bool", z3.And(*vs) if is_and else z3.Or(*vs))

    def ev_IfExp(self, st, e):
        c = z3.simplify(self.truthy(self.ev(st, e.test)))
        if z3.is_true(c): return self.ev(st, e.body)
        if z3.is_false(c): return self.ev(st, e.orelse)
        a = self.ev(st, e.body); b = self.ev(st, e.orelse)
        if a.kind != b.kind:
            if {a.kind, b.kind} <= {"int", "float"}: return Val("float", z3.If(c, self.to_float(a), self.to_float(b)))
            raise Unsupported("ifexp kinds")
        return Val(a.kind, z3.If(c, a.z, b.z))

    def arith(self, st, op, a, b, line, right_node=None):
        if a.kind == "arr" and b.kind == "arr" and op is ast.Add and a.elem == b.elem == "int" and a.ndim == b.ndim == 1:
            na, nb_ = self.arr_len(st, a), self.arr_len(st, b)
            if not self.in_spec: self.emit(st, "shape", na == nb_, line, "[elementwise +]")
            t = self.fc("sumarr", z3.ArraySort(I, I)); j = z3.Int(f"j?{next(self.fresh)}")
            if self.bmc and self.conc(na) is not None:
                for i_ in range(self.conc(na)): st.pc.append(z3.Select(t, i_) == self.arr_read(st, a, z3.IntVal(i_), line, check=False) + self.arr_read(st, b, z3.IntVal(i_), line, check=False))
            else: st.pc.append(z3.ForAll([j], z3.Implies(z3.And(j >= 0, j < na), z3.Select(t, j) == self.arr_read(st, a, j, line, check=False) + self.arr_read(st, b, j, line, check=False)), patterns=[z3.Select(t, j)]))
            ref = st.heap.new("int", "int64", (na,), t, "sumarr")
            return Val("arr", ref=ref, elem="int", dtype="int64")
        if a.kind == "bool": a = Val("int", z3.If(a.z, 1, 0))
        if b.kind == "bool": b = Val("int", z3.If(b.z, 1, 0))
        sq = op is ast.Pow and isinstance(right_node, ast.Constant) and right_node.value == 2
        if "real" in (a.kind, b.kind) and a.kind in ("int", "real") and b.kind in ("int", "real"):
            ra = a.z if a.kind == "real" else z3.ToReal(a.z); rb = b.z if b.kind == "real" else z3.ToReal(b.z)
            if op is ast.Add: return Val("real", ra + rb)
            if op is ast.Sub: return Val("real", ra - rb)
            if op is ast.Mult: return Val("real", ra * rb)
            if op is ast.Div: return Val("real", rdiv(ra, rb))
        if a.kind == "int" and b.kind == "int":
            if op is ast.Add: return Val("int", a.z + b.z)
            if op is ast.Sub: return Val("int", a.z - b.z)
            if op is ast.Mult: return Val("int", a.z * b.z)
            if op in (ast.Mod, ast.FloorDiv):
                if not self.in_spec: self.emit(st, "divzero", b.z != 0, line)
                if op is ast.Mod: return Val("int", z3.If(b.z > 0, a.z % b.z, -((-a.z) % (-b.z))))
                return Val("int", z3.If(b.z > 0, a.z / b.z, (-a.z) / (-b.z)))
            if sq: return Val("int", a.z * a.z)
        if a.kind in ("int", "float") and b.kind in ("int", "float"):
            fa, fb = self.to_float(a), self.to_float(b)
            if op is ast.Add: return Val("float", f_bin(lambda x, y: x + y, fa, fb))
            if op is ast.Sub: return Val("float", f_bin(lambda x, y: x - y, fa, fb))
            if op is ast.Mult: return Val("float", f_bin(lambda x, y: x * y, fa, fb))
            if op is ast.Div:
                # numba's default error model is Python's: a float division by zero raises ZeroDivisionError (it does not return inf/nan)
                if not self.in_spec: self.emit(st, "divzero", z3.Or(f_isnan(fb), F.val(fb) != 0), line)
                return Val("float", self.fdiv(fa, fb))
            if sq: return Val("float", f_bin(lambda x, y: x * y, fa, fa))
        if a.kind == "opaque" and b.kind == "opaque":
            key = {ast.Add: "__vadd__", ast.Sub: "__vsub__"}.get(op)
            if key and key in self.specs: return Val("opaque", self.specs[key](a.z, b.z))
        raise Unsupported(f"binop {op.__name__} on {a.kind},{b.kind} @L{line}")

    def ev_BinOp(self, st, e):
        return self.arith(st, type(e.op), self.ev(st, e.left), self.ev(st, e.right), e.lineno, e.right)

    def conc(self, z):
        z = z3.simplify(z)
        return z.as_long() if z3.is_int_value(z) else None

    def fdiv(self, fa, fb):
        inf = self.fc("infq", F)
        return z3.If(z3.Or(f_isnan(fa), f_isnan(fb)), F.NaN,
                     z3.If(F.val(fb) == 0, z3.If(F.val(fa) == 0, F.NaN, inf), F.Fin(rdiv(F.val(fa), F.val(fb)))))

    def ev_Compare(self, st, e):
        left = self.ev(st, e.left); out = []
        if left.kind == "arr" and left.ndim == 1 and left.elem == "int" and len(e.ops) == 1:
            right = self.ev(st, e.comparators[0])
            if right.kind == "int":
                # NumPy element-wise comparison of an integer array with a scalar: a new boolean array of the same length
                n = self.arr_len(st, left); t = self.fc("cmp", z3.ArraySort(I, B)); r_ = z3.Int(f"r?{next(self.fresh)}")
                body = lambda r: self.cmp(type(e.ops[0]), Val("int", self.arr_read(st, left, r, e.lineno, check=False)), right, e.lineno)
                st.pc.append(z3.ForAll([r_], z3.Implies(z3.And(r_ >= 0, r_ < n), z3.Select(t, r_) == body(r_)), patterns=[z3.Select(t, r_)]))
                ref = st.heap.new("bool", "bool", (n,), t, "cmp"); return Val("arr", ref=ref, elem="bool", dtype="bool")
        for op, r in zip(e.ops, e.comparators):
            right = self.ev(st, r); out.append(self.cmp(type(op), left, right, e.lineno)); left = right
        return Val("bool", z3.And(*out) if len(out) > 1 else out[0])

    def cmp(self, op, a, b, line):
        if op in (ast.Is, ast.IsNot):
            if b.kind != "none": raise Unsupported("`is` on non-None")
            r = a.kind == "none"; return z3.BoolVal(r if op is ast.Is else not r)
        f = {ast.Lt: lambda x, y: x < y, ast.LtE: lambda x, y: x <= y, ast.Gt: lambda x, y: x > y,
             ast.GtE: lambda x, y: x >= y, ast.Eq: lambda x, y: x == y, ast.NotEq: lambda x, y: x != y}[op]
        if a.kind == "int" and b.kind == "int": return f(a.z, b.z)
        if "real" in (a.kind, b.kind) and a.kind in ("int", "real") and b.kind in ("int", "real"):
            return f(a.z if a.kind == "real" else z3.ToReal(a.z), b.z if b.kind == "real" else z3.ToReal(b.z))
        if a.kind == "bool" and b.kind == "bool" and op in (ast.Eq, ast.NotEq): return f(a.z, b.z)
        if a.kind in ("int", "float", "bool") and b.kind in ("int", "float", "bool"):
            fa, fb = self.to_float(a), self.to_float(b)
            if self.in_spec and op in (ast.Eq, ast.NotEq):      # spec equality is structural
                return f(fa, fb)
            if op is ast.NotEq: return z3.Not(f_cmp(lambda x, y: x == y, fa, fb))
            return f_cmp(f, fa, fb)
        if a.kind == "opaque" and b.kind == "opaque":
            if op is ast.Eq: return a.z == b.z
            if op is ast.NotEq: return a.z != b.z
            lt, le = self.specs["__vlt__"], self.specs["__vle__"]
            return {ast.Lt: lt(a.z, b.z), ast.Gt: lt(b.z, a.z), ast.LtE: le(a.z, b.z), ast.GtE: le(b.z, a.z)}[op]
        raise Unsupported(f"compare {op.__name__} {a.kind},{b.kind} @L{line}")

    def ev_Tuple(self, st, e): return Val("tuple", items=tuple(self.ev(st, x) for x in e.elts))

    def slice_view(self, st, a, sl, line):
        n = self.arr_len(st, a)
        def bound(x, default):
            if x is None: return default
            v = self.ev(st, x).z
            return z3.If(v < 0, z3.If(v + n < 0, 0, v + n), z3.If(v > n, n, v))
        if sl.step is not None:
            stp = self.ev(st, sl.step)
            if not (z3.is_int_value(z3.simplify(stp.z)) and z3.simplify(stp.z).as_long() == -1 and sl.lower is None and sl.upper is None):
                raise Unsupported("slice step")
            return Val("arr", ref=a.ref, term=a.term, elem=a.elem, dtype=a.dtype, off=a.off, vlen=n, row=a.row, rev=not a.rev)
        lo, hi = bound(sl.lower, z3.IntVal(0)), bound(sl.upper, n)
        ln = z3.If(hi - lo > 0, hi - lo, 0)
        if a.rev: raise Unsupported("slice of reversed view")
        off = lo if a.off is None else a.off + lo
        return Val("arr", ref=a.ref, term=a.term, elem=a.elem, dtype=a.dtype, off=z3.simplify(off), vlen=z3.simplify(ln), row=a.row)

    def ev_Subscript(self, st, e):
        base = self.ev(st, e.value)
        if base.kind == "arr":
            if base.ndim == 2 and base.row is None:
                if isinstance(e.slice, ast.Tuple):
                    i, j = e.slice.elts
                    if isinstance(i, ast.Slice) and isinstance(j, ast.Slice):
                        full = lambda sl: sl.lower is None and sl.upper is None
                        if full(i) and i.step is None and full(j) and j.step is not None and ast.unparse(j.step) == "-1":
                            return Val("arr", ref=base.ref, elem=base.elem, dtype=base.dtype, ndim=2, vlen=base.vlen, rev=not base.rev)      # column-reversed view
                        raise Unsupported("2-D slicing")
                    if isinstance(i, ast.Slice) or isinstance(j, ast.Slice): raise Unsupported("2-D slicing")
                    n0, n1 = st.heap.shape[base.ref]
                    iz = self.norm_index(st, n0, self.ev(st, i).z, e.lineno); jz = self.norm_index(st, n1, self.ev(st, j).z, e.lineno)
                    if base.rev: jz = n1 - 1 - jz
                    return Val(base.elem, z3.Select(st.heap.arr[base.ref], iz, jz))
                if isinstance(e.slice, ast.Slice):
                    if e.slice.lower is not None or e.slice.step is not None: raise Unsupported("2-D slice form")
                    up = self.ev(st, e.slice.upper).z
                    return Val("arr", ref=base.ref, elem=base.elem, dtype=base.dtype, ndim=2, vlen=up)
                n0, n1 = st.heap.shape[base.ref]
                iz = self.norm_index(st, n0, self.ev(st, e.slice).z, e.lineno)
                return Val("arr", ref=base.ref, elem=base.elem, dtype=base.dtype, ndim=1, row=iz, vlen=n1)
            if isinstance(e.slice, ast.Slice): return self.slice_view(st, base, e.slice, e.lineno)
            i = self.ev(st, e.slice)
            if i.kind == "arr" and i.elem == "bool" and i.ndim == 1 and base.ndim == 1:
                # NumPy boolean-mask indexing a[m]: the elements a[r] of the rows with m[r], in row order - kept as (element function, mask), never materialised; lengths must agree
                if not self.in_spec: self.emit(st, "shape", self.arr_len(st, i) == self.arr_len(st, base), e.lineno, "[boolean mask index]")
                return Val("comp", elem=base.elem, dtype=base.dtype, vlen=self.arr_len(st, base), fn=(lambda r, b=base: self.arr_read(st, b, r, e.lineno, check=False)),
                           mask=(i, (lambda r, m=i: self.arr_read(st, m, r, e.lineno, check=False))))
            if i.kind == "comp" and i.elem == "int" and base.ndim == 1:
                # p[k[m]]: integer-array indexing by a compressed array - element-wise on the same rows; every SELECTED position must be in range
                n = self.arr_len(st, base); r_ = z3.Int(f"r?{next(self.fresh)}")
                if not self.in_spec: self.emit(st, "bounds", z3.ForAll([r_], z3.Implies(z3.And(r_ >= 0, r_ < i.vlen, i.mask[1](r_)), z3.And(i.fn(r_) >= -n, i.fn(r_) < n))), e.lineno, "[gather by masked positions]")
                return Val("comp", elem=base.elem, dtype=base.dtype, vlen=i.vlen, mask=i.mask,
                           fn=(lambda r, b=base, f=i.fn, n=n: self.arr_read(st, b, z3.If(f(r) < 0, f(r) + n, f(r)), e.lineno, check=False)))
            if i.kind == "arr" and i.elem == "int" and i.ndim == 1 and base.ndim == 1:
                # NumPy integer-array indexing: a NEW array with out[l] = a[idx[l]] (negative positions wrap); every position must be in range
                n = self.arr_len(st, base); ni = self.arr_len(st, i); l_ = z3.Int(f"l?{next(self.fresh)}")
                rd = lambda l: self.arr_read(st, i, l, e.lineno, check=False)
                if not self.in_spec: self.emit(st, "bounds", z3.ForAll([l_], z3.Implies(z3.And(l_ >= 0, l_ < ni), z3.And(rd(l_) >= -n, rd(l_) < n))), e.lineno, "[gather positions]")
                t = self.fc("gather", z3.ArraySort(I, sort_of(base.elem)))
                src = lambda l: self.arr_read(st, base, z3.If(rd(l) < 0, rd(l) + n, rd(l)), e.lineno, check=False)
                if self.bmc and self.conc(ni) is not None:
                    for c_ in range(self.conc(ni)): st.pc.append(z3.Select(t, c_) == src(z3.IntVal(c_)))
                else: st.pc.append(z3.ForAll([l_], z3.Implies(z3.And(l_ >= 0, l_ < ni), z3.Select(t, l_) == src(l_)), patterns=[z3.Select(t, l_)]))
                ref = st.heap.new(base.elem, base.dtype, (ni,), t, "gather")
                return Val("arr", ref=ref, elem=base.elem, dtype=base.dtype)
            if i.kind != "int": raise Unsupported("non-int index")
            return Val(base.elem, self.arr_read(st, base, i.z, e.lineno))
        if base.kind == "chunks" and isinstance(e.slice, ast.Slice):
            sl = e.slice
            if sl.step is not None or sl.upper is not None or sl.lower is None: raise Unsupported("slice of a list of arrays other than [k:]")
            lo = z3.simplify(self.ev(st, sl.lower).z)
            if not z3.is_int_value(lo) or lo.as_long() < 0: raise Unsupported("list slice with a symbolic or negative start")
            k = lo.as_long(); ln, term = base.items[0], base.term
            return Val("chunks", z=z3.If(base.z - k > 0, base.z - k, 0), items=((lambda c, ln=ln, k=k: ln(c + k)),), term=(lambda c, term=term, k=k: term(c + k)), elem=base.elem, dtype=base.dtype)
        if base.kind == "chunks":
            c = self.ev(st, e.slice)
            if not self.in_spec: self.emit(st, "bounds", z3.And(c.z >= 0, c.z < base.z), e.lineno, "[chunk]")      # numba typed lists raise IndexError; negative would wrap
            return self.chunk_view(base, c.z)
        if base.kind == "optlist":
            c = self.ev(st, e.slice)
            if not self.in_spec: self.emit(st, "bounds", z3.And(c.z >= 0, c.z < base.z), e.lineno, "[list entry]")
            return Val("opaque", base.term(c.z))
        if base.kind == "tuple" and isinstance(e.slice, ast.Constant): return base.items[e.slice.value]
        raise Unsupported(f"subscript on {base.kind}")

    def chunk_view(self, chunks, c):
        return Val("arr", term=chunks.term(c), elem=chunks.elem, dtype=chunks.dtype, vlen=chunks.items[0](c), cidx=c)

    # ------------------------------------------------------------------ calls
    def ev_Call(self, st, e):
        fname = ast.unparse(e.func)
        if self.in_spec and fname in ("forall", "exists", "implies", "old", "ite"): return self.spec_call(st, fname, e)
        if fname in ("enumerate", "zip"): return Val("iter", name=fname, items=(e,))
        if fname == "isinstance" and len(e.args) == 2 and ast.unparse(e.args[1]) == "np.ndarray":
            return Val("bool", z3.BoolVal(self.ev(st, e.args[0]).kind == "arr"))
        args = [self.ev(st, a) for a in e.args]
        kwargs = {k.arg: self.ev(st, k.value) for k in e.keywords}
        if fname == "len":
            a = args[0]
            if a.kind == "arr": return Val("int", self.arr_len(st, a))
            if a.kind == "chunks": return Val("int", a.z)
            if a.kind == "struct" and "__len__" in a.items: return a.items["__len__"]
            if a.kind == "optlist": return Val("int", a.z)
        if fname == "np.asarray" and len(args) == 1 and args[0].kind == "arr": return args[0]
        if fname == "is_null": return Val("bool", self.is_null(args[0]))
        if fname == "getattr" and len(args) == 2 and args[1].kind == "func": return args[1]      # getattr(ScalarFuncs, name): the name parameter is instantiated as the step function it names
        if fname == "np.isnan": return Val("bool", f_isnan(self.to_float(args[0])))
        if fname == "abs":
            a = args[0]
            if a.kind == "int": return Val("int", z3.If(a.z < 0, -a.z, a.z))
            if a.kind == "float": return Val("float", z3.If(f_isnan(a.z), F.NaN, F.Fin(z3.If(F.val(a.z) < 0, -F.val(a.z), F.val(a.z)))))
        if fname in ("range", "nb.prange"):
            a = [x.z for x in args]
            a = [z3.IntVal(0), a[0], z3.IntVal(1)] if len(a) == 1 else (a + [z3.IntVal(1)] if len(a) == 2 else a)
            return Val("range", items=tuple(a))
        if fname in ("np.full", "np.zeros", "np.empty"): return self.alloc(st, fname, e, args, kwargs)
        if fname == "np.exp": return Val("float", z3.If(f_isnan(self.to_float(args[0])), F.NaN, F.Fin(self.specs["__exp__"](F.val(self.to_float(args[0]))))))
        if fname == "np.log": return Val("float", F.Fin(self.specs["__log__"](F.val(self.to_float(args[0])))))
        if fname == "np.zeros_like":
            a = args[0]; dt = kwargs.get("dtype"); dtype = dt.name if dt else a.dtype
            elem = "float" if "float" in dtype else a.elem
            zero = {"int": z3.IntVal(0), "float": F.Fin(z3.RealVal(0)), "bool": z3.BoolVal(False)}[elem]
            ref = st.heap.new(elem, dtype, (self.arr_len(st, a),), z3.K(I, zero), "zl")
            return Val("arr", ref=ref, elem=elem, dtype=dtype)
        if fname.endswith(".copy") and isinstance(e.func, ast.Attribute):
            a = self.ev(st, e.func.value); n = self.arr_len(st, a)
            t = self.fc("copy", z3.ArraySort(I, sort_of(a.elem)))
            j = z3.Int(f"j?{next(self.fresh)}")
            if self.bmc and self.conc(n) is not None:
                for i_ in range(self.conc(n)): st.pc.append(z3.Select(t, i_) == self.arr_read(st, a, z3.IntVal(i_), e.lineno, check=False))
            else: st.pc.append(z3.ForAll([j], z3.Implies(z3.And(j >= 0, j < n), z3.Select(t, j) == self.arr_read(st, a, j, e.lineno, check=False))))
            ref = st.heap.new(a.elem, a.dtype, (n,), t, "copy")
            return Val("arr", ref=ref, elem=a.elem, dtype=a.dtype)
        fv = st.env.get(fname)
        if fv is not None and fv.kind == "func": return self.call_step(st, fv, args, kwargs, e.lineno)
        if fv is not None and fv.kind == "func2": return self.wrap(self.specs[fv.name](args[0].z, args[1].z))
        if fname in self.callees: return self.call_contract(st, fname, args, kwargs, e.lineno)
        if self.in_spec and fname in self.specs: return self.wrap(self.specs[fname](*[a.z for a in args]))
        raise Unsupported(f"call {fname} @L{e.lineno}")

    def is_null(self, v):
        if v.kind == "float": return f_isnan(v.z)
        if v.kind == "int": return v.z == MIN_INT
        if v.kind == "bool": return z3.BoolVal(False)
        if v.kind == "opaque": return self.specs["__vnull__"](v.z)
        raise Unsupported("is_null kind")

    def alloc(self, st, fname, e, args, kwargs):
        shape = args[0]; dims = [x.z for x in shape.items] if shape.kind == "tuple" else [shape.z]
        dt = kwargs.get("dtype") or (args[2] if fname == "np.full" and len(args) > 2 else (args[1] if fname != "np.full" and len(args) > 1 else None))
        dtype = dt.name if dt is not None else None
        fill = None
        if fname == "np.full":
            fill = args[1]; elem = fill.kind if dtype is None else ("float" if "float" in dtype else ("bool" if "bool" in dtype else "int"))
            if dtype is None: dtype = {"int": "int64", "float": "float64", "bool": "bool", "opaque": "V"}[elem]
        else:
            dtype = dtype or "float64"
            elem = "float" if "float" in dtype else ("bool" if "bool" in dtype else "int")
            if fname == "np.zeros":
                fill = {"int": Val("int", z3.IntVal(0)), "float": Val("float", F.Fin(z3.RealVal(0))), "bool": Val("bool", z3.BoolVal(False))}[elem]
        if not self.in_spec:
            for d in dims: self.emit(st, "alloc", d >= 0, e.lineno)
        init = None
        if fill is not None:
            fz = self.coerce(fill, elem) if fill.kind != elem else fill.z
            if elem == "int" and fill.kind == "float": raise Unsupported("float fill into int array")
            if z3.is_const(fz) and fz.decl().kind() == z3.Z3_OP_UNINTERPRETED:
                # a symbolic fill value (np.full(n, null_value)): SMT-LIB constant arrays need a literal, so define the array by a quantified fact (portable to cvc5)
                init = self.fc("full1", z3.ArraySort(I, sort_of(elem))); a_ = z3.Int(f"a?{next(self.fresh)}")
                if self.bmc and len(dims) == 1 and self.conc(dims[0]) is not None:
                    for i_ in range(self.conc(dims[0])): st.pc.append(z3.Select(init, i_) == fz)
                else: st.pc.append(z3.ForAll([a_], z3.Select(init, a_) == fz, patterns=[z3.Select(init, a_)]))
            else:
                init = z3.K(I, fz) if len(dims) == 1 else z3.K(I, z3.K(I, fz))
            if len(dims) == 2:
                init = self.fc("full2", z3.ArraySort(I, I, sort_of(elem)))
                a, b = z3.Ints(f"a?{next(self.fresh)} b?{next(self.fresh)}")
                if self.bmc and all(self.conc(d) is not None for d in dims):
                    for i_ in range(self.conc(dims[0])):
                        for j_ in range(self.conc(dims[1])): st.pc.append(z3.Select(init, i_, j_) == fz)
                else: st.pc.append(z3.ForAll([a, b], z3.Select(init, a, b) == fz))
        ref = st.heap.new(elem, dtype, dims, init, "new")
        return Val("arr", ref=ref, elem=elem, dtype=dtype, ndim=len(dims))

    def call_step(self, st, fv, args, kwargs, line):
        acc, v = args[0], args[1]; cnt = args[2] if len(args) > 2 else kwargs["count"]
        a = self.specs[fv.name + "_acc"](acc.z, v.z, cnt.z); c = self.specs[fv.name + "_cnt"](acc.z, v.z, cnt.z)
        return Val("tuple", items=(Val(acc.kind, a), Val("int", c)))

    def call_contract(self, st, fname, args, kwargs, line):
        cc = self.callees[fname]
        if callable(cc): cc = cc({**dict(zip(cc.params, args)), **kwargs})       # contract chosen by the None-ness of optional arguments, like the instantiations
        env = dict(zip(cc["params"], args)); env.update(kwargs)
        for p, d in cc.get("defaults", {}).items(): env.setdefault(p, d)
        for g, expr in self.contract.get("call_ghost", {}).get(fname, {}).items():
            saved = self.in_spec; self.in_spec = True
            try: env[g] = self.ev(st, ast.parse(expr, mode="eval").body)
            finally: self.in_spec = saved
        scope = self.contract.get("call_facts_scope", {}).get(fname)
        def addfact(g):
            st.pc.append(g)
            if scope is not None: self.scope_of[g.get_id()] = set(scope)
        for j, lem in enumerate(self.contract.get("before_call", {}).get(fname, [])):
            g = self.spec(st, lem); self.emit(st, "lemma", g, line, f"[before {fname}.{j}]"); addfact(g)
        cst = State({**st.env, **env}, st.heap, st.pc)
        for j, r in enumerate(cc.get("requires", [])):
            self.emit(st, "pre", self.spec(cst, r), line, f"[{fname}.{j}]")
        results = []
        for k, kind in enumerate(cc["returns"]):
            if kind.startswith("arr:"):
                _, elem, dtype = kind.split(":"); n = self.ev_spec_term(cst, cc["result_len"][k])
                ref = st.heap.new(elem, dtype, (n,), None, f"{fname}_r{k}"); results.append(Val("arr", ref=ref, elem=elem, dtype=dtype))
            elif kind.startswith("chunkstruct:"):
                # an object read only through `.chunks` (a pyarrow ChunkedArray of codes): a fresh list of arrays of unknown number and lengths
                _, elem, dtype = kind.split(":"); u = next(self.fresh)
                n_ = z3.Int(f"nchunks_{fname}_r{k}!{u}"); ln = z3.Function(f"clen_{fname}_r{k}!{u}", I, I); ch = z3.Function(f"chunk_{fname}_r{k}!{u}", I, z3.ArraySort(I, sort_of(elem)))
                c_ = z3.Int(f"c?{next(self.fresh)}"); st.pc.append(n_ >= 0); st.pc.append(z3.ForAll([c_], ln(c_) >= 0, patterns=[ln(c_)]))
                results.append(Val("struct", items={"chunks": Val("chunks", z=n_, items=(ln,), term=ch, elem=elem, dtype=dtype)}, name=f"{fname}_r{k}"))
            elif kind == "optlist":
                # a Python list whose entries are handed on unread (None or an array per entry): only its length and "entry i" exist for the caller
                u = next(self.fresh); n_ = z3.Int(f"len_{fname}_r{k}!{u}"); st.pc.append(n_ >= 0)
                results.append(Val("optlist", z=n_, term=z3.Function(f"entry_{fname}_r{k}!{u}", I, V)))
            else: results.append(Val(kind, self.fc(f"{fname}_r{k}", sort_of(kind))))
        rv = results[0] if len(results) == 1 else Val("tuple", items=tuple(results))
        # ghost results: witnesses the callee was PROVED to produce (its own ghost variables at return); the caller sees them as callghost_<name>
        for gname, gkind in cc.get("ghost_returns", {}).items():
            gv = Val(gkind, self.fc(f"{fname}_{gname}", sort_of(gkind))); cst.env[gname] = gv; st.env[f"callghost_{gname}"] = gv; self.ghost_names.add(f"callghost_{gname}")
        cst.env["result"] = rv
        for k, r_ in enumerate(results): cst.env[f"result{k}"] = r_
        for p in cc.get("ensures", []): addfact(self.spec(cst, p))
        cst2 = State({**st.env, "callresult": rv, **{f"callresult{k}": r_ for k, r_ in enumerate(results)}}, st.heap, st.pc)
        for j, lem in enumerate(self.contract.get("after_call", {}).get(fname, [])):
            g = self.spec(cst2, lem); self.emit(st, "lemma", g, line, f"[after {fname}.{j}]"); st.pc.append(g)
        return rv

    # ------------------------------------------------------------------ spec language
    def spec(self, st, text, extra=None):
        tree = ast.parse(text.strip(), mode="eval").body
        saved = self.in_spec; self.in_spec = True
        try:
            st2 = st if not extra else State({**st.env, **extra}, st.heap, st.pc)
            return self.truthy(self.ev(st2, tree))
        finally: self.in_spec = saved

    def spec_call(self, st, fname, e):
        if fname in ("forall", "exists"):
            *vars_, lo, hi, body = e.args if len(e.args) == 4 else (e.args[0], e.args[1], e.args[2], e.args[3])
            var = vars_[0]
            if self.bmc:
                lo_c, hi_c = z3.simplify(self.ev(st, lo).z), z3.simplify(self.ev(st, hi).z)
                if z3.is_int_value(lo_c) and z3.is_int_value(hi_c) and hi_c.as_long() - lo_c.as_long() <= 12:
                    parts = []
                    for c_ in range(lo_c.as_long(), hi_c.as_long()):
                        st3 = State({**st.env, var.id: Val("int", z3.IntVal(c_))}, st.heap, st.pc); parts.append(self.truthy(self.ev(st3, body)))
                    return Val("bool", (z3.And(*parts) if parts else z3.BoolVal(True)) if fname == "forall" else (z3.Or(*parts) if parts else z3.BoolVal(False)))
            if getattr(self, "expand", None):
                # shape search (pyvc/cex.py): every range is known to lie inside a small interval, so a bounded quantifier is the guarded conjunction / disjunction of its instances
                parts = []
                for c_ in range(*self.expand):
                    st3 = State({**st.env, var.id: Val("int", z3.IntVal(c_))}, st.heap, st.pc)
                    rng_ = z3.And(self.ev(st3, lo).z <= c_, c_ < self.ev(st3, hi).z); b_ = self.truthy(self.ev(st3, body))
                    parts.append(z3.Implies(rng_, b_) if fname == "forall" else z3.And(rng_, b_))
                return Val("bool", z3.And(*parts) if fname == "forall" else z3.Or(*parts))
            zv = z3.Int(f"{var.id}?{next(self.fresh)}")
            st2 = State({**st.env, var.id: Val("int", zv)}, st.heap, st.pc)
            rng = z3.And(self.ev(st2, lo).z <= zv, zv < self.ev(st2, hi).z); b = self.truthy(self.ev(st2, body))
            pats = []
            for kw in e.keywords:
                if kw.arg == "trigger" and not self.bmc: pats = [self.ev(st2, kw.value).z]      # (bounded search: index terms are ite-terms, not usable as patterns)
            q = z3.ForAll([zv], z3.Implies(rng, b), patterns=pats) if fname == "forall" else z3.Exists([zv], z3.And(rng, b))
            return Val("bool", q)
        if fname == "implies": return Val("bool", z3.Implies(self.truthy(self.ev(st, e.args[0])), self.truthy(self.ev(st, e.args[1]))))
        if fname == "ite":
            c = self.truthy(self.ev(st, e.args[0])); a = self.ev(st, e.args[1]); b = self.ev(st, e.args[2])
            if a.kind != b.kind:
                if {a.kind, b.kind} == {"int", "real"}:
                    return Val("real", z3.If(c, a.z if a.kind == "real" else z3.ToReal(a.z), b.z if b.kind == "real" else z3.ToReal(b.z)))
                return Val("float", z3.If(c, self.to_float(a), self.to_float(b)))
            return Val(a.kind, z3.If(c, a.z, b.z))
        if fname == "old":
            st0 = State(self.entry_env, self.entry_heap, st.pc)
            return self.ev(st0, e.args[0])
        raise Unsupported(fname)

    # ------------------------------------------------------------------ statements -> outcomes
    def run_block(self, st, stmts):
        outs = [("normal", st, None)]
        for s in stmts:
            nxt = []
            for kind, st_, val in outs:
                if kind != "normal": nxt.append((kind, st_, val)); continue
                nxt.extend(self.exec(st_, s))
            outs = nxt
        return outs

    def exec(self, st, s):
        m = getattr(self, "ex_" + type(s).__name__, None)
        if m is None: raise Unsupported(f"stmt {type(s).__name__} @L{s.lineno}")
        saved_stmt = self.cur_stmt
        if not self.ghost_mode: self.cur_stmt = s
        try: outs = m(st, s)
        finally: self.cur_stmt = saved_stmt
        return outs

    def ex_Expr(self, st, s):
        if isinstance(s.value, ast.Constant): return [("normal", st, None)]
        c = s.value
        if isinstance(c, ast.Call) and isinstance(c.func, ast.Attribute) and c.func.attr == "append" and isinstance(c.func.value, ast.Name) and len(c.args) == 1 and not c.keywords:
            lst = st.env.get(c.func.value.id); item = self.ev(st, c.args[0])
            if lst is not None and lst.kind == "chunks" and item.kind == "arr" and item.elem == lst.elem and item.ndim == 1 and item.off is None and not item.rev:
                # list.append(array): the list of arrays grows by one; entry n is the array as it is NOW (later stores into that array are not followed: refused by making it read-only here)
                n = lst.z; ln0, ch0 = lst.items[0], lst.term; ilen = self.arr_len(st, item); iarr = st.heap.arr[item.ref] if item.ref is not None else item.term
                ln1 = lambda c_, ln0=ln0, n=n, ilen=ilen: z3.If(c_ == n, ilen, ln0(c_)); ch1 = lambda c_, ch0=ch0, n=n, iarr=iarr: z3.If(c_ == n, iarr, ch0(c_))
                st.env[c.func.value.id] = Val("chunks", z=n + 1, items=(ln1,), term=ch1, elem=lst.elem, dtype=lst.dtype)
                if item.ref is not None: self.frozen.setdefault(item.ref, f"an array already appended to {c.func.value.id}")
                return [("normal", st, None)]
        raise Unsupported("expression statement")
    def ex_Pass(self, st, s): return [("normal", st, None)]

    def store(self, st, arr, idxs, val, line):
        if arr.ref is None: raise Unsupported("store into immutable array")
        elem, dtype, ghost, label = st.heap.meta[arr.ref]
        pr = getattr(self, "prange", None)
        if pr is not None and not ghost and arr.ref in pr["refs_at_head"] and not self.in_spec:
            # nb.prange: distinct iterations may run concurrently; writes to an array that exists outside the loop are race-free iff each iteration
            # writes only the slot named by its own loop index (slots of different iterations are then disjoint)
            self.emit(st, "race", idxs[0] == st.env[pr["var"]].z, line, f"[{label}]")
        if not ghost and self.ghost_mode: raise Unsupported("ghost code writes program array")
        if elem == "int" and val.kind == "float" and not ghost:
            # numba truncates a float stored into an integer array (and NaN becomes an arbitrary integer): never value-preserving in general, so a named obligation that
            # cannot be discharged; the slot then holds an unconstrained integer of the array's dtype
            self.emit(st, "lossy", z3.BoolVal(False), line, f"[{label}:{dtype}]")
            val = Val("int", z3.Int(f"trunc?{next(self.fresh)}"))
            if INT_RANGES.get(dtype): lo_, hi_ = INT_RANGES[dtype]; st.pc.append(z3.And(val.z >= lo_, val.z <= hi_))
        z = self.coerce(val, elem) if val.kind != elem else val.z
        if elem == "int" and INT_RANGES.get(dtype): lo, hi = INT_RANGES[dtype]; self.emit(st, "overflow", z3.And(z >= lo, z <= hi), line, f"[{label}:{dtype}]")
        if elem == "float" and val.kind == "int" and self.contract.get("exact"):
            self.emit(st, "exact", z3.And(val.z >= -2**53, val.z <= 2**53), line, f"[{label}]")
        if arr.ref in self.frozen: self.emit(st, "frame", z3.BoolVal(False), line, f"[{self.frozen[arr.ref]}]")
        if arr.off is not None or arr.rev: raise Unsupported("store through view")
        shape = st.heap.shape[arr.ref]
        if arr.row is not None:
            j = self.norm_index(st, shape[1], idxs[0], line); st.heap.arr[arr.ref] = z3.Store(st.heap.arr[arr.ref], arr.row, j, z)
        elif len(shape) == 2:
            if arr.rev: raise Unsupported("store through a column-reversed view")
            i = self.norm_index(st, shape[0], idxs[0], line); j = self.norm_index(st, shape[1], idxs[1], line)
            st.heap.arr[arr.ref] = z3.Store(st.heap.arr[arr.ref], i, j, z)
        else:
            i = self.norm_index(st, shape[0], idxs[0], line, label); st.heap.arr[arr.ref] = z3.Store(st.heap.arr[arr.ref], i, z)
        if not self.ghost_mode:
            nm = self.name_of(st, arr); occ = self.stmt_occ.get(id(self.cur_stmt), {})
            for anchor, code in self.contract.get("ghost_updates", []):
                for cand in {label, nm} - {None}:
                    if anchor == f"after_store({cand})" or anchor == f"after_store({cand})#{occ.get(('store', cand), -1)}":
                        self.run_ghost(st, code); break

    def store_row(self, st, arr, g, src, line):
        elem, dtype, ghost, label = st.heap.meta[arr.ref]
        n0, n1 = st.heap.shape[arr.ref]
        gi = self.norm_index(st, n0, g, line, label)
        self.emit(st, "shape", self.arr_len(st, src) == n1, line, f"[{label}]")
        if arr.ref in self.frozen: self.emit(st, "frame", z3.BoolVal(False), line, f"[{self.frozen[arr.ref]}]")
        old = st.heap.arr[arr.ref]; new = self.fc(label, old.sort())
        a, b = z3.Ints(f"a?{next(self.fresh)} b?{next(self.fresh)}")
        srcval = self.arr_read(st, src, b, line, check=False)      # read through the OLD heap (RHS evaluated first)
        if self.bmc and self.conc(n0) is not None and self.conc(n1) is not None:
            for i_ in range(self.conc(n0)):
                for j_ in range(self.conc(n1)):
                    st.pc.append(z3.Select(new, i_, j_) == z3.If(gi == i_, self.arr_read(st, src, z3.IntVal(j_), line, check=False), z3.Select(old, i_, j_)))
        else: st.pc.append(z3.ForAll([a, b], z3.Select(new, a, b) == z3.If(z3.And(a == gi, b >= 0, b < n1), srcval, z3.Select(old, a, b)), patterns=[z3.Select(new, a, b)]))
        st.heap.arr[arr.ref] = new

    def name_of(self, st, arr):
        for k, v in st.env.items():
            if v.kind == "arr" and v.ref == arr.ref and v.row is None and v.off is None: return k
        return None

    ghost_mode = False
    def run_ghost(self, st, code):
        saved = self.ghost_mode; self.ghost_mode = True; saved_spec = self.in_spec; self.in_spec = True       # ghost code is specification: it may call spec functions
        try:
            for stmt in ast.parse(code).body:
                outs = self.exec(st, stmt)
                if len(outs) != 1 or outs[0][0] != "normal": raise Unsupported("branching ghost code")
        finally: self.ghost_mode = saved; self.in_spec = saved_spec

    def assign(self, st, target, val, line):
        if isinstance(target, ast.Name):
            if self.ghost_mode and target.id not in self.ghost_names: raise Unsupported(f"ghost code assigns program variable {target.id}")
            # numba unifies the type of a local over the whole function (residual = 0 ... residual += x  makes it float64 from the start); the contract
            # declares such locals in "var_types" and the kind-stability check at every loop end refuses silently diverging kinds
            vt = self.contract.get("var_types", {}).get(target.id)
            if vt is not None and val.kind != vt and val.kind in ("int", "bool", "float"): val = Val(vt, self.coerce(val, vt))
            if not self.ghost_mode and self.contract.get("ghost_updates"):
                occ = self.stmt_occ.get(id(self.cur_stmt), {}).get(("assign", target.id), -1)
                pending = [code for anchor, code in self.contract["ghost_updates"] if anchor in (f"after_assign({target.id})", f"after_assign({target.id})#{occ}")]
            else: pending = []
            if val.kind in ("int", "float", "bool", "opaque") and not z3.is_const(val.z) and not self.bmc:
                c = self.fc(target.id, sort_of(val.kind)); self.defs.append(c == val.z); val = Val(val.kind, c)   # name the value: smaller terms, usable in triggers
            st.env[target.id] = val
            for code in pending: self.run_ghost(st, code)
        elif isinstance(target, ast.Tuple):
            if val.kind != "tuple" or len(val.items) != len(target.elts): raise Unsupported("tuple assign")
            for t, v in zip(target.elts, val.items): self.assign(st, t, v, line)
        elif isinstance(target, ast.Subscript):
            arr = self.ev(st, target.value)
            if arr.kind != "arr": raise Unsupported("store target")
            sl = target.slice
            if isinstance(sl, ast.Slice): raise Unsupported("slice store")
            if val.kind == "arr" and arr.ndim == 2 and arr.row is None and not isinstance(sl, ast.Tuple):
                return self.store_row(st, arr, self.ev(st, sl).z, val, line)
            if not isinstance(sl, ast.Tuple):
                iv = self.ev(st, sl)
                if iv.kind == "arr" and iv.elem == "bool" and val.kind == "comp" and arr.ndim == 1 and arr.ref is not None and arr.off is None:
                    # a[m] = b[m']: defined here only when m and m' are the SAME mask array (then it is element-wise on the selected rows); anything else is refused
                    if val.mask[0].ref is None or val.mask[0].ref != iv.ref: raise Unsupported("boolean-mask store from a value compressed by another mask")
                    elem, dtype, ghost, label = st.heap.meta[arr.ref]
                    if val.elem != elem: raise Unsupported(f"masked store of {val.elem} values into {elem} array {label}")
                    na = self.arr_len(st, arr); self.emit(st, "shape", self.arr_len(st, iv) == na, line, f"[{label}[mask] = values[mask]]")
                    if arr.ref in self.frozen: self.emit(st, "frame", z3.BoolVal(False), line, f"[{self.frozen[arr.ref]}]")
                    old_ = st.heap.arr[arr.ref]; new_ = self.fc(label, old_.sort()); r_ = z3.Int(f"r?{next(self.fresh)}")
                    st.pc.append(z3.ForAll([r_], z3.Implies(z3.And(r_ >= 0, r_ < na), z3.Select(new_, r_) == z3.If(val.mask[1](r_), val.fn(r_), z3.Select(old_, r_))), patterns=[z3.Select(new_, r_)]))
                    st.heap.arr[arr.ref] = new_; return
                if iv.kind == "arr" and iv.elem == "int" and val.kind == "arr" and arr.ndim == 1 and arr.ref is not None and arr.off is None:
                    return self.scatter_store(st, arr, iv, val, line)
            idxs = [self.ev(st, x).z for x in sl.elts] if isinstance(sl, ast.Tuple) else [self.ev(st, sl).z]
            self.store(st, arr, idxs, val, line)
        else: raise Unsupported("assign target")

    def ex_Assign(self, st, s):
        val = self.ev(st, s.value)
        if val.kind == "arr" and val.ref is not None and st.heap.meta[val.ref][3] in ("new", "zl", "copy") and isinstance(s.targets[0], ast.Name):
            e_, d_, g_, _ = st.heap.meta[val.ref]; st.heap.meta[val.ref] = (e_, d_, g_, s.targets[0].id)
            want = self.contract.get("array_elem", {}).get(s.targets[0].id)
            if want is not None and not self.in_spec:
                # contract clause array_elem: {local array: parameter}: the local buffer holds elements of the parameter's element type (numba: np.full(shape, fill) takes the
                # fill's type, np.empty / np.zeros without dtype are float64 - storing the input's values there converts them implicitly). A named obligation, always emitted.
                pv = st.env[want]; pk = pv.elem if pv.kind in ("arr", "chunks") else pv.kind
                ok = e_ == pk
                self.emit(st, "alloc_elem", z3.BoolVal(ok), s.lineno, f"[{s.targets[0].id}]")
                if not ok: raise ElemTypeMismatch(f"{s.targets[0].id} is allocated as {d_} but holds elements of `{want}` ({pk})")
        for t in s.targets: self.assign(st, t, val, s.lineno)
        return [("normal", st, None)]

    def scatter_store(self, st, arr, idx, val, line):
        """NumPy `a[idx] = b` with an integer array idx: a[idx[l]] = b[l]; positions in range, equal lengths, and pairwise distinct positions (with a repeat the LAST writer wins in
        NumPy - an order dependence no caller here intends - so distinctness is an obligation); every other slot keeps its value"""
        elem, dtype, ghost, label = st.heap.meta[arr.ref]; na, ni, nb_ = self.arr_len(st, arr), self.arr_len(st, idx), self.arr_len(st, val)
        if val.elem != elem: raise Unsupported(f"scatter of {val.elem} values into {elem} array {label}")
        l1, l2 = z3.Int(f"l?{next(self.fresh)}"), z3.Int(f"l?{next(self.fresh)}"); rd = lambda l: self.arr_read(st, idx, l, line, check=False)
        self.emit(st, "shape", ni == nb_, line, f"[{label}[positions] = array]")
        self.emit(st, "bounds", z3.ForAll([l1], z3.Implies(z3.And(l1 >= 0, l1 < ni), z3.And(rd(l1) >= -na, rd(l1) < na))), line, f"[{label}[positions]]")
        if label in self.contract.get("nonneg_index", ()): self.emit(st, "negindex", z3.ForAll([l1], z3.Implies(z3.And(l1 >= 0, l1 < ni), rd(l1) >= 0)), line, f"[{label}]")
        self.emit(st, "distinct", z3.ForAll([l1, l2], z3.Implies(z3.And(l1 >= 0, l1 < l2, l2 < ni), rd(l1) != rd(l2))), line, f"[{label}[positions] = array]")
        if arr.ref in self.frozen: self.emit(st, "frame", z3.BoolVal(False), line, f"[{self.frozen[arr.ref]}]")
        wrap = lambda v: z3.If(v < 0, v + na, v); old = st.heap.arr[arr.ref]; new = self.fc(label, old.sort())
        if self.bmc and self.conc(na) is not None and self.conc(ni) is not None:
            for g_ in range(self.conc(na)):
                cur = z3.Select(old, g_)
                for l_ in range(self.conc(ni)): cur = z3.If(wrap(rd(z3.IntVal(l_))) == g_, self.arr_read(st, val, z3.IntVal(l_), line, check=False), cur)
                st.pc.append(z3.Select(new, g_) == cur)
        else:
            g = z3.Int(f"g?{next(self.fresh)}")
            st.pc.append(z3.ForAll([l1], z3.Implies(z3.And(l1 >= 0, l1 < ni), z3.Select(new, wrap(rd(l1))) == self.arr_read(st, val, l1, line, check=False)), patterns=[rd(l1)]))
            st.pc.append(z3.ForAll([g], z3.Implies(z3.And(g >= 0, g < na, z3.ForAll([l2], z3.Implies(z3.And(l2 >= 0, l2 < ni), wrap(rd(l2)) != g))), z3.Select(new, g) == z3.Select(old, g)), patterns=[z3.Select(new, g)]))
        st.heap.arr[arr.ref] = new

    def vec_inplace_add(self, st, s):
        """NumPy in-place vector updates of an int64 array, exactly as NumPy defines them:
             a += b            (same length)       a[j] becomes a[j] + b[j]
             a[idx] += b       (integer array idx) for pairwise distinct positions: a[idx[l]] becomes a[idx[l]] + b[l], every other slot keeps its value.
           With a REPEATED position NumPy's buffered fancy `+=` counts only one of the addends - never what a scatter-add is meant to do - so pairwise distinctness of the
           positions is an obligation (kind `distinct`), as are the bounds of every position and the equal lengths."""
        tgt = s.target; rhs = self.ev(st, s.value)
        if isinstance(tgt, ast.Name):
            a = st.env[tgt.id]; na, nb_ = self.arr_len(st, a), self.arr_len(st, rhs)
            self.emit(st, "shape", na == nb_, s.lineno, f"[{tgt.id} += array]")
            old = st.heap.arr[a.ref]; new = self.fc(tgt.id, old.sort())
            if self.bmc and self.conc(na) is not None:
                for i_ in range(self.conc(na)): st.pc.append(z3.Select(new, i_) == z3.Select(old, i_) + self.arr_read(st, rhs, z3.IntVal(i_), s.lineno, check=False))
            else:
                j = z3.Int(f"j?{next(self.fresh)}")
                st.pc.append(z3.ForAll([j], z3.Implies(z3.And(j >= 0, j < na), z3.Select(new, j) == z3.Select(old, j) + self.arr_read(st, rhs, j, s.lineno, check=False)), patterns=[z3.Select(new, j)]))
            if a.ref in self.frozen: self.emit(st, "frame", z3.BoolVal(False), s.lineno, f"[{self.frozen[a.ref]}]")
            st.heap.arr[a.ref] = new; return
        a = self.ev(st, tgt.value); idx = self.ev(st, tgt.slice); na, ni, nb_ = self.arr_len(st, a), self.arr_len(st, idx), self.arr_len(st, rhs)
        label = st.heap.meta[a.ref][3]
        self.emit(st, "shape", ni == nb_, s.lineno, f"[{label}[positions] += array]")
        l1, l2 = z3.Int(f"l?{next(self.fresh)}"), z3.Int(f"l?{next(self.fresh)}")
        rd = lambda l: self.arr_read(st, idx, l, s.lineno, check=False)
        self.emit(st, "bounds", z3.ForAll([l1], z3.Implies(z3.And(l1 >= 0, l1 < ni), z3.And(rd(l1) >= -na, rd(l1) < na))), s.lineno, f"[{label}[positions]]")
        if label in self.contract.get("nonneg_index", ()): self.emit(st, "negindex", z3.ForAll([l1], z3.Implies(z3.And(l1 >= 0, l1 < ni), rd(l1) >= 0)), s.lineno, f"[{label}]")
        self.emit(st, "distinct", z3.ForAll([l1, l2], z3.Implies(z3.And(l1 >= 0, l1 < l2, l2 < ni), rd(l1) != rd(l2))), s.lineno, f"[{label}[positions] += array]")
        wrap = lambda v: z3.If(v < 0, v + na, v)
        old = st.heap.arr[a.ref]; new = self.fc(label, old.sort())
        if self.bmc and self.conc(na) is not None and self.conc(ni) is not None:
            for g_ in range(self.conc(na)):
                tot = z3.Select(old, g_)
                for l_ in range(self.conc(ni)): tot = tot + z3.If(wrap(rd(z3.IntVal(l_))) == g_, self.arr_read(st, rhs, z3.IntVal(l_), s.lineno, check=False), 0)
                st.pc.append(z3.Select(new, g_) == tot)
        else:
            g = z3.Int(f"g?{next(self.fresh)}")
            st.pc.append(z3.ForAll([l1], z3.Implies(z3.And(l1 >= 0, l1 < ni), z3.Select(new, wrap(rd(l1))) == z3.Select(old, wrap(rd(l1))) + self.arr_read(st, rhs, l1, s.lineno, check=False)), patterns=[rd(l1)]))
            st.pc.append(z3.ForAll([g], z3.Implies(z3.And(g >= 0, g < na, z3.ForAll([l2], z3.Implies(z3.And(l2 >= 0, l2 < ni), wrap(rd(l2)) != g))), z3.Select(new, g) == z3.Select(old, g)), patterns=[z3.Select(new, g)]))
        if a.ref in self.frozen: self.emit(st, "frame", z3.BoolVal(False), s.lineno, f"[{self.frozen[a.ref]}]")
        st.heap.arr[a.ref] = new

    def ex_AugAssign(self, st, s):
        if isinstance(s.op, ast.Add):
            saved = self.in_spec; self.in_spec = True          # classify without emitting obligations
            try:
                probe_t = self.ev(st, s.target.value) if isinstance(s.target, ast.Subscript) else st.env.get(s.target.id) if isinstance(s.target, ast.Name) else None
                probe_i = self.ev(st, s.target.slice) if isinstance(s.target, ast.Subscript) and not isinstance(s.target.slice, (ast.Slice, ast.Tuple)) else None
            except (Unsupported, Stale): probe_t = probe_i = None
            finally: self.in_spec = saved
            vec = probe_t is not None and probe_t.kind == "arr" and probe_t.ref is not None and probe_t.ndim == 1 and probe_t.elem == "int" and \
                ((isinstance(s.target, ast.Name)) or (probe_i is not None and probe_i.kind == "arr"))
            if vec:
                self.vec_inplace_add(st, s); return [("normal", st, None)]
        cur = self.ev(st, ast.parse(ast.unparse(s.target), mode="eval").body) if True else None
        # re-evaluate with line numbers
        tgt_load = ast.parse(ast.unparse(s.target), mode="eval").body
        for n in ast.walk(tgt_load): n.lineno = s.lineno; n.col_offset = 0
        nobl = len(self.obls); cur = self.ev(st, tgt_load)
        val = self.arith(st, type(s.op), cur, self.ev(st, s.value), s.lineno, s.value)
        self.assign(st, s.target, val, s.lineno)
        return [("normal", st, None)]

    def ex_If(self, st, s):
        c = z3.simplify(self.truthy(self.ev(st, s.test))); out = []
        if not z3.is_false(c):
            a = st.fork(); a.pc.append(c); a.path += "T"
            if z3.is_true(c) or self.feasible(a): out += self.run_block(a, s.body)
        if not z3.is_true(c):
            b = st.fork(); b.pc.append(z3.Not(c)); b.path += "F"
            if z3.is_false(c) or self.feasible(b): out += self.run_block(b, s.orelse)
        return out

    def ex_Return(self, st, s): return [("return", st, self.ev(st, s.value) if s.value else Val("none"))]
    def ex_Continue(self, st, s): return [("continue", st, None)]
    def ex_Break(self, st, s): return [("break", st, None)]
    def ex_Raise(self, st, s): return [("raise", st, ast.unparse(s.exc)[:30])]
    def ex_Assert(self, st, s):
        g = self.truthy(self.ev(st, s.test)); self.emit(st, "assert", g, s.lineno); st.pc.append(g)
        return [("normal", st, None)]

    # ---- loops
    def modified(self, body):
        names, arrays = set(), set(); self._aug_names = set()
        for n in ast.walk(ast.Module(body=body, type_ignores=[])):
            if isinstance(n, ast.AugAssign) and isinstance(n.target, ast.Name): self._aug_names.add(n.target.id)
            if isinstance(n, (ast.Assign, ast.AugAssign)):
                for t in (n.targets if isinstance(n, ast.Assign) else [n.target]):
                    for x in ast.walk(t):
                        if isinstance(x, ast.Name) and isinstance(x.ctx, ast.Store): names.add(x.id)
                        if isinstance(x, ast.Subscript) and isinstance(x.ctx, ast.Store):
                            b = x.value
                            while isinstance(b, ast.Subscript): b = b.value
                            arrays.add(ast.unparse(b))
            if isinstance(n, ast.For):
                for x in ast.walk(n.target):
                    if isinstance(x, ast.Name): names.add(x.id)
        return names, arrays

    def iter_spec(self, st, node, it):
        """returns (n_iter term, bind(st, c) -> Val of the loop element)"""
        if it.kind == "range":
            start, stop, step = it.items; step = z3.simplify(step)
            if not z3.is_int_value(step) or step.as_long() not in (1, -1): raise Unsupported("range step")
            sv = step.as_long(); d = (stop - start) if sv == 1 else (start - stop)
            return z3.If(d > 0, d, 0), (lambda st_, c: Val("int", start + c * sv))
        if it.kind == "arr":
            return self.arr_len(st, it), (lambda st_, c, it=it: Val(it.elem, self.arr_read(st_, it, c, node.lineno, check=False)))
        if it.kind == "chunks":
            return it.z, (lambda st_, c, it=it: self.chunk_view(it, c))
        if it.kind == "iter":
            call = it.items[0]; fn = ast.unparse(call.func)
            if fn == "enumerate":
                inner = self.ev(st, call.args[0]); start = self.ev(st, call.args[1]).z if len(call.args) > 1 else z3.IntVal(0)
                n, bind = self.iter_spec(st, node, inner)
                return n, (lambda st_, c: Val("tuple", items=(Val("int", start + c), bind(st_, c))))
            if fn == "zip":
                parts = [self.iter_spec(st, node, self.ev(st, a)) for a in call.args]
                n = parts[0][0]
                for m, _ in parts[1:]: n = z3.If(m < n, m, n)
                return n, (lambda st_, c: Val("tuple", items=tuple(b(st_, c) for _, b in parts)))
        raise Unsupported(f"for over {it.kind}")

    def ex_For(self, st, s):
        o = self.loop_ord[id(s)]; lc = self.contract.get("loops", {}).get(o)
        if lc is None: raise Stale(f"no contract for loop {o} over {ast.unparse(s.iter)!r}")
        if lc.get("iter") and lc["iter"] != ast.unparse(s.iter): raise Stale(f"loop {o} iterates {ast.unparse(s.iter)!r}, contract says {lc['iter']!r}")
        it = self.ev(st, s.iter); n_iter, bind = self.iter_spec(st, s, it)
        cname = f"_it{o}"
        if self.bmc:
            n = z3.simplify(n_iter)
            if not z3.is_int_value(n):
                # a trip count that depends on the data (range(start, len(arr)) with a computed start): unroll up to a fuel, forking on "one more iteration?"
                cur = [st]; outs = []; exited = []
                for c_ in range(8):
                    nxt = []
                    for s_ in cur:
                        g = z3.simplify(z3.IntVal(c_) < n_iter)
                        if not z3.is_true(g):
                            x_ = s_.fork(); x_.pc.append(z3.Not(g))
                            if z3.is_false(g) or self.feasible(x_): x_.env[cname] = Val("int", z3.IntVal(c_)); exited.append(x_)
                        if z3.is_false(g): continue
                        b_ = s_.fork(); b_.pc.append(g)
                        if not (z3.is_true(g) or self.feasible(b_)): continue
                        b_.env[cname] = Val("int", z3.IntVal(c_)); self.assign(b_, s.target, bind(b_, z3.IntVal(c_)), s.lineno)
                        for hint in lc.get("unfold", []): b_.pc.append(self.spec(b_, hint))
                        for kind, e_st, val in self.run_block(b_, s.body):
                            if kind in ("normal", "continue"):
                                e_st.env[cname] = Val("int", z3.IntVal(c_ + 1))
                                for code in lc.get("ghost_at_end", []): self.run_ghost(e_st, code)
                                nxt.append(e_st)
                            elif kind == "break": outs.append(("normal", e_st, None))
                            else: outs.append((kind, e_st, val))
                    cur = nxt
                    if not cur: break
                return outs + [("normal", s_, None) for s_ in exited]
            cur = [st]; outs = []
            for c_ in range(n.as_long()):
                nxt = []
                for s_ in cur:
                    s_.env[cname] = Val("int", z3.IntVal(c_))
                    self.assign(s_, s.target, bind(s_, z3.IntVal(c_)), s.lineno)
                    for hint in lc.get("unfold", []): s_.pc.append(self.spec(s_, hint))
                    for hint, _idxs in lc.get("unfold_scoped", []): s_.pc.append(self.spec(s_, hint))
                    for kind, e_st, val in self.run_block(s_, s.body):
                        if kind in ("normal", "continue"):
                            e_st.env[cname] = Val("int", z3.IntVal(c_ + 1))
                            for code in lc.get("ghost_at_end", []): self.run_ghost(e_st, code)
                            nxt.append(e_st)
                        elif kind == "break": outs.append(("normal", e_st, None))
                        else: outs.append((kind, e_st, val))
                cur = nxt
            for s_ in cur: s_.env[cname] = Val("int", z3.IntVal(n.as_long()))
            return outs + [("normal", s_, None) for s_ in cur]
        st.env[cname] = Val("int", z3.IntVal(0))
        tgt_names = [x.id for x in ast.walk(s.target) if isinstance(x, ast.Name)]
        if any(nm not in st.env for nm in tgt_names):
            probe = bind(st, z3.IntVal(0)); flat = list(probe.items) if probe.kind == "tuple" else [probe]
            tl = list(s.target.elts) if isinstance(s.target, ast.Tuple) else [s.target]
            for tnode, pv in zip(tl, flat):
                if isinstance(tnode, ast.Name) and tnode.id not in st.env and pv.kind in ("int", "float", "bool", "opaque"):
                    st.env[tnode.id] = Val(pv.kind, self.fc(tnode.id + "_unbound", sort_of(pv.kind)))
        for j, inv in enumerate(lc["invariant"]): self.emit(st, "inv_init", self.spec(st, inv), s.lineno, f"[loop{o}.{j}]")
        names, arrays = self.modified(s.body)
        h = st.fork(); c = self.fc(cname, I); h.env[cname] = Val("int", c)
        for g in lc.get("ghost_modified", []): names.add(g)
        for nme in sorted(names):
            v = h.env.get(nme)
            if v is not None and v.kind in ("int", "float", "bool", "opaque"): h.env[nme] = Val(v.kind, self.fc(nme, sort_of(v.kind)))
        for nm in lc.get("appended_lists", []):
            v = h.env[nm]; u = next(self.fresh)
            n_ = z3.Int(f"nchunks_{nm}!{u}"); ln_ = z3.Function(f"clen_{nm}!{u}", I, I); ch_ = z3.Function(f"chunk_{nm}!{u}", I, z3.ArraySort(I, sort_of(v.elem)))
            c_ = z3.Int(f"c?{next(self.fresh)}"); h.pc.append(n_ >= 0); h.pc.append(z3.ForAll([c_], ln_(c_) >= 0, patterns=[ln_(c_)]))
            h.env[nm] = Val("chunks", z=n_, items=(ln_,), term=ch_, elem=v.elem, dtype=v.dtype)
        inplace = {nm for nm in getattr(self, "_aug_names", set()) if nm in h.env and h.env[nm].kind == "arr" and h.env[nm].ref is not None}
        arrays = set(arrays) | inplace
        done_refs = set()
        for a in sorted(set(arrays) | set(lc.get("ghost_arrays", []))):
            v = h.env.get(a)
            if v is None and a.isidentifier(): continue          # an array born inside the body in every iteration (np.full(...) there): nothing of it lives across iterations
            if v is None or v.kind != "arr" or v.ref is None: raise Unsupported(f"store to non-heap array {a}")
            if v.ref in done_refs: continue
            done_refs.add(v.ref)
            h.heap.arr[v.ref] = self.fc(a, h.heap.arr[v.ref].sort())
        h.pc.append(z3.And(c >= 0, c <= n_iter))
        # array-valued locals that are re-assigned inside the loop and live across iterations (arr = arr_list[arr_num]): the contract names what they are
        # bound to at every loop head ("rebind"); it is checked on entry and at every loop end, and anything else is refused
        rebind = lc.get("rebind", {})
        for nme in sorted(self.assigned_names(s.body) - self.plain_aug_only(s.body)):
            v = st.env.get(nme)
            if v is not None and v.kind in ("arr", "chunks") and nme not in rebind:
                # the local is bound to a NEW array in every iteration (combined = reduce_array_pair(combined, ...)): at the loop head it is an arbitrary array the
                # invariant describes. Sound only if nothing is written through the name inside the loop (a fresh reference cannot model aliasing with in-place writes).
                if v.kind != "arr" or v.ndim != 1 or nme in arrays or not lc.get("havoc_arrays") or nme not in lc["havoc_arrays"]:
                    raise Unsupported(f"array-valued local {nme!r} is re-assigned inside loop {o} and live across iterations: needs a 'rebind' or 'havoc_arrays' clause (and no store through it)")
                ln = self.fc(f"len_{nme}", I); h.pc.append(ln >= 0)
                ref = h.heap.new(v.elem, v.dtype, (ln,), None, nme); h.env[nme] = Val("arr", ref=ref, elem=v.elem, dtype=v.dtype)
        for nme, expr in rebind.items():
            self.emit(st, "rebind", self.same_view(st.env[nme], self.ev_spec_val(st, expr)), s.lineno, f"[loop{o}.{nme}.init]")
        for nme, expr in rebind.items(): h.env[nme] = self.ev_spec_val(h, expr)
        for j, inv in enumerate(lc["invariant"]):
            g = self.spec(h, inv); h.pc.append(g)
            # "self_only": {j: [(loop, idx), ...]} - conjunct j (typically "the outputs written so far are right") is a hypothesis only for the preservation of
            # the listed conjuncts; every other kind of obligation (bounds, post, lemma ...) still sees it. Dropping hypotheses is always sound.
            if j in lc.get("self_only", {}): self.scope_of[g.get_id()] = set(lc["self_only"][j])
        b = h.fork(); b.pc.append(c < n_iter); b.path += f"/L{o}:"
        self.assign(b, s.target, bind(b, c), s.lineno)
        for hint in lc.get("unfold", []): b.pc.append(self.spec(b, hint))
        self.scoped = [(self.spec(b, hint), set(idxs), o) for hint, idxs in lc.get("unfold_scoped", [])]
        for j, lem in enumerate(lc.get("lemmas", [])):
            g = self.spec(b, lem); self.emit(b, "lemma", g, s.lineno, f"[loop{o}.{j}]"); b.pc.append(g)
        outs, exits = [], []
        is_prange = isinstance(s.iter, ast.Call) and ast.unparse(s.iter.func) == "nb.prange" and getattr(self, "prange", None) is None and isinstance(s.target, ast.Name)
        if is_prange:
            written = set()
            for a in arrays:
                v = h.env.get(a)
                if v is not None and v.kind == "arr" and v.ref is not None: written.add(v.ref)
            self.prange = {"var": s.target.id, "refs_at_head": set(h.heap.arr.keys()), "written_refs": written}
        try: body_outs = self.run_block(b, s.body)
        finally:
            if is_prange: self.prange = None
        for kind, e_st, val in body_outs:
            if kind in ("normal", "continue"):
                for nme in sorted(names):
                    v0, v1 = h.env.get(nme), e_st.env.get(nme)
                    if v0 is not None and v1 is not None and v0.kind != v1.kind and {v0.kind, v1.kind} <= {"int", "float", "bool"}:
                        raise Unsupported(f"local {nme!r} changes kind {v0.kind}->{v1.kind} inside loop {o}: numba unifies it; declare it in the contract's var_types")
                e_st.env[cname] = Val("int", c + 1)
                for nme, expr in rebind.items():
                    self.emit(e_st, "rebind", self.same_view(e_st.env[nme], self.ev_spec_val(e_st, expr)), s.lineno, f"[loop{o}.{nme}]")
                for code in lc.get("ghost_at_end", []): self.run_ghost(e_st, code)
                for j, inv in enumerate(lc["invariant"]): self.emit(e_st, "inv_pres", self.spec(e_st, inv), s.lineno, f"[loop{o}.{j}]")
            elif kind == "break": exits.append(("normal", e_st, None))
            else: outs.append((kind, e_st, val))
        x = h.fork(); x.pc.append(c == n_iter); x.path += f"/X{o}"
        if s.orelse: raise Unsupported("for-else")
        return outs + exits + [("normal", x, None)]

    def ex_While(self, st, s):
        o = self.loop_ord[id(s)]; lc = self.contract.get("loops", {}).get(o)
        if self.bmc:
            cur = [st]; outs = []
            for _fuel in range(10):
                nxt = []
                for s_ in cur:
                    g = z3.simplify(self.truthy(self.ev(s_, s.test)))
                    if not z3.is_true(g):
                        x_ = s_.fork(); x_.pc.append(z3.Not(g))
                        if z3.is_false(g) or self.feasible(x_): outs.append(("normal", x_, None))
                    if not z3.is_false(g):
                        b_ = s_.fork(); b_.pc.append(g)
                        if z3.is_true(g) or self.feasible(b_):
                            for kind, e_st, val in self.run_block(b_, s.body):
                                if kind in ("normal", "continue"): nxt.append(e_st)
                                elif kind == "break": outs.append(("normal", e_st, None))
                                else: outs.append((kind, e_st, val))
                cur = nxt
                if not cur: break
            return outs          # paths that need more than the fuel are dropped: the search is bounded anyway
        if lc is None: raise Stale(f"no contract for while loop {o}")
        if lc.get("iter") and lc["iter"] != ast.unparse(s.test): raise Stale(f"while loop {o} tests {ast.unparse(s.test)!r}, contract says {lc['iter']!r}")
        for j, inv in enumerate(lc["invariant"]): self.emit(st, "inv_init", self.spec(st, inv), s.lineno, f"[loop{o}.{j}]")
        names, arrays = self.modified(s.body); h = st.fork()
        for nme in sorted(names):
            v = h.env.get(nme)
            if v is not None and v.kind in ("int", "float", "bool", "opaque"): h.env[nme] = Val(v.kind, self.fc(nme, sort_of(v.kind)))
        done_refs = set()
        for a in sorted(arrays):
            v = h.env.get(a)
            if v is None or v.kind != "arr" or v.ref is None: raise Unsupported(f"store to non-heap array {a}")
            if v.ref in done_refs: continue
            done_refs.add(v.ref); h.heap.arr[v.ref] = self.fc(a, h.heap.arr[v.ref].sort())
        rebind = lc.get("rebind", {})
        for nme in sorted(self.assigned_names(s.body)):
            v = st.env.get(nme)
            if v is not None and v.kind in ("arr", "chunks") and nme not in rebind:
                raise Unsupported(f"array-valued local {nme!r} is re-assigned inside while loop {o} and live across iterations: needs a 'rebind' clause")
        for nme, expr in rebind.items():
            self.emit(st, "rebind", self.same_view(st.env[nme], self.ev_spec_val(st, expr)), s.lineno, f"[loop{o}.{nme}.init]")
            h.env[nme] = self.ev_spec_val(h, expr)
        for inv in lc["invariant"]: h.pc.append(self.spec(h, inv))
        # guard evaluated at loop head (its obligations are emitted there)
        gst = h.fork(); gst.path += f"/G{o}"; g = self.truthy(self.ev(gst, s.test))
        b = h.fork(); b.pc.append(g); b.path += f"/L{o}:"
        dec0 = self.ev_spec_term(b, lc["decreases"])
        outs, exits = [], []
        if self.feasible(b):
            for kind, e_st, val in self.run_block(b, s.body):
                if kind in ("normal", "continue"):
                    for nme in sorted(names):
                        v0, v1 = h.env.get(nme), e_st.env.get(nme)
                        if v0 is not None and v1 is not None and v0.kind != v1.kind and {v0.kind, v1.kind} <= {"int", "float", "bool"}:
                            raise Unsupported(f"local {nme!r} changes kind {v0.kind}->{v1.kind} inside while loop {o}: declare it in the contract's var_types")
                    for nme, expr in rebind.items():
                        self.emit(e_st, "rebind", self.same_view(e_st.env[nme], self.ev_spec_val(e_st, expr)), s.lineno, f"[loop{o}.{nme}]")
                    for j, inv in enumerate(lc["invariant"]): self.emit(e_st, "inv_pres", self.spec(e_st, inv), s.lineno, f"[loop{o}.{j}]")
                    d1 = self.ev_spec_term(e_st, lc["decreases"])
                    self.emit(e_st, "decreases", z3.And(dec0 >= 0, d1 < dec0), s.lineno, f"[loop{o}]")
                elif kind == "break": exits.append(("normal", e_st, None))
                else: outs.append((kind, e_st, val))
        x = h.fork(); x.pc.append(z3.Not(g)); x.path += f"/X{o}"
        return outs + exits + [("normal", x, None)]

    def ev_spec_val(self, st, text):
        saved = self.in_spec; self.in_spec = True
        try: return self.ev(st, ast.parse(text, mode="eval").body)
        finally: self.in_spec = saved

    def same_view(self, a, b):
        if a.kind != "arr" or b.kind != "arr": raise Unsupported("rebind of a non-array")
        if a.cidx is not None and b.cidx is not None: return a.cidx == b.cidx
        if a.ref is not None and a.ref == b.ref and a.off is None and b.off is None and a.row is None and b.row is None: return z3.BoolVal(True)
        raise Unsupported("rebind: views are not comparable")

    def plain_aug_only(self, body):
        """names that are only ever updated with `name += ...` in the body (for arrays: NumPy's in-place update of the same object, not a re-binding)"""
        aug, asg = set(), set()
        for n in ast.walk(ast.Module(body=body, type_ignores=[])):
            if isinstance(n, ast.AugAssign) and isinstance(n.target, ast.Name) and isinstance(n.op, ast.Add): aug.add(n.target.id)
            elif isinstance(n, ast.AugAssign) and isinstance(n.target, ast.Name): asg.add(n.target.id)
            elif isinstance(n, ast.Assign):
                for t in n.targets:
                    for x in ([t] if isinstance(t, ast.Name) else (t.elts if isinstance(t, ast.Tuple) else [])):
                        if isinstance(x, ast.Name): asg.add(x.id)
        return aug - asg

    def assigned_names(self, body):
        out = set()
        for n in ast.walk(ast.Module(body=body, type_ignores=[])):
            if isinstance(n, (ast.Assign, ast.AugAssign)):
                for t in (n.targets if isinstance(n, ast.Assign) else [n.target]):
                    for x in ([t] if isinstance(t, ast.Name) else (t.elts if isinstance(t, ast.Tuple) else [])):
                        if isinstance(x, ast.Name): out.add(x.id)
        return out

    def ev_spec_term(self, st, text):
        saved = self.in_spec; self.in_spec = True
        try: return self.ev(st, ast.parse(text, mode="eval").body).z
        finally: self.in_spec = saved

    # ------------------------------------------------------------------ driver
    def verify(self, inst):
        st = self.init_state(inst)
        return self.verify_from(st)

    def init_state(self, inst):
        st = State({}, Heap(), []); self.frozen = {}
        for a in self.fn.args.args: st.env[a.arg] = self.mk_param(st, a.arg, inst[a.arg])
        for gname, gtype in self.contract.get("ghost_params", {}).items():
            st.env[gname] = Val(gtype, z3.Const(gname, sort_of(gtype)))
        for gname, (gtype, ginit) in self.contract.get("ghost", {}).items():
            self.ghost_names.add(gname)
            if gtype.startswith("arr"):
                _, elem, *dims = gtype.split(":")
                shape = [self.ev_spec_term(st, d) for d in dims]
                ref = st.heap.new(elem, "ghost", shape, None, gname, ghost=True)
                st.env[gname] = Val("arr", ref=ref, elem=elem, dtype="ghost", ndim=len(shape))
            else:
                st.env[gname] = Val(gtype, self.ev_spec_term(st, ginit))
        self.entry_heap = st.heap.copy(); self.entry_env = dict(st.env)
        for p in self.contract.get("frozen", []):
            if st.env[p].kind == "arr": self.frozen[st.env[p].ref] = p
        for r in self.contract.get("requires", []): st.pc.append(self.spec(st, r))
        return st

    def verify_from(self, st):
        s = z3.Solver(); s.set(timeout=5000); s.add(*st.pc)
        self.pre_sat = str(s.check())
        try: outcomes = list(self.run_block(st, self.fn.body))
        except ElemTypeMismatch:
            return [o for o in self.obls if o.kind == "alloc_elem"]
        for kind, o, val in outcomes:
            if kind in ("normal", "return"):
                rv = val if kind == "return" else Val("none"); extra = {"result": rv}
                if rv.kind == "tuple":
                    for i_, it in enumerate(rv.items): extra[f"result{i_}"] = it
                for j, p in enumerate(self.contract.get("ensures", [])):
                    ob = self.emit(o, "post", self.spec(o, p, extra), self.fn.lineno, f"[{j}]")
                    if ob is not None: ob.rv = rv; ob.outcome = "return"
            elif kind == "raise":
                rc = self.contract.get("raises"); ob = self.emit(o, "raises", self.spec(o, rc) if rc else z3.BoolVal(False), self.fn.lineno, f"[{val}]")
                if ob is not None: ob.outcome = "raise"
            else: raise Unsupported(f"{kind} outside a loop")
        return self.obls

    def mk_param(self, st, name, t):
        if isinstance(t, dict):      # an object read only through its attributes (self, a slice): one symbolic value per attribute named by the instantiation
            return Val("struct", items={k: self.mk_param(st, f"{name}.{k}", v) for k, v in t.items()}, name=name)
        if t == "none": return Val("none")
        if t in ("int", "float", "bool", "opaque"): return Val(t, z3.Const(name, sort_of(t)))
        if t.startswith("const:"):
            v = t.split(":")[1]; return Val("bool", z3.BoolVal(v == "True")) if v in ("True", "False") else Val("int", z3.IntVal(int(v)))
        if t.startswith("arr:") or t.startswith("arr2:"):
            tag, elem, dtype, *conc = t.split(":"); nd = 2 if tag == "arr2" else 1
            shape = [z3.IntVal(int(conc[d])) if conc else z3.Int(f"len{d}_{name}") for d in range(nd)]
            for d in shape: st.pc.append(d >= 0)
            ref = st.heap.new(elem, dtype, shape, None, name)
            return Val("arr", ref=ref, elem=elem, dtype=dtype, ndim=nd)
        if t.startswith("chunks:") and t.count(":") == 3:
            _, elem, dtype, lens = t.split(":"); lens = [int(x) for x in lens.split(",") if x != ""]
            ch = z3.Function(f"chunk_{name}", I, z3.ArraySort(I, sort_of(elem)))
            def ln(c, lens=lens):
                e_ = z3.IntVal(0)
                for k_ in reversed(range(len(lens))): e_ = z3.If(c == k_, z3.IntVal(lens[k_]), e_)
                return z3.simplify(e_)
            self.specs[f"clen_{name}"] = ln; self.specs[f"chunk_{name}"] = ch
            return Val("chunks", z=z3.IntVal(len(lens)), items=(ln,), term=ch, elem=elem, dtype=dtype)
        if t.startswith("chunks:"):
            _, elem, dtype = t.split(":")
            n = z3.Int(f"nchunks_{name}"); ln = z3.Function(f"clen_{name}", I, I); ch = z3.Function(f"chunk_{name}", I, z3.ArraySort(I, sort_of(elem)))
            c = z3.Int("c?p"); st.pc.append(n >= 0); st.pc.append(z3.ForAll([c], ln(c) >= 0))
            self.specs[f"clen_{name}"] = ln; self.specs[f"chunk_{name}"] = ch
            return Val("chunks", z=n, items=(ln,), term=ch, elem=elem, dtype=dtype)
        if t.startswith("step:"): return Val("func", name=t.split(":")[1])
        if t.startswith("bin:"): return Val("func2", name=t.split(":")[1])
        raise Unsupported(f"param type {t}")


def discharge(obls, timeout=30000, verbose=1, label=""):
    res = []
    for o in obls:
        s = z3.Solver(); s.set(timeout=timeout); s.add(*o.hyps); s.add(z3.Not(o.goal))
        t = time.time(); r = str(s.check()); dt = time.time() - t; res.append((o, r, dt))
        if verbose > 1 or (verbose == 1 and r != "unsat"): print(f"   {'ok  ' if r == 'unsat' else 'FAIL'} {o.name:74s} {r} {dt*1000:.0f}ms")
    ok = sum(1 for _, r, _ in res if r == "unsat")
    print(f" {label}: discharged {ok}/{len(res)} in {sum(d for *_, d in res):.2f}s")
    return res


# ----------------------------------------------------------------------------- parallel discharge through SMT-LIB text
def _solve_text(args):
    name, text, timeout = args
    import z3 as _z3, time as _t
    s = _z3.Solver(); s.set(timeout=timeout); s.from_string(text)
    t = _t.time(); r = str(s.check()); return name, r, _t.time() - t


def discharge_parallel(obls, timeout=30000, procs=16, label="", only=None):
    import multiprocessing as mp
    jobs = []
    for o in obls:
        if only and not any(x in o.name for x in only): continue
        s = z3.Solver(); s.add(*o.hyps); s.add(z3.Not(o.goal)); jobs.append((o.name, s.to_smt2(), timeout))
    t = time.time()
    with mp.Pool(procs) as pool: res = pool.map(_solve_text, jobs, chunksize=1)
    ok = sum(1 for _, r, _ in res if r == "unsat")
    for name, r, dt in res:
        if r != "unsat": print(f"   FAIL {name:74s} {r} {dt:.1f}s")
    print(f" {label}: discharged {ok}/{len(res)} wall {time.time()-t:.1f}s (cpu {sum(d for *_, d in res):.1f}s)")
    return res
