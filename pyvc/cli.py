"""python3-vt -m pyvc.cli [--repo /repo] [--props C04 ...] [--only substr ...] [--timeout ms] [--both] [--json out.json] [--quiet]"""
import sys, os, json, argparse, time
sys.path.insert(0, os.path.dirname(os.path.dirname(os.path.abspath(__file__))))
from pyvc import registry

MODULES = ["contracts.kernels", "contracts.lemmas"]


def main():
    ap = argparse.ArgumentParser(); ap.add_argument("--repo", default="/repo"); ap.add_argument("--only", nargs="*"); ap.add_argument("--props", nargs="*")
    ap.add_argument("--timeout", type=int, default=30000); ap.add_argument("--both", action="store_true"); ap.add_argument("--procs", type=int, default=16)
    ap.add_argument("--json"); ap.add_argument("--modules", nargs="*", default=MODULES); ap.add_argument("--quiet", action="store_true"); ap.add_argument("--no-lemmas", action="store_true"); ap.add_argument("--tier", default="thorough")
    a = ap.parse_args(); t = time.time()
    rep = registry.run_all(a.repo, a.modules, a.only, a.props, a.timeout, procs=a.procs, both=a.both, lemmas=not a.no_lemmas, tier=a.tier)
    if not a.quiet:
        for f in rep["functions"]:
            status = "STALE " + f["stale"] if "stale" in f else ("UNSUPPORTED " + f["unsupported"] if "unsupported" in f else f"{f['discharged']}/{f['obligations']}")
            print(f"{f['function']:96s} {status:>10s}  sha={f.get('sha','-')} gen={f.get('gen_s','-')}s solve={f.get('solver_s','-')}s" + (f" VACUOUS-GROUPS {f['vacuous_groups']}" if f.get("vacuous_groups") else "") + (f" late-pruned paths {len(f['vacuous_paths'])}" if f.get("vacuous_paths") else ""))
            for r in f.get("failed", [])[:8]: print(f"      FAIL {r['name']}  {r['result']} {r['solver_s']}s (L{r['line']}) attempts={r['attempts']}")
            if "traceback" in f: print(f["traceback"])
        for lm in rep["lemmas"]:
            bad = [r for r in lm["rows"] if r["result"] != "unsat"]
            print(f"lemma {lm['lemma']:30s} {len(lm['rows']) - len(bad)}/{len(lm['rows'])}" + "".join(f"\n      FAIL {r['name']} {r['result']}" for r in bad))
    nl = sum(len(lm["rows"]) for lm in rep["lemmas"]); okl = sum(1 for lm in rep["lemmas"] for r in lm["rows"] if r["result"] == "unsat")
    print(f"TOTAL {rep['discharged']}/{rep['obligations']} obligations, lemmas {okl}/{nl}, by backend {rep['by_backend']}, generate {rep['wall_generate_s']}s, discharge {rep['wall_discharge_s']}s, wall {time.time()-t:.1f}s")
    if a.json: json.dump(rep, open(a.json, "w"), indent=1)


if __name__ == "__main__":
    main()
