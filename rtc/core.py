"""Run-time contract tier (RTC, the *bounded* stand-in) — shared harness.

- hygiene(rank): private numba cache dir per worker rank + tolerant cache writes (DESIGN section 4)
- Session: sidecar contract wrappers on the REAL functions (monkeypatch incl. earlier-bound references), evaluation counters,
  findings collected (never raised inside library code)
- run_sharded(): process pool over a deterministic case enumeration (worker i takes cases with index % n == i) under a time budget
- props modules implement: PROP, cases(tier, seed), check_case(sess, case) -> number of public calls, nontrivial(case), install(sess),
  SCOPE (dict tier -> text), RULE, ASSUMPTIONS, REQUIRED_CONTRACTS; optional extra_cases(tier, seed) (size-boundary cases), random_case(rnd, tier)
"""
import os, sys, json, time, hashlib, importlib, collections, multiprocessing as mp, traceback, random, re

ROOT = os.path.dirname(os.path.dirname(os.path.abspath(__file__)))
REPO = os.environ.get("VERIF_REPO", "/repo")


def cache_key():
    """numba invalidates a cached kernel when the FILE THAT DEFINES IT changes, not when a function it calls from another file does (documented limitation): an edit of
    util.py (is_null, _get_first_non_null, NumbaReductionOps: compiled INTO the kernels of numba.py / nanops.py / factorization.py) would be masked by a warm cache.
    The cache directory is therefore keyed by the content of the modules whose jitted functions are called across files; a tree that differs there starts cold."""
    h = hashlib.sha1()
    for rel in ("groupby_lib/util.py", "groupby_lib/nanops.py"):
        try: h.update(open(os.path.join(REPO, rel), "rb").read())
        except OSError: h.update(b"?")
    return h.hexdigest()[:10]


def cache_root(): return os.path.join(ROOT, ".cache", "numba", cache_key())


def source_stamp():
    """sha of every source file of the package + where it lives: numba's on-disk cache is per file path and per file content, so compiled kernels exist only for this"""
    out = {"repo": os.path.realpath(REPO)}
    for dp, dn, fn in sorted(os.walk(os.path.join(REPO, "groupby_lib"))):
        dn[:] = sorted(d for d in dn if d != "__pycache__")
        for f in sorted(fn):
            if f.endswith(".py"): out[os.path.relpath(os.path.join(dp, f), REPO)] = hashlib.sha1(open(os.path.join(dp, f), "rb").read()).hexdigest()[:12]
    return out


def write_warm_stamp():
    os.makedirs(cache_root(), exist_ok=True); json.dump(source_stamp(), open(os.path.join(cache_root(), "warm_stamp.json"), "w"))


def prune_cache(keep=3):
    """disk hygiene: every tree that differs in util.py / nanops.py gets its own cache directory (16 ranks of compiled kernels, ~1 GB); keep the current one and the most
    recently used few, remove the rest"""
    import shutil
    root = os.path.join(ROOT, ".cache", "numba"); cur = cache_key()
    # never the directory warmed by setup (it holds warm_stamp.json): the unchanged tree must stay warm whatever other trees were checked in between
    try: ds = [d for d in os.listdir(root) if os.path.isdir(os.path.join(root, d)) and len(d) == 10 and all(ch in "0123456789abcdef" for ch in d) and d != cur
               and not os.path.exists(os.path.join(root, d, "warm_stamp.json"))]
    except OSError: return
    ds.sort(key=lambda d: os.path.getmtime(os.path.join(root, d)), reverse=True)
    for d in ds[keep:]: shutil.rmtree(os.path.join(root, d), ignore_errors=True)


def cache_is_cold():
    """True when (some of) the kernels of the tree under test have to be compiled first: no cache at all, or the tree is not the one the caches were warmed for (another
    location, or a source file changed - numba then recompiles every kernel of that file in every worker)"""
    d = os.path.join(cache_root(), "r0")
    if not (os.path.isdir(d) and any(f.endswith(".nbi") for _, _, fs in os.walk(d) for f in fs)): return True
    try: return json.load(open(os.path.join(cache_root(), "warm_stamp.json"))) != source_stamp()
    except Exception: return True


def hygiene(rank=0):
    os.environ["NUMBA_CACHE_DIR"] = os.path.join(cache_root(), f"r{rank}")
    os.makedirs(os.environ["NUMBA_CACHE_DIR"], exist_ok=True)
    try: os.utime(cache_root())          # "recently used" for prune_cache
    except OSError: pass
    os.environ.setdefault("GROUPBY_LIB_VERIF", "1")
    os.environ.setdefault("NUMBA_NUM_THREADS", "2")      # 16 worker processes x numba's default 16 prange threads oversubscribes the machine 16-fold
    if REPO not in sys.path: sys.path.insert(0, REPO)
    import warnings; warnings.filterwarnings("ignore")
    import numba.core.caching as c
    if not getattr(c.Cache.save_overload, "_tolerant", False):
        orig = c.Cache.save_overload
        def save(self, sig, data):
            try: orig(self, sig, data)
            except Exception: pass
        save._tolerant = True
        c.Cache.save_overload = save


class Finding(dict):
    """keys: property, kind (pre|post|frame|raises|oracle|crash), function, clause, case (JSON-able), detail"""
    def signature(self):
        return (self["property"], self["kind"], self["function"], self["clause"])
    def size(self):
        return len(json.dumps(self["case"], sort_keys=True, default=str))


class Session:
    def __init__(self, prop):
        self.prop = prop
        self.evals = collections.Counter()
        self.findings = {}          # (signature, known-entry index or None) -> smallest finding
        self.nfindings = collections.Counter()
        self.current_case = None
        self._undo = []
        self.known = [e for e in load_known() if e.get("status") == "known" and e.get("tier", "B") == "B"]

    # -- contract wrappers -------------------------------------------------
    def wrap(self, modname, qualname, requires=None, ensures=None, also=(), snapshot=None):
        """replace modname.qualname by a monitoring wrapper; `also` lists (module, attr) pairs that hold an earlier-bound reference.
        requires(*a, **k) -> message or None; snapshot(*a, **k) -> old-state object; ensures(out, old, *a, **k) if snapshot else ensures(out, *a, **k)"""
        mod = importlib.import_module(modname)
        owner, attr = mod, qualname
        if "." in qualname:
            cls, attr = qualname.split(".", 1); owner = getattr(mod, cls)
        real = owner.__dict__[attr] if isinstance(owner, type) else getattr(owner, attr)
        is_static = isinstance(real, staticmethod); is_class = isinstance(real, classmethod)
        fn = real.__func__ if (is_static or is_class) else real
        name = f"{modname.split('.')[-1]}.{qualname}"
        sess = self
        def wrapper(*a, **k):
            sess.evals[name] += 1
            if requires is not None:
                try: msg = requires(*a, **k)
                except Exception as ex: msg = f"requires raised {type(ex).__name__}: {ex}"
                if msg: sess.record("pre", name, msg, None)
            old = None
            if snapshot is not None:
                try: old = snapshot(*a, **k)
                except Exception as ex: old = None
            out = fn(*a, **k)
            if ensures is not None:
                try: msg = ensures(out, old, *a, **k) if snapshot is not None else ensures(out, *a, **k)
                except Exception as ex: msg = f"ensures raised {type(ex).__name__}: {ex}"
                if msg: sess.record("post", name, msg, None)
            return out
        wrapper.__wrapped__ = fn; wrapper.__name__ = getattr(fn, "__name__", attr); wrapper.__doc__ = getattr(fn, "__doc__", None)
        for a_ in ("py_func", "__nb_func__", "__signature__"):
            if hasattr(fn, a_):
                try: setattr(wrapper, a_, getattr(fn, a_))
                except Exception: pass
        new = staticmethod(wrapper) if is_static else (classmethod(wrapper) if is_class else wrapper)
        setattr(owner, attr, new); self._undo.append((owner, attr, real))
        for m2, a2 in also:
            o2 = importlib.import_module(m2)
            if getattr(o2, a2, None) is fn or getattr(o2, a2, None) is real:
                setattr(o2, a2, wrapper); self._undo.append((o2, a2, real))
        return wrapper

    def unwrap_all(self):
        for owner, attr, real in reversed(self._undo): setattr(owner, attr, real)
        self._undo.clear()

    # -- findings ----------------------------------------------------------
    def record(self, kind, function, clause, detail, case=None):
        f = Finding(property=self.prop, kind=kind, function=function, clause=str(clause)[:240], detail=detail,
                    case=case if case is not None else self.current_case)
        ki = next((i for i, e in enumerate(self.known) if matches(e, f)), None)     # keep new and known findings apart: a known one must never shadow a new one
        sig = (f.signature(), ki); self.nfindings[json.dumps([list(f.signature()), ki])] += 1
        if sig not in self.findings or f.size() < self.findings[sig].size(): self.findings[sig] = f

    def export(self):
        return {"evals": dict(self.evals), "findings": [dict(f) for f in self.findings.values()], "nfindings": dict(self.nfindings)}


# ----------------------------------------------------------------------------- sharded driver
def canon(case): return hashlib.sha1(json.dumps(case, sort_keys=True, default=str).encode()).hexdigest()


def generic_worker(mod, rank, nprocs, tier, seed, budget):
    sess = Session(mod.PROP); mod.install(sess)
    t0 = time.time(); ncase = calls = 0; samples = []; complete = True; seen_nt = set()
    crumb = open(_crumb_path(f"props.{mod.PROP.lower()}", rank), "w")
    def run(case):
        nonlocal ncase, calls
        ncase += 1; sess.current_case = case
        crumb.seek(0); crumb.truncate(); crumb.write(json.dumps(case, default=str)); crumb.flush()      # breadcrumb: if the interpreter dies in this case the parent reports it
        try: calls += mod.check_case(sess, case)
        except Exception as ex:
            sess.record("crash", "harness", f"check_case raised {type(ex).__name__}", traceback.format_exc()[-800:], case)
        if mod.nontrivial(case):
            seen_nt.add(canon(case))
            if len(samples) < 3 and (ncase % 7 == 1): samples.append(case)
    extra = list(mod.extra_cases(tier, seed)) if hasattr(mod, "extra_cases") else []
    for i, case in enumerate(extra):                 # size-boundary / designed cases first: they must never be cut by the time cap
        if i % nprocs == rank: run(case)
    main_budget = budget * (0.85 if hasattr(mod, "random_case") else 1.0)
    for i, case in enumerate(mod.cases(tier, seed)):
        if i % nprocs != rank: continue
        if time.time() - t0 > main_budget: complete = False; break
        run(case)
    if hasattr(mod, "random_case"):
        rnd = random.Random(seed * 1000003 + rank); tl = time.time(); lim = max(2.0, budget - (time.time() - t0)) if complete else budget * 0.15
        while time.time() - tl < min(lim, budget * 0.3):
            run(mod.random_case(rnd, tier))
    out = sess.export(); out.update(cases=ncase, calls=calls, nontrivial_hashes=sorted(seen_nt)[:200000], n_nontrivial=len(seen_nt), samples=samples, complete=complete, wall=time.time() - t0)
    return out


def _crumb_path(modname, rank): return os.path.join(ROOT, "work", "crumbs", f"{modname}.{rank}.json")


def _worker_main(modname, rank, nprocs, tier, seed, budget, outpath):
    """one shard = one OS process: a crash of the real code (segfault in a numba kernel) kills only this process and is reported with the case it was running"""
    try:
        hygiene(rank)
        mod = importlib.import_module(modname)
        res = mod.worker(rank, nprocs, tier, seed, budget) if hasattr(mod, "worker") else generic_worker(mod, rank, nprocs, tier, seed, budget)
    except Exception:
        res = {"crash": traceback.format_exc(), "rank": rank}
    tmp = outpath + ".tmp"
    json.dump(res, open(tmp, "w"), default=str); os.replace(tmp, outpath)


def run_sharded(modname, tier, seed, budget, nprocs=None):
    nprocs = nprocs or min(16, os.cpu_count() or 1)
    ctx = mp.get_context("spawn")
    os.makedirs(os.path.join(ROOT, "work", "crumbs"), exist_ok=True); os.makedirs(os.path.join(ROOT, "work", "results"), exist_ok=True)
    procs = []
    for r in range(nprocs):
        out = os.path.join(ROOT, "work", "results", f"{modname}.{r}.json")
        for pth in (out, _crumb_path(modname, r)):
            try: os.unlink(pth)
            except OSError: pass
        pr = ctx.Process(target=_worker_main, args=(modname, r, nprocs, tier, seed, budget, out)); pr.start(); procs.append((r, pr, out))
    deadline = time.time() + budget * 3 + 600
    parts = []
    for r, pr, out in procs:
        pr.join(max(1.0, deadline - time.time()))
        if pr.is_alive():
            pr.kill(); pr.join(5); parts.append({"crash": f"worker {r} exceeded {budget * 3 + 600:.0f} s and was killed (harness fault, not a finding)", "rank": r}); continue
        if os.path.exists(out):
            parts.append(json.load(open(out))); continue
        # the process died without a result: the interpreter itself crashed inside the code under test
        crumb = None
        try: crumb = json.load(open(_crumb_path(modname, r)))
        except Exception: pass
        prop = modname.split(".")[-1].upper()
        f = {"property": prop, "kind": "segfault", "function": "process", "clause": f"the real code must not crash the interpreter (worker exit code {pr.exitcode}: memory-unsafe access in a compiled kernel)",
             "detail": f"exit code {pr.exitcode}", "case": crumb}
        parts.append({"evals": {}, "findings": [f], "nfindings": {}, "cases": 0, "calls": 0, "nontrivial_hashes": [], "n_nontrivial": 0, "samples": [], "complete": False, "hard_crash": True})
    merged = {"evals": collections.Counter(), "findings": {}, "nfindings": collections.Counter(), "cases": 0, "calls": 0,
              "distinct_nontrivial": 0, "samples": [], "complete": True, "crashes": []}
    nt = set(); nt_count = 0
    for p in parts:
        if "crash" in p: merged["crashes"].append(p["crash"]); continue
        merged["evals"].update(p["evals"]); merged["cases"] += p["cases"]; merged["calls"] += p["calls"]
        merged["complete"] &= p["complete"]; merged["samples"] += p["samples"][:2]
        nt.update(p["nontrivial_hashes"]); nt_count += p["n_nontrivial"]
        for k, v in p["nfindings"].items(): merged["nfindings"][k] += v
        for f in p["findings"]:
            f = Finding(f); sig = f.signature()
            key = (sig, next((i for i, e in enumerate(_known_b()) if matches(e, f)), None))
            if key not in merged["findings"] or f.size() < merged["findings"][key].size(): merged["findings"][key] = f
    # shards are disjoint by construction (index % nprocs); the hash sets are merged to count DISTINCT cases across shards and the random tail
    merged["distinct_nontrivial"] = len(nt)      # conservative: per-worker hash lists are capped at 200k
    return merged


# ----------------------------------------------------------------------------- known findings
_KNOWN = None
def load_known():
    global _KNOWN
    if _KNOWN is None:
        path = os.path.join(ROOT, "known_findings.json")
        _KNOWN = json.load(open(path)) if os.path.exists(path) else []
    return _KNOWN


def _known_b(): return [e for e in load_known() if e.get("status") == "known" and e.get("tier", "B") == "B"]


def matches(entry, f):
    if entry.get("status") != "known" or entry["property"] != f["property"]: return False
    m = entry["match"]
    for k in ("kind", "function", "clause"):
        if k in m and not str(f.get(k, "")).startswith(m[k]): return False
        if k + "_re" in m and not re.search(m[k + "_re"], str(f.get(k, ""))): return False
    return _predicate(m.get("case_predicate"), f["case"])


def _predicate(pred, case):
    if not pred: return True
    try:
        return bool(eval(pred, {"__builtins__": {"len": len, "any": any, "all": all, "sorted": sorted, "set": set, "list": list, "range": range, "str": str, "isinstance": isinstance,
                                                  "dict": dict, "enumerate": enumerate, "zip": zip, "tuple": tuple, "min": min, "max": max, "abs": abs, "sum": sum, "int": int, "float": float, "bool": bool}}, {"case": case or {}}))
    except Exception:
        return False
