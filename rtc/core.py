"""SPIKE: run-time contract tier (RTC) — shared harness.

- hygiene(): private numba cache dir + tolerant cache writes (see DESIGN section 4)
- Session: sidecar contract wrappers on the REAL functions (monkeypatch incl. earlier-bound references), evaluation counters,
  findings collected (never raised inside library code)
- run_sharded(): process pool over a deterministic case enumeration (worker i takes cases with index % n == i) under a time budget
- report(): KNOWN-FINDING / VIOLATION lines, replay files, evidence JSON conforming to EVIDENCE.schema.json
"""
import os, sys, json, time, hashlib, importlib, collections, multiprocessing as mp, traceback

ROOT = os.path.dirname(os.path.dirname(os.path.abspath(__file__)))


def hygiene():
    os.environ.setdefault("NUMBA_CACHE_DIR", os.path.join(ROOT, ".cache", "numba", str(os.getpid() % 64)))
    os.makedirs(os.environ["NUMBA_CACHE_DIR"], exist_ok=True)
    import warnings; warnings.filterwarnings("ignore")
    import numba.core.caching as c
    if not getattr(c.Cache.save_overload, "_tolerant", False):
        orig = c.Cache.save_overload
        def save(self, sig, data):
            try: orig(self, sig, data)
            except Exception: pass
        save._tolerant = True
        c.Cache.save_overload = save


class Finding(dict):
    """keys: property, kind (pre|post|frame|raises|oracle|crash), function, clause, case (JSON-able), detail"""
    def signature(self):
        return (self["property"], self["kind"], self["function"], self["clause"])
    def size(self):
        return len(json.dumps(self["case"], sort_keys=True, default=str))


class Session:
    def __init__(self, prop):
        self.prop = prop
        self.evals = collections.Counter()
        self.findings = {}          # signature -> smallest finding
        self.nfindings = collections.Counter()
        self.current_case = None
        self._undo = []

    # -- contract wrappers -------------------------------------------------
    def wrap(self, modname, qualname, requires=None, ensures=None, also=()):
        """replace modname.qualname by a monitoring wrapper; `also` lists (module, attr) pairs that hold an earlier-bound reference"""
        mod = importlib.import_module(modname)
        owner, attr = mod, qualname
        if "." in qualname:
            cls, attr = qualname.split(".", 1); owner = getattr(mod, cls)
        real = owner.__dict__[attr] if isinstance(owner, type) else getattr(owner, attr)
        is_static = isinstance(real, staticmethod)
        fn = real.__func__ if is_static else real
        name = f"{modname.split('.')[-1]}.{qualname}"
        sess = self
        def wrapper(*a, **k):
            sess.evals[name] += 1
            if requires is not None:
                try: msg = requires(*a, **k)
                except Exception as ex: msg = f"requires raised {type(ex).__name__}: {ex}"
                if msg: sess.record("pre", name, msg, None)
            out = fn(*a, **k)
            if ensures is not None:
                try: msg = ensures(out, *a, **k)
                except Exception as ex: msg = f"ensures raised {type(ex).__name__}: {ex}"
                if msg: sess.record("post", name, msg, None)
            return out
        wrapper.__wrapped__ = fn; wrapper.__name__ = getattr(fn, "__name__", attr)
        for a_ in ("py_func", "__nb_func__"):
            if hasattr(fn, a_): setattr(wrapper, a_, getattr(fn, a_))
        new = staticmethod(wrapper) if is_static else wrapper
        setattr(owner, attr, new); self._undo.append((owner, attr, real))
        for m2, a2 in also:
            o2 = importlib.import_module(m2)
            if getattr(o2, a2) is fn or getattr(o2, a2) is real:
                setattr(o2, a2, wrapper); self._undo.append((o2, a2, real))
        return wrapper

    def unwrap_all(self):
        for owner, attr, real in reversed(self._undo): setattr(owner, attr, real)
        self._undo.clear()

    # -- findings ----------------------------------------------------------
    def record(self, kind, function, clause, detail, case=None):
        f = Finding(property=self.prop, kind=kind, function=function, clause=str(clause)[:200], detail=detail,
                    case=case if case is not None else self.current_case)
        sig = f.signature(); self.nfindings[sig] += 1
        if sig not in self.findings or f.size() < self.findings[sig].size(): self.findings[sig] = f

    def export(self):
        return {"evals": dict(self.evals), "findings": [dict(f) for f in self.findings.values()],
                "nfindings": {json.dumps(k): v for k, v in self.nfindings.items()}}


# ----------------------------------------------------------------------------- sharded driver
def _worker(args):
    modname, rank, nprocs, tier, seed, budget = args
    try:
        hygiene()
        mod = importlib.import_module(modname)
        return mod.worker(rank, nprocs, tier, seed, budget)
    except Exception:
        return {"crash": traceback.format_exc(), "rank": rank}


def run_sharded(modname, tier, seed, budget, nprocs=None):
    nprocs = nprocs or min(16, os.cpu_count() or 1)
    ctx = mp.get_context("spawn")
    with ctx.Pool(nprocs) as pool:
        parts = pool.map(_worker, [(modname, r, nprocs, tier, seed, budget) for r in range(nprocs)])
    merged = {"evals": collections.Counter(), "findings": {}, "nfindings": collections.Counter(), "cases": 0, "calls": 0,
              "distinct_nontrivial": 0, "samples": [], "complete": True, "crashes": [], "scope": None}
    for p in parts:
        if "crash" in p: merged["crashes"].append(p["crash"]); continue
        merged["evals"].update(p["evals"]); merged["cases"] += p["cases"]; merged["calls"] += p["calls"]
        merged["distinct_nontrivial"] += p["distinct_nontrivial"]; merged["complete"] &= p["complete"]; merged["scope"] = p.get("scope")
        merged["samples"] += p["samples"][:2]
        for k, v in p["nfindings"].items(): merged["nfindings"][k] += v
        for f in p["findings"]:
            f = Finding(f); sig = f.signature()
            if sig not in merged["findings"] or f.size() < merged["findings"][sig].size(): merged["findings"][sig] = f
    return merged


# ----------------------------------------------------------------------------- reporting
def load_known():
    path = os.path.join(ROOT, "known_findings.json")
    return json.load(open(path)) if os.path.exists(path) else []


def matches(entry, f):
    if entry.get("status") != "known" or entry["property"] != f["property"]: return False
    m = entry["match"]
    return all(str(f.get(k, "")).startswith(v) if k != "case_predicate" else True for k, v in m.items() if k in ("kind", "function", "clause")) \
        and _predicate(m.get("case_predicate"), f["case"])


def _predicate(pred, case):
    if not pred: return True
    return bool(eval(pred, {"__builtins__": {"len": len, "any": any, "all": all, "sorted": sorted, "set": set, "list": list, "range": range}}, {"case": case}))


def report(prop, tier, seed, level, merged, coverage_extra, assumptions, wall_s):
    known = load_known(); new, old = [], []
    for f in merged["findings"].values():
        (old if any(matches(e, f) for e in known) else new).append(f)
    for e in known:
        if e.get("status") == "known" and e["property"] == prop and any(matches(e, f) for f in merged["findings"].values()):
            print(f"KNOWN-FINDING: property={prop} {e['what']}")
    code = 0
    for f in new:
        h = hashlib.sha256(json.dumps(dict(f), sort_keys=True, default=str).encode()).hexdigest()[:12]
        d = os.path.join(ROOT, "replays", prop); os.makedirs(d, exist_ok=True)
        path = os.path.join(d, f"{h}.json"); json.dump(dict(f), open(path, "w"), indent=1, default=str)
        print(f"VIOLATION property={prop} replay={path}"); code = 1
    if merged["crashes"]:
        print("CHECKER FAULT:\n" + merged["crashes"][0], file=sys.stderr); code = code or 3
    cov = {"evaluations": merged["calls"], "distinct_nontrivial": merged["distinct_nontrivial"], "rule": coverage_extra.pop("rule"),
           "samples": merged["samples"][:5], "exhaustive": bool(merged["complete"]), "contract_evaluations": dict(merged["evals"]),
           "cases": merged["cases"], "scope": merged["scope"]}
    cov.update(coverage_extra)
    ev = {"property_id": prop, "tier": tier, "seed": seed, "level": level, "coverage": cov, "assumptions": assumptions,
          "wall_s": round(wall_s, 2), "violations": len(new)}
    os.makedirs(os.path.join(ROOT, "evidence"), exist_ok=True)
    json.dump(ev, open(os.path.join(ROOT, "evidence", f"{prop}.json"), "w"), indent=1, default=str)
    zero = [n for n, c in coverage_extra.get("required_contracts", {}).items() if merged["evals"].get(n, 0) == 0]
    if zero:
        print(f"CHECKER FAULT: contracts never evaluated: {zero}", file=sys.stderr); code = code or 3
    return code
