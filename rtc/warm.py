"""./check warm — compile the kernels once per worker rank so that quick checks do not spend their budget on cold JIT (cache dirs are untracked)."""
import os, sys, time, importlib, multiprocessing as mp, glob


def _w(rank):
    from rtc import core
    core.hygiene(rank)
    t0 = time.time(); n = 0
    root = os.path.dirname(os.path.dirname(os.path.abspath(__file__)))
    for path in sorted(glob.glob(os.path.join(root, "props", "c[0-9][0-9].py"))):
        name = os.path.basename(path)[:-3]
        try:
            mod = importlib.import_module(f"props.{name}")
            if not hasattr(mod, "check_case"): continue
            sess = core.Session(mod.PROP); mod.install(sess); t1 = time.time()
            # the designed cases run FIRST in every check and reach specialisations the sampled enumeration below does not (forced thread counts, narrow dtypes, Arrow
            # integers ...): compile them here too, so that a check on a freshly restored tree spends its budget on cases, not on the JIT (real-size cases are skipped)
            if hasattr(mod, "extra_cases"):
                for j, case in enumerate(mod.extra_cases("quick", 0)):
                    if time.time() - t1 > 20: break
                    if j % 16 != rank % 16 and j % 3 != 0: continue          # every rank its own share + a common third (the kernels most cases share)
                    if isinstance(case, dict) and case.get("big"): continue
                    sess.current_case = case
                    try: mod.check_case(sess, case); n += 1
                    except Exception: pass
            t1 = time.time()
            for i, case in enumerate(mod.cases("quick", 0)):
                if time.time() - t1 > 25 or i > 40000: break
                if i % 37 == 0 or i < 30:
                    sess.current_case = case
                    try: mod.check_case(sess, case); n += 1
                    except Exception: pass
            sess.unwrap_all()
        except Exception as ex:
            print(f"warm {name}: {type(ex).__name__}: {ex}", file=sys.stderr)
    return rank, n, round(time.time() - t0, 1)


def main():
    ctx = mp.get_context("spawn")
    with ctx.Pool(16) as pool: res = pool.map(_w, range(16))
    from rtc import core
    core.write_warm_stamp()
    print("warm:", res[:3], "...")
    return 0
