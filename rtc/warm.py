"""./check warm — compile the kernels once per worker rank so that quick checks do not spend their budget on cold JIT (cache dirs are untracked)."""
import os, sys, time, importlib, multiprocessing as mp, glob


def _w(rank):
    from rtc import core
    core.hygiene(rank)
    t0 = time.time(); n = 0
    root = os.path.dirname(os.path.dirname(os.path.abspath(__file__)))
    for path in sorted(glob.glob(os.path.join(root, "props", "c[0-9][0-9].py"))):
        name = os.path.basename(path)[:-3]
        try:
            mod = importlib.import_module(f"props.{name}")
            if not hasattr(mod, "check_case"): continue
            sess = core.Session(mod.PROP); mod.install(sess); t1 = time.time()
            src = list(mod.extra_cases("quick", 0))[:0] if hasattr(mod, "extra_cases") else []
            for i, case in enumerate(mod.cases("quick", 0)):
                if time.time() - t1 > 25 or i > 40000: break
                if i % 37 == 0 or i < 30:
                    sess.current_case = case
                    try: mod.check_case(sess, case); n += 1
                    except Exception: pass
            sess.unwrap_all()
        except Exception as ex:
            print(f"warm {name}: {type(ex).__name__}: {ex}", file=sys.stderr)
    return rank, n, round(time.time() - t0, 1)


def main():
    ctx = mp.get_context("spawn")
    with ctx.Pool(16) as pool: res = pool.map(_w, range(16))
    from rtc import core
    core.write_warm_stamp()
    print("warm:", res[:3], "...")
    return 0
