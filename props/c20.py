"""C20 — stand-alone array helpers agree with their NumPy definitions.

P (unbounded, maintained separately): nanops._nb_reduce = fold of the binary reducer over the non-null elements (requires a non-empty array or an initial value).
B (bounded): run-time postconditions, oracle = NumPy itself (the statement names NumPy's NaN-aware functions / the ordinary product as the reference):
   nanops.nansum/nanmean/nanmin/nanmax/nanvar/nanstd(arr, n_threads=t) == np.nan<op>(arr)   (var/std at the same ddof; NaN == NaN)
   nanops.count(arr)                      == number of non-NaN elements
   nanops.nansum/nanmin/nanmax(arr2d, axis=a, n_threads=t) == np.nan<op>(arr2d, axis=a)
   util.nb_dot(a, b)                      == np.asarray(a) @ np.asarray(b)  (ndarray / pandas frame (index kept) / polars frame)
   util.bools_to_categorical(df)[i]       == sep.join(columns that are True in row i)  or na_rep when none; raises iff allow_duplicates=False and a row has 2+ True / na_rep is a column
   util.pretty_cut(x, bins)[i]            -> label whose PRINTED bounds contain x[i]; null -> no bin; Series in -> Series with the same index out
 + kernel-precondition monitor on nanops._nb_reduce:  requires len(arr) >= 1 or initial_value is not None   (else arr[0] is read out of bounds)
"""
import itertools, re, warnings, math
import numpy as np, pandas as pd
from . import common as C

PROP = "C20"; LEVEL = "other"; P_TIER = True
SCOPE = {"quick": "1-D, n_threads=1: every array over {NaN,-2,0.5,3} of length 1..6 (float64; 1..4 float32) and over {-2,1,3} of length 1..6 (int64; 1..4 int32) x 7 reducers (var/std at ddof 0 and 1); "
                  "1-D, threads: every array over {NaN,-2,3} of length 1..4 (float64), {-2,1,3} of length 1..3 (int64), length<=2 (float32/int32) x every distinct chunk layout (n_threads 2..len+1 and 8) x 7 reducers; "
                  "lengths 5,7,12 with a NaN block or a non-NaN block at every position x n_threads {2,3,5} x {sum,mean,min,max,std}; "
                  "2-D: every float array over {NaN,-2,0.5,3} with rows*cols<=4, 2x3/3x2 over {NaN,-2,3}, int arrays over {-2,1,3} up to 2x2, axis 0/1, sum/min/max at n_threads=1; shapes <=2x2 over {NaN,-2,3} at n_threads=2; "
                  "nb_dot: a of shape r x c (r 0..2, c 1..2; 3x1, 1x3) over 3-letter alphabets x b over 3 letters x dtype pairs {int,float(with NaN),bool,mixed int/float columns (2-letter alphabets)}x{int,float} + integers beyond 2^53 x int (compared exactly) x {ndarray (3-letter alphabets), pandas, polars (2-letter alphabets)}; "
                  "bools_to_categorical: every boolean frame with 0..4 rows x 1..3 columns (default options) and every frame <= 2x3 with custom sep / na_rep / non-default index, <= 3x3 with allow_duplicates=False; na_rep clash <= 2x2; designed frames of 54 / 55 / 62 columns; "
                  "pretty_cut: every strictly increasing bin set of 1..3 edges from a 7-point grid x all 7 grid values (+NaN) x {int,float} values x {int,float} edges x {ndarray, pandas Series, polars Series}, bins also given reversed; seeded random 1-D arrays of length 6..12",
         "thorough": "as quick with 1-D single-thread enumeration one element longer, threaded enumeration over the 4-letter alphabet up to length 5 (float64) / 4 (int64) / 3 (32-bit), block patterns for every length 5..12 x 2 value rotations x n_threads {2,3,4,5,7,8}, "
                     "2-D rows*cols<=6 (threads 2,3 up to 3x2), nb_dot up to 3x2/2x3, pretty_cut with up to 4 edges, random arrays up to length 40"}
RULE = "a case = (helper, dtype, the literal array/frame/bins, thread counts or container/options); distinct = distinct canonical JSON; non-trivial = the input has >= 2 elements and (a null, or more than one thread, or a value equal to a bin edge, or a row with two true columns, or a 2-D operand)"
ASSUMPTIONS = ["NumPy's nan-functions and the @ operator are the reference (named by the statement)", "var/std are compared at the same ddof (ddof in {0,1} passed to both sides; the library's default ddof=1 differs from NumPy's 0 by design)",
               "float results compared with relative tolerance 1e-9 (float32 inputs: 1e-5, NumPy accumulates those in float32)", "'printed bounds contain the value' is read as the closed interval between the two printed numbers, '<= b' and '> b' literally",
               "BOUNDED: checked only within the stated scope"]
REQUIRED_CONTRACTS = {"nanops._nb_reduce": 1}
EXPLANATION = ("The fold inside nanops._nb_reduce is a kernel contract (proved separately); the chunking over threads (np.array_split + reduce of chunk results), the 2-D dispatch, the dtype handling and the three util helpers are Python glue "
               "and are decided by run-time postconditions against NumPy over a bounded-exhaustive scope, plus a precondition monitor on the kernel (non-empty chunk or initial value).")
BUDGET = {"quick": 50, "thorough": 400}

F_ALPHA = [None, -2.0, 0.5, 3.0]; I_ALPHA = [-2, 1, 3]
FGRID = [-1.5, -0.25, 0.0, 0.25, 1.0, 2.5, 4.0]; IGRID = [-3, -1, 0, 1, 2, 4, 7]
OPS1 = ["nansum", "nanmean", "nanmin", "nanmax", "nanvar", "nanstd", "count"]
OPS_CORE = ["nansum", "nanmean", "nanmin", "nanmax", "nanstd"]


# ----------------------------------------------------------------------------- enumeration
def _nts_for(n):
    """thread counts giving every distinct np.array_split layout of n rows: 2..n+1 (n+1 = first layout with an empty chunk) and 8"""
    return sorted({t for t in range(2, 9) if t <= n + 1} | {8})


def _c_nan1d_single(tier):
    """n_threads = 1: full enumeration over the 4-letter alphabet"""
    big = tier == "thorough"
    def gen(dtype, N):
        alpha = F_ALPHA if dtype.startswith("float") else I_ALPHA
        for n in range(1, N + 1):
            for arr in itertools.product(alpha, repeat=n):
                yield {"k": "nan1d", "dtype": dtype, "arr": list(arr), "nt": [1]}
    return C.roundrobin(gen("float64", 7 if big else 6), gen("int64", 7 if big else 6), gen("float32", 5 if big else 4), gen("int32", 5 if big else 4))


def _c_nan1d_threads(tier):
    """n_threads > 1: every array over a 3-letter alphabet x every distinct chunk layout"""
    big = tier == "thorough"
    def gen(dtype, N, alpha):
        for n in range(1, N + 1):
            for arr in itertools.product(alpha, repeat=n):
                for nt in _nts_for(n):
                    yield {"k": "nan1d", "dtype": dtype, "arr": list(arr), "nt": [nt]}
    return C.roundrobin(gen("float64", 5 if big else 4, F_ALPHA if big else [None, -2.0, 3.0]), gen("int64", 4 if big else 3, I_ALPHA), gen("float32", 3 if big else 2, [None, -2.0, 0.5]), gen("int32", 3 if big else 2, I_ALPHA),
                        weights=(4, 2, 1, 1))


def _c_nan1d_blocks(tier):
    """longer arrays: a NaN block (or a non-NaN block) at every position, so that all-null chunks and single-element chunks move around"""
    big = tier == "thorough"
    for n in ((5, 6, 7, 8, 9, 10, 11, 12) if big else (5, 7, 12)):
        pats = [tuple([False] * n)]
        for i in range(n):
            for j in range(i + 1, n + 1):
                p = [i <= t < j for t in range(n)]
                pats.append(tuple(p)); pats.append(tuple(not x for x in p))
        for pat in dict.fromkeys(pats):
            for rot in range(2 if big else 1):
                arr = [None if pat[t] else F_ALPHA[1 + (t + rot) % 3] for t in range(n)]
                for nt in ((2, 3, 4, 5, 7, 8) if big else (2, 3, 5)):
                    yield {"k": "nan1d", "dtype": "float64", "arr": arr, "nt": [nt], "ops": "core"}


def _c_nan2d(tier):
    big = tier == "thorough"
    def rows(flat, r, c): return [list(flat[i * c:(i + 1) * c]) for i in range(r)]
    def gen_single():
        for r, c in [(1, 1), (1, 2), (2, 1), (2, 2), (1, 3), (3, 1), (1, 4), (4, 1)] + ([(2, 3), (3, 2)] if big else []):
            for flat in itertools.product(F_ALPHA, repeat=r * c): yield {"k": "nan2d", "dtype": "float64", "rows": rows(flat, r, c), "nt": [1]}
        if not big:
            for r, c in [(2, 3), (3, 2)]:
                for flat in itertools.product([None, -2.0, 3.0], repeat=r * c): yield {"k": "nan2d", "dtype": "float64", "rows": rows(flat, r, c), "nt": [1]}
        for r, c in [(1, 1), (1, 2), (2, 1), (2, 2)] + ([(2, 3), (3, 2)] if big else []):
            for flat in itertools.product(I_ALPHA, repeat=r * c): yield {"k": "nan2d", "dtype": "int64", "rows": rows(flat, r, c), "nt": [1]}
    def gen_threads():
        for r, c in [(1, 2), (2, 1), (2, 2)] + ([(2, 3), (3, 2)] if big else []):
            for flat in itertools.product([None, -2.0, 3.0], repeat=r * c):
                for nt in ((2, 3) if big else (2,)): yield {"k": "nan2d", "dtype": "float64", "rows": rows(flat, r, c), "nt": [nt]}
        for flat in itertools.product([-2, 3], repeat=4): yield {"k": "nan2d", "dtype": "int64", "rows": rows(flat, 2, 2), "nt": [2]}
    return C.roundrobin(gen_single(), gen_threads(), weights=(8, 1))


DOT_A = {"int": [-1, 0, 2], "float": [-1.5, 0.5, None], "bool": [False, True], "mixed": [-1, 2],
         "bigint": [2 ** 53 + 1, -(2 ** 60 + 3), 3]}        # integers that float64 cannot hold: an integer product is exact (as NumPy's is), not routed through floats
DOT_B = {"int": [-1, 0, 2], "float": [-0.5, 0.25, 2.5]}

def _c_dot(tier):
    big = tier == "thorough"
    shapes = [(0, 1), (0, 2), (1, 1), (1, 2), (2, 1), (2, 2), (3, 1), (1, 3)] + ([(3, 2), (2, 3)] if big else [])
    def gen(akind, bkind):
        for r, c in shapes:
            if akind == "mixed" and c < 2: continue
            for cont in ("np", "pd", "pl"):
                if akind == "mixed" and cont == "np": continue
                # frames (and mixed int/float columns: on a tree where such frames are rejected every call costs a failed JIT compilation) use 2-letter alphabets in the quick tier
                small = (cont != "np" and not big) or akind == "mixed"
                for flat in itertools.product(DOT_A[akind][-2:] if small else DOT_A[akind], repeat=r * c):
                    for b in itertools.product(DOT_B[bkind][:2] if (small or (c == 3 and not big)) else DOT_B[bkind], repeat=c):
                        yield {"k": "dot", "akind": akind, "bkind": bkind, "a": [list(flat[i * c:(i + 1) * c]) for i in range(r)], "ncols": c, "b": list(b), "cont": cont}
    return C.roundrobin(*[gen(a, b) for a in ("int", "float", "bool", "mixed") for b in ("int", "float")], gen("bigint", "int"))


def _c_b2c(tier):
    def gen(opt, R, Cc):
        for c in range(1, Cc + 1):
            for r in range(0, R + 1):
                for flat in itertools.product([False, True], repeat=r * c):
                    yield {"k": "b2c", "rows": [list(flat[i * c:(i + 1) * c]) for i in range(r)], "ncols": c, "opt": opt}
    return C.roundrobin(gen("default", 4, 3), gen("sep", 2, 3), gen("nodup", 3, 3), gen("narep", 2, 3), gen("index", 2, 3), gen("clash", 2, 2), weights=(8, 1, 1, 1, 1, 1))


def _c_cut(tier):
    maxb = 4 if tier == "thorough" else 3
    for nb_ in range(1, maxb + 1):
        for idx in itertools.combinations(range(7), nb_):
            for xkind in ("float", "int"):
                for bkind in ("float", "int"):
                    for cont in ("np", "pd", "pl"):
                        for order in ("sorted", "reversed"):
                            if order == "reversed" and (nb_ == 1 or cont != "np"): continue
                            yield {"k": "cut", "xkind": xkind, "bkind": bkind, "bins": [(FGRID if bkind == "float" else IGRID)[i] for i in idx], "cont": cont, "order": order}


def cases(tier, seed):
    return C.roundrobin(_c_nan1d_single(tier), _c_nan1d_threads(tier), _c_nan1d_blocks(tier), _c_nan2d(tier), _c_dot(tier), _c_b2c(tier), _c_cut(tier), weights=(8, 2, 2, 5, 29, 8, 1))      # round length 55: coprime with the 16 shards, so every shard sees every stream


def extra_cases(tier, seed):
    """wide boolean frames: bools_to_categorical encodes a row as an integer with one bit per column (exact only if the integer product is) - 54..62 columns, first and last column true"""
    out = []
    for c in (54, 55, 62):
        out.append({"k": "b2c", "rows": [[j in (0, c - 1) for j in range(c)], [j == c - 1 for j in range(c)], [False] * c], "ncols": c, "opt": "default"})
    # narrow dtypes near the end of their range: the per-block partial results (sums, sums of squares, counts) do not fit the INPUT's dtype although the answer NumPy gives
    # (accumulated in 64 bits) is fine - for every thread count
    for dtype, arr in (("int32", [1_500_000_000, 1_400_000_000, 1_300_000_000, 1_200_000_000, 7, -5]), ("int16", [30000, 29000, 28000, 31000, 5]), ("int8", [100, 90, 120, 110, 3, 100]),
                       ("uint8", [250, 240, 200, 255, 3]), ("float32", [1e8, 1e8 + 8, 3.5, 1e8, None, 2.0]), ("int64", [2 ** 61, 2 ** 61, -3, 2 ** 60, 5])):
        out.append({"k": "nan1d", "dtype": dtype, "arr": arr, "nt": [1, 2, 3, 4]})
    for dtype, rows_ in (("int32", [[1_500_000_000, 7], [1_400_000_000, -5], [1_300_000_000, 2]]), ("int16", [[30000, 1], [29000, 2], [31000, 3]])):
        out.append({"k": "nan2d", "dtype": dtype, "rows": rows_, "nt": [1, 2]})
    return out


def random_case(rnd, tier):
    n = rnd.randint(6, 40 if tier == "thorough" else 12); dtype = rnd.choice(["float64", "float64", "float32", "int64", "int32"])
    alpha = F_ALPHA if dtype.startswith("float") else I_ALPHA
    pn = rnd.choice([0.1, 0.5, 0.9])
    arr = [(None if (alpha is F_ALPHA and rnd.random() < pn) else rnd.choice(alpha[1:] if alpha is F_ALPHA else alpha)) for _ in range(n)]
    return {"k": "nan1d", "dtype": dtype, "arr": arr, "nt": sorted({rnd.randint(1, 8), rnd.randint(2, 8)})}


def nontrivial(case):
    k = case["k"]
    if k == "nan1d": return len(case["arr"]) >= 2 and (None in case["arr"] or max(case["nt"]) > 1)
    if k == "nan2d": return len(case["rows"]) * len(case["rows"][0]) >= 2
    if k == "dot": return len(case["a"]) >= 1 and case["ncols"] >= 2
    if k == "b2c": return any(sum(r) >= 2 for r in case["rows"]) or (len(case["rows"]) >= 2 and case["ncols"] >= 2)
    if k == "cut": return len(case["bins"]) >= 2
    return True


# ----------------------------------------------------------------------------- comparison
def _close(got, exp, rtol):
    """-> None if equal else a short description"""
    try:
        g = np.asarray(got); e = np.asarray(exp)
        if g.shape != e.shape: return f"shape {g.shape} != {e.shape}"
        if g.dtype.kind not in "fiub" or e.dtype.kind not in "fiub": return None if (g.dtype.kind == e.dtype.kind and np.array_equal(g, e)) else f"result kind {g.dtype} vs {e.dtype}"
        if g.dtype.kind in "iu" and e.dtype.kind in "iu":          # integer results are compared as integers (float64 would hide a difference beyond 2^53)
            return None if np.array_equal(g.astype(object), e.astype(object)) else "integer value differs"
        g = g.astype(np.float64).ravel(); e = e.astype(np.float64).ravel()
    except Exception as ex:
        return f"uncomparable result {got!r}: {type(ex).__name__}"
    for a, b in zip(g, e):
        if math.isnan(b):
            if not math.isnan(a): return "expected NaN"
        elif math.isnan(a) or abs(a - b) > rtol * max(1.0, abs(b)): return "value differs"
    return None


def _np_arr(vals, dtype):
    if dtype.startswith("float"): return np.array([np.nan if v is None else v for v in vals], dtype=dtype)
    return np.array(vals, dtype=dtype)


def _run(sess, fn, clause_fail, f):
    try:
        with warnings.catch_warnings():
            warnings.simplefilter("ignore")
            return True, f()
    except Exception as ex:
        sess.record("raises", fn, f"{clause_fail}: {type(ex).__name__}", str(ex)[:300]); return False, None


def _check_nan1d(sess, case):
    from groupby_lib import nanops
    dtype = case["dtype"]; arr = _np_arr(case["arr"], dtype); rtol = 1e-5 if dtype == "float32" else 1e-9; calls = 0
    with warnings.catch_warnings():
        warnings.simplefilter("ignore")
        ref = {"nansum": np.nansum(arr), "nanmean": np.nanmean(arr), "nanmin": np.nanmin(arr), "nanmax": np.nanmax(arr),
               "count": np.int64(np.count_nonzero(~np.isnan(arr))) if arr.dtype.kind == "f" else np.int64(len(arr))}
        for d in (0, 1): ref[f"nanvar{d}"] = np.nanvar(arr, ddof=d); ref[f"nanstd{d}"] = np.nanstd(arr, ddof=d)
    before = arr.copy()
    for nt in case["nt"]:
        for op in (OPS_CORE if case.get("ops") == "core" else OPS1):
            if op == "count" and nt != case["nt"][0]: continue          # count takes no n_threads: once per case
            for d in (((0, 1) if case.get("ops") != "core" else (1,)) if op in ("nanvar", "nanstd") else (None,)):
                calls += 1; fn = f"nanops.{op}"
                sess.current_case = dict(case, nt=[nt], op=op, ddof=d)
                if op == "count": ok, got = _run(sess, fn, "a 1-D float/int array must be reduced, not rejected", lambda: nanops.count(arr))
                elif d is None: ok, got = _run(sess, fn, "a 1-D float/int array must be reduced, not rejected", lambda: getattr(nanops, op)(arr, n_threads=nt))
                else: ok, got = _run(sess, fn, "a 1-D float/int array must be reduced, not rejected", lambda: getattr(nanops, op)(arr, n_threads=nt, ddof=d))
                if not ok: continue
                exp = ref[op if d is None else f"{op}{d}"]
                why = _close(got, exp, rtol)
                if why: sess.record("post", fn, "result == NumPy's NaN-aware function on the same 1-D array, for any n_threads", {"got": repr(got), "expected": repr(exp), "why": why, "n_threads": nt, "ddof": d})
    sess.current_case = case
    if not np.array_equal(before, arr, equal_nan=True): sess.record("frame", "nanops.reduce_1d", "the input array is not modified", {"before": str(before), "after": str(arr)})
    return calls


def _check_nan2d(sess, case):
    from groupby_lib import nanops
    arr = np.array([[np.nan if v is None else v for v in r] for r in case["rows"]], dtype=case["dtype"]); calls = 0
    for nt in case["nt"]:
        for op in ("nansum", "nanmin", "nanmax"):
            for axis in (0, 1):
                calls += 1; fn = f"nanops.{op}"; sess.current_case = dict(case, nt=[nt], op=op, axis=axis)
                with warnings.catch_warnings():
                    warnings.simplefilter("ignore"); exp = getattr(np, op)(arr, axis=axis)
                ok, got = _run(sess, fn, "a 2-D float/int array must be reduced along the axis, not rejected", lambda: getattr(nanops, op)(arr, axis=axis, n_threads=nt))
                if not ok: continue
                why = _close(got, exp, 1e-9)
                if why: sess.record("post", fn, "result == NumPy's NaN-aware function along the same axis of the 2-D array (column-/row-wise), for any n_threads", {"got": repr(got), "expected": repr(exp), "why": why, "axis": axis, "n_threads": nt})
    sess.current_case = case
    return calls


def _dot_operands(case):
    import polars as pl
    akind, c = case["akind"], case["ncols"]; rows = case["a"]; r = len(rows)
    col_dtypes = [{"int": np.int64, "bigint": np.int64, "float": np.float64, "bool": np.bool_}.get(akind) or (np.int64 if j % 2 == 0 else np.float64) for j in range(c)]
    cols = [np.array([(np.nan if rows[i][j] is None else rows[i][j]) for i in range(r)], dtype=col_dtypes[j]) for j in range(c)]
    dense = np.empty((r, c), dtype=np.result_type(*col_dtypes))
    for j in range(c): dense[:, j] = cols[j]
    b = np.array(case["b"], dtype=np.int64 if case["bkind"] == "int" else np.float64)
    if case["cont"] == "np": a = dense
    elif case["cont"] == "pd": a = pd.DataFrame({f"c{j}": cols[j] for j in range(c)}, index=pd.Index([10 + i for i in range(r)]))
    else: a = pl.DataFrame({f"c{j}": cols[j] for j in range(c)})
    return a, b, dense


def _check_dot(sess, case):
    import polars as pl
    from groupby_lib import util
    a, b, dense = _dot_operands(case); exp = dense @ b; b0 = b.copy(); d0 = dense.copy()
    ok, got = _run(sess, "util.nb_dot", "a matrix (array or frame) and a vector of matching length must be multiplied, not rejected", lambda: util.nb_dot(a, b))
    if not ok: return 1
    if case["cont"] == "pd":
        if not isinstance(got, pd.Series) or not got.index.equals(a.index):
            sess.record("post", "util.nb_dot", "for a pandas frame the product is a Series on the frame's index", {"got": repr(got)[:200]}); return 1
        vals = got.to_numpy()
    elif case["cont"] == "pl":
        if not isinstance(got, pl.Series): sess.record("post", "util.nb_dot", "for a polars frame the product is a polars Series", {"got": repr(got)[:200]}); return 1
        vals = got.to_numpy()
    else: vals = got
    why = _close(vals, exp, 1e-12)
    if why: sess.record("post", "util.nb_dot", "nb_dot(a, b) == a @ b (ordinary matrix-vector product)", {"got": repr(np.asarray(vals)), "expected": repr(exp), "why": why})
    if not (np.array_equal(b, b0) and np.array_equal(dense, d0, equal_nan=True)): sess.record("frame", "util.nb_dot", "operands are not modified", None)
    return 1


def _check_b2c(sess, case):
    from groupby_lib import util
    c = case["ncols"]; rows = case["rows"]; r = len(rows); names = ["A", "B", "C"][:c] if c <= 3 else [f"c{j}" for j in range(c)]; opt = case["opt"]
    df = pd.DataFrame({names[j]: np.array([rows[i][j] for i in range(r)], dtype=bool) for j in range(c)})
    kw = {}; sep, na_rep = " & ", "None"
    if opt == "sep": kw["sep"] = sep = "|"
    if opt == "narep": kw["na_rep"] = na_rep = "nothing"
    if opt == "nodup": kw["allow_duplicates"] = False
    if opt == "index": df.index = pd.Index([f"r{i}" for i in range(r)][::-1])
    if opt == "clash": kw["na_rep"] = na_rep = "A"
    exp = [sep.join(n for n, v in zip(names, row) if v) or na_rep for row in rows]
    must_raise = (opt == "nodup" and any(sum(row) > 1 for row in rows)) or opt == "clash"
    try:
        got = util.bools_to_categorical(df, **kw)
    except Exception as ex:
        if not (must_raise and isinstance(ex, ValueError)):
            sess.record("raises", "util.bools_to_categorical", f"a boolean frame must be labelled, not rejected: {type(ex).__name__}", str(ex)[:300])
        return 1
    if must_raise:
        sess.record("raises", "util.bools_to_categorical", "raises ValueError when allow_duplicates=False and a row has several true columns / when na_rep is a column name", {"got": repr(list(got))}); return 1
    ok = isinstance(got, pd.Series) and isinstance(got.dtype, pd.CategoricalDtype) and got.index.equals(df.index) and [None if pd.isna(x) else str(x) for x in got.tolist()] == exp
    if not ok: sess.record("post", "util.bools_to_categorical", "every row gets the label naming exactly its true columns (joined by sep; na_rep when none), as a categorical Series on the frame's index", {"got": repr(list(got)) if hasattr(got, "__iter__") else repr(got), "expected": exp})
    return 1


_NUM = r"-?(?:\d+\.?\d*|\.\d+)(?:[eE][-+]?\d+)?"

def parse_label(lab):
    """-> (lo, hi): ' <= b' -> (None, b); ' > b' -> (b, None); 'l - r' -> (l, r); 'v' -> (v, v); None if unparsable"""
    if lab.startswith(" <= "):
        try: return (None, float(lab[4:]))
        except ValueError: return None
    if lab.startswith(" > "):
        try: return (float(lab[3:]), None)
        except ValueError: return None
    m = re.fullmatch(f"({_NUM}) - ({_NUM})", lab)
    if m: return (float(m.group(1)), float(m.group(2)))
    if re.fullmatch(_NUM, lab): return (float(lab), float(lab))
    return None


def _contains(b, x, interior=False, integer=False):
    lo, hi = b
    if lo is None: return x < hi if interior else x <= hi
    if hi is None: return x > lo
    if interior and not integer: return lo < x < hi
    return lo <= x <= hi


def _check_cut(sess, case):
    import polars as pl
    from groupby_lib import util
    xkind, bkind = case["xkind"], case["bkind"]
    xs = (FGRID + [None]) if xkind == "float" else list(IGRID)
    x = np.array([np.nan if v is None else v for v in xs], dtype=np.float64 if xkind == "float" else np.int64)
    bins = list(case["bins"]) if case["order"] == "sorted" else list(case["bins"])[::-1]
    bins_arg = np.array(bins, dtype=np.float64 if bkind == "float" else np.int64)
    xin = x if case["cont"] == "np" else (pd.Series(x, index=pd.Index([f"i{i}" for i in range(len(x))]), name="xv") if case["cont"] == "pd" else pl.Series("xv", x))
    ok, got = _run(sess, "util.pretty_cut", "numeric values and increasing numeric bin edges must be binned, not rejected", lambda: util.pretty_cut(xin, bins_arg))
    if not ok: return 1
    if case["cont"] == "pd":
        if not (isinstance(got, pd.Series) and got.index.equals(xin.index)):
            sess.record("post", "util.pretty_cut", "a pandas Series in gives a Series on the same index", {"got": repr(got)[:200]}); return 1
        cat = got.array
    else: cat = got
    if not isinstance(cat, pd.Categorical) or len(cat) != len(xs):
        sess.record("post", "util.pretty_cut", "result is a categorical with one entry per value", {"got": repr(got)[:200]}); return 1
    labels = [str(c) for c in cat.categories]; parsed = [parse_label(l) for l in labels]
    if any(p is None for p in parsed):
        sess.record("post", "util.pretty_cut", "every label prints its bounds as ' <= b', 'l - r' (or a single number) or ' > b'", {"labels": labels}); return 1
    integer = xkind == "int" and bkind == "int"; bad = []; amb = []
    for v, code in zip(xs, cat.codes):
        if v is None:
            if code != -1: bad.append(("NaN", labels[code]))
            continue
        if code < 0: bad.append((v, None)); continue
        if not _contains(parsed[code], v): bad.append((v, labels[code]))
        else:
            others = [labels[j] for j in range(len(labels)) if j != code and _contains(parsed[j], v, interior=True, integer=integer)]
            if others: amb.append((v, labels[code], others))
    if bad: sess.record("post", "util.pretty_cut", "every value is assigned to a bin whose printed bounds contain it; nulls to no bin", {"value->label": bad[:4], "labels": labels, "bins": bins})
    if amb: sess.record("post", "util.pretty_cut", "no OTHER bin's printed bounds contain the value in their interior (the bin is the one whose printed bounds contain it)", {"value, label, other labels": amb[:3], "labels": labels, "bins": bins})
    return 1


def check_case(sess, case):
    return {"nan1d": _check_nan1d, "nan2d": _check_nan2d, "dot": _check_dot, "b2c": _check_b2c, "cut": _check_cut}[case["k"]](sess, case)


def install(sess):
    """kernel-precondition monitor: the fold reads arr[0] when the array is empty and no initial value is given"""
    def pre_nb_reduce(reduce_func=None, arr=None, skipna=True, initial_value=None, *rest):
        if arr is not None and len(arr) == 0 and initial_value is None:
            return "len(arr) >= 1 or initial_value is not None (an empty chunk makes the kernel read arr[0] out of bounds)"
    sess.wrap("groupby_lib.nanops", "_nb_reduce", requires=pre_nb_reduce)
