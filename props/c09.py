"""C09 — rolling operations are per-group sliding-window reductions.

P/L (unbounded, maintained in contracts/): _rolling_sum_or_mean_1d, _rolling_shift_or_diff_1d, _rolling_max_or_min_1d + min_or_max_and_position over the history
function Hist(k, A-w .. A-1) with the lap invariant of the circular buffer; overflow obligations on the int16 position/count arrays (window <= 32767).
B (bounded): run-time postconditions, written from the property statement, on
   the kernel-level entry points  groupby_lib.groupby.numba.rolling_sum/mean/min/max/shift/diff (integer codes, -1 = null key)      [stream K]
   the public methods             GroupBy.rolling_sum/rolling_mean/rolling_min/rolling_max/shift/diff, both output layouts          [stream P]
 ensures, at every selected row r (non-null key, kept by the mask); W(r) = the last `window` selected rows of r's group ending at r:
   (window)  rolling sum/mean/min/max == reduction of the non-null values of W(r); null unless at least min_periods of them are non-null
             (min_periods=None means `window`, as documented and as in pandas)
   (shift)   shift == the value of the selected row of the group `window` places earlier (null if there is none); diff == value(r) - that (null if either is null)
   (exact)   float and temporal input: rolling min/max and shift are EXACTLY an input value and keep the input dtype; diff of temporal input is a timedelta64 in the
             input's time unit with the exact difference. Sums/means (and everything on int64 input, which the library documents as downcast to float64) are compared
             with float64 resolution relative to window x max|value|.
   (sorted)  index_by_groups=True: a Series under a 2-level (group label, original index) MultiIndex; every selected row appears exactly once, group by group in
             label order and in original order inside a group; its value is the same number as in the row-aligned layout (== the specification value)
   (shape)   row-aligned layout: one output row per input row
   (frame)   values and mask are not written to
 Rows with a null key or dropped by the mask are NOT constrained (C05/C06).
 + precondition monitors on the three kernels: window within the range of the per-group position / counter arrays (bound read from the kernel's current source), lengths, codes < ngroups.
Oracle: executable specification over Python lists (temporal values as integers in the array's own unit), not pandas.
"""
import itertools, io, contextlib
import numpy as np, pandas as pd
from . import common as C

PROP = "C09"; LEVEL = "other"; P_TIER = True
VKINDS = ("float", "int", "datetime", "datetime_us", "timedelta", "int32", "uint8")        # int32 / uint8: narrow integers whose window sums leave the dtype's range
TEMPORAL = ("datetime", "datetime_us", "timedelta")
MIN_INT = C.MIN_INT
WOPS = ("sum", "mean", "min", "max"); SOPS = ("shift", "diff")
SCOPE = {"quick": "K (kernel entry points numba.rolling_*, codes over {-1,0,1}; all of sum/mean/min/max x min_periods in {None,0..window} and shift/diff on every case): "
                  "(i) one group and two alternating groups, n<=7 rows x every value-null pattern x window 1..4 x masks {none, alternate, first row dropped} x {float, int>2^53, datetime64[ns] odd ns, datetime64[us], timedelta64[ns]}; "
                  "(ii) every interleaving n<=4 (float: x null patterns with <=2 nulls or all x window 1..3 x {no mask, every boolean mask (n<=3) / 3 designed masks}; other classes: <=1 null or all, 2 masks), "
                  "float n=5..7 (first code in {-1,0}) x window 2,3 x 2 null patterns x {no mask, alternate}; float values also as a 2-chunk Arrow array; window 32767 and 32768 on 32,900 rows. "
                  "P (public GroupBy methods, labels over {null,a,b}, one min_periods per case): every label sequence n<=4 (float values; n<=3 other classes) + 8 designed sequences of 5..7 rows x keys {float ndarray, str ndarray} "
                  "x (window,min_periods) in {(1,None),(2,None),(2,1),(3,2),(3,None),(4,2),(2,0)} x 4 (null pattern, mask) combinations x both output layouts (index_by_groups) x values as ndarray / Series with a non-default index; seeded random cases up to 24 rows",
         "thorough": "as quick with (ii) every interleaving n<=5 for every class and float n<=7 with 4 null patterns, P every label sequence n<=5, random cases up to 64 rows"}
RULE = "a case = (level K/P, codes or labels, key kind/layout, value class, value-null pattern, mask, window[, min_periods]); distinct = distinct canonical JSON; non-trivial = a group with more rows than the window, or two groups, or a null key, or a null value, or a mask"
ASSUMPTIONS = ["A-real: the running sum by add/evict equals the window sum only in real arithmetic: sums/means are compared with tolerance 1e-9 (float), 2^-48 x window x max|v| (int64, temporal)",
               "int64 input is documented as downcast to float64 (allow_downcasting): min/max/shift/diff of int64 are compared with the float64 image of the exact answer (one ulp per operand), not exactly (the statement's exactness clause names float and temporal input)",
               "min_periods=None means min_periods=window (docstring; pandas' default) - the statement leaves the default open",
               "masks are boolean arrays (the documented mask type of the rolling methods); other mask kinds are C05's business",
               "BOUNDED: _apply_rolling (null value / dtype choice, view back to the time dtype), GroupBy._apply_rolling_or_cumulative_func, GroupBy.apply + pandas rolling + _build_group_sorted_index for index_by_groups=True are checked only within the stated scope"]
REQUIRED_CONTRACTS = {"numba._rolling_sum_or_mean_1d": 1, "numba._rolling_max_or_min_1d": 1, "numba._rolling_shift_or_diff_1d": 1}
EXPLANATION = ("Modular: the window postconditions of the three rolling kernels (sum/mean by add/evict, extremum as an element of the window that bounds it, shift/diff against Hist(k, A-w)) are proof obligations of the P tier; "
               "the Python around them - _apply_rolling (null value and dtype choice, view back to datetime/timedelta), the public methods, and the group-sorted layout built by GroupBy.apply + pandas rolling + "
               "_build_group_sorted_index - is decided by run-time postconditions taken from the statement over a bounded-exhaustive scope (bounded, not proved).")
BUDGET = {"quick": 75, "thorough": 500}
UNC = "<unconstrained>"
UNIT = {"datetime": "ns", "datetime_us": "us", "timedelta": "ns"}


# ----------------------------------------------------------------------------- values
def make_values(vkind, n, nullpat=None):
    """-> (numpy array, logical values: None = null; temporal values as integers in the array's unit)"""
    nullpat = list(nullpat) if nullpat else [False] * n
    if vkind == "int":        # beyond 2^53, odd, distinct per position, not monotonic
        vals = [2 ** 53 + 1 + 32 * i + 1024 * ((i * 5) % 7) for i in range(n)]
        return np.array(vals, dtype=np.int64), vals
    if vkind == "int32":      # two of them already exceed 2^31
        vals = [2 ** 31 - 1 - 3 * i - 64 * ((i * 5) % 7) for i in range(n)]
        return np.array(vals, dtype=np.int32), vals
    if vkind == "uint8":      # two of them already exceed 255
        vals = [250 - 2 * i - 16 * ((i * 5) % 7) for i in range(n)]
        return np.array(vals, dtype=np.uint8), vals
    if vkind == "timedelta":
        vals = [None if nullpat[i] else (((i * 5) % 7) * 50 - 140) * 86_400_000_000_000 + 2 * i + 1 for i in range(n)]
        return np.array([MIN_INT if x is None else x for x in vals], dtype=np.int64).view("m8[ns]"), vals
    if vkind == "datetime":   # ~9.8e17 ns: far beyond 2^53, odd nanoseconds
        base = pd.Timestamp("2001-03-01").value
        vals = [None if nullpat[i] else base + ((i * 5) % 7) * 86_400_000_000_000 + 2 * i + 1 for i in range(n)]
        return np.array([MIN_INT if x is None else x for x in vals], dtype=np.int64).view("M8[ns]"), vals
    if vkind == "datetime_us":
        base = pd.Timestamp("2001-03-01").value // 1000
        vals = [None if nullpat[i] else base + ((i * 5) % 7) * 86_400_000_000 + 2 * i + 1 for i in range(n)]
        return np.array([MIN_INT if x is None else x for x in vals], dtype=np.int64).view("M8[us]"), vals
    return C.make_values(vkind, n, nullpat)


def nullable(vkind): return vkind not in ("int", "int32", "uint8")


def decode(res, unit=None):
    a = res.to_numpy() if hasattr(res, "to_numpy") else np.asarray(res)
    k = a.dtype.kind
    if k in "mM": return [None if x == MIN_INT else int(x) for x in a.astype(f"{k}8[{unit or 'ns'}]").view("i8")]
    if k == "f": return [None if np.isnan(x) else float(x) for x in a]
    if k in "iu": return [None if x == MIN_INT else int(x) for x in a]
    if k == "b": return [bool(x) for x in a]
    return [None if C.is_null(x) else x for x in a]


# ----------------------------------------------------------------------------- the specification (from the statement)
def spec_roll(op, groups, vals, selected, window, min_periods):
    mp = window if min_periods is None else min_periods
    out = [UNC] * len(groups); hist = {}
    for r, g in enumerate(groups):
        if g is None or r not in selected: continue
        h = hist.setdefault(g, []); h.append(vals[r])
        if op in SOPS:
            prev = h[-1 - window] if len(h) > window else None
            out[r] = prev if op == "shift" else (None if prev is None or vals[r] is None else vals[r] - prev)
            continue
        nn = [x for x in h[-window:] if x is not None]
        if len(nn) < mp: out[r] = None
        elif op == "sum": out[r] = sum(nn) if nn else 0                         # min_periods=0: the sum of an empty window is the empty sum
        elif not nn: out[r] = None                                              # mean / min / max of no value: null
        elif op == "mean": out[r] = sum(nn) / len(nn)
        else: out[r] = min(nn) if op == "min" else max(nn)
    return out


def exact_mode(op, vkind): return vkind != "int" and (op in ("min", "max", "shift") or (op == "diff"))


def agree(got, exp, op, vkind, scale):
    if exp is None: return got is None
    if got is None: return False
    if exact_mode(op, vkind) and not (vkind == "float" and op == "diff"): return got == exp
    if vkind == "float": return abs(got - exp) <= 1e-9 * max(1.0, abs(exp), scale)
    if vkind == "int" and op not in ("sum", "mean"): return abs(got - exp) <= (4.0 if op == "diff" else 2.0) * max(1.0, 2.0 ** -53 * abs(exp if op != "diff" else scale))   # float64 image of an int64 near 2^53: off by at most 1 per operand
    return abs(got - exp) <= max(2.0, 2.0 ** -48 * scale)


def clause_for(op, vkind, got, exp):
    if op in ("min", "max", "shift") and vkind != "int" and got is not None and exp is not None and abs(got - exp) <= 2.0 ** -51 * abs(exp):
        return "float/temporal input: rolling min/max and shift return exactly one of the input values (no rounding of nanosecond timestamps)"
    if op == "shift": return "shift == the value `window` selected rows of the group earlier, null if there is none"
    if op == "diff": return "diff == value minus the value `window` selected rows of the group earlier (in the input's time unit), null if either is missing"
    return f"rolling {op} == {op} of the non-null values among the last `window` selected rows of the group, null unless min_periods of them are non-null"


def dtype_ok(op, vkind, in_dtype, out_dtype):
    if vkind in TEMPORAL:
        if op in ("min", "max", "shift", "mean"): return out_dtype == in_dtype
        if op == "diff": return out_dtype == np.dtype(f"m8[{UNIT[vkind]}]")
        return out_dtype.kind in "mf"
    return out_dtype.kind == "f"


def ops_for(vkind):
    return [o for o in WOPS + SOPS if not (o == "sum" and vkind in ("datetime", "datetime_us"))]      # a sum of timestamps has no meaning


# ----------------------------------------------------------------------------- cases
MASKS = {"alt": lambda n: [i % 2 == 0 for i in range(n)], "nofirst": lambda n: [i != 0 for i in range(n)], "nolast": lambda n: [i != n - 1 for i in range(n)], "alt1": lambda n: [i % 2 == 1 for i in range(n)]}


def _cases_k1(tier):
    """(i) the circular buffer of one group: every null pattern, long enough for a window of 3 to wrap twice"""
    for n in range(1, 8):
        for vkind in VKINDS:
            for shape in ("one", "two"):
                if shape == "two" and n < 2: continue
                codes = [0] * n if shape == "one" else [i % 2 for i in range(n)]
                for pat in (itertools.product([False, True], repeat=n) if nullable(vkind) else [tuple([False] * n)]):
                    for w in range(1, 5):
                        if w > n: continue
                        for mname in (None, "alt", "nofirst"):
                            if mname and (n < 3 or (vkind != "float" and sum(pat) > 2)): continue
                            yield {"lvl": "K", "codes": codes, "vkind": vkind, "nullpat": list(pat), "mask": MASKS[mname](n) if mname else None, "window": w, "vsplit": None}


def _cases_k2(tier):
    """(ii) interleavings of two groups and null keys"""
    big = tier == "thorough"
    for n in range(1, 8):
        for vkind in VKINDS:
            fl = vkind == "float"
            full = n <= (5 if big else 4)
            if not full and not fl: continue
            for codes in itertools.product([-1, 0, 1], repeat=n):
                if not full and codes[0] > 0: continue
                if len(set(codes)) == 1 and codes[0] == 0: continue       # stream (i)
                if not nullable(vkind): pats = [[False] * n]
                elif full:
                    pats = [list(p) for p in itertools.product([False, True], repeat=n) if sum(p) <= (2 if fl else 1) or all(p)]
                else: pats = [[False] * n, [i % 3 == 1 for i in range(n)]] + ([[i % 2 == 0 for i in range(n)], [i in (1, 2) for i in range(n)]] if big else [])
                if full and fl and n <= 3: masks = [None] + [list(m) for m in itertools.product([False, True], repeat=n)]
                elif full and fl: masks = [None] + [MASKS[k](n) for k in ("alt", "nofirst", "nolast")]
                else: masks = [None, MASKS["alt"](n)]
                for pi, pat in enumerate(pats):
                    for w in ((1, 2, 3) if full else (2, 3)):
                        if w > n: continue
                        for j, m in enumerate(masks):
                            vs = n // 2 if (fl and n >= 2 and (j + pi + w + sum(codes)) % 5 == 0) else None
                            yield {"lvl": "K", "codes": list(codes), "vkind": vkind, "nullpat": pat, "mask": m, "window": w, "vsplit": vs}


DESIGNED_KEYS = [[0, 0, 0, 0, 0], [0, 1, 0, 1, 0, 1], [0, 0, 1, 1, 0, 0, 1], [0, None, 0, 1, None, 0, 0], [1, 0, 0, None, 0, 1, 0], [0, 0, 0, 0, 0, 0, 0], [None, 1, 1, 0, 1, 1, 1], [1, 1, 0, 0, 0, 1, 0]]
WMP = [(1, None), (2, None), (2, 1), (3, 2), (3, None), (4, 2), (2, 0)]


def _cases_p(tier):
    big = tier == "thorough"
    for n in range(1, 8):
        for vkind in VKINDS:
            fl = vkind == "float"
            seqs = [list(k) for k in itertools.product([None, 0, 1], repeat=n)] if n <= ((5 if big else 4) if fl else (4 if big else 3)) else [k for k in DESIGNED_KEYS if len(k) == n]
            for keys in seqs:
                for kkind, klayout in (("float", "contig"), ("str", "contig")):
                    if klayout == "chunk2" and (n < 2 or n > 4): continue
                    if kkind == "str" and not fl and n > 2: continue
                    pats = [[False] * n] + ([[i == min(1, n - 1) for i in range(n)], [i % 2 == 0 for i in range(n)]] if nullable(vkind) else [])
                    combos = [(0, None), (min(1, len(pats) - 1), None), (0, "alt"), (len(pats) - 1, "nofirst")]
                    if klayout == "chunk2" or kkind == "str": combos = combos[:2]
                    for ci, (pi, mname) in enumerate(dict.fromkeys(combos)):
                        if mname and n < 2: continue
                        for wi, (w, mp) in enumerate(WMP):
                            if w > max(n, 1): continue
                            if (klayout == "chunk2" or kkind == "str" or not fl) and wi not in (1, 2, 3): continue
                            yield {"lvl": "P", "keys": keys, "kkind": kkind, "klayout": klayout, "vkind": vkind, "nullpat": pats[pi], "mask": MASKS[mname](n) if mname else None,
                                   "window": w, "min_periods": mp, "ser": klayout == "contig" and (ci + wi) % 2 == 1}


def cases(tier, seed):
    return C.roundrobin(_cases_k1(tier), _cases_k2(tier), _cases_p(tier), weights=(4, 6, 1))


def extra_cases(tier, seed):
    return [{"lvl": "W", "window": 32767, "n": 32900}, {"lvl": "W", "window": 32768, "n": 32900}]


def random_case(rnd, tier):
    n = rnd.randint(5, 64 if tier == "thorough" else 24); vkind = rnd.choice(VKINDS)
    pat = [rnd.random() < 0.3 for _ in range(n)] if nullable(vkind) else [False] * n
    mask = rnd.choice([None, [rnd.random() < 0.6 for _ in range(n)]]); w = rnd.randint(1, 5)
    if rnd.random() < 0.6:
        return {"lvl": "K", "codes": [rnd.choice([-1, 0, 1, 2]) for _ in range(n)], "vkind": vkind, "nullpat": pat, "mask": mask, "window": w, "vsplit": rnd.choice([None, rnd.randrange(0, n + 1)]) if vkind == "float" else None}
    kkind = rnd.choice(["float", "str"])
    return {"lvl": "P", "keys": [rnd.choice([None, 0, 1, 2]) for _ in range(n)], "kkind": kkind, "klayout": "contig", "vkind": vkind, "nullpat": pat,
            "mask": mask, "window": w, "min_periods": rnd.choice([None, 1, rnd.randint(0, w)]), "ser": rnd.random() < 0.3}


def nontrivial(case):
    if case["lvl"] == "W": return True
    ks = case["codes"] if case["lvl"] == "K" else [(-1 if k is None else k) for k in case["keys"]]
    nn = [k for k in ks if k >= 0]
    return len(set(nn)) >= 2 or any(k < 0 for k in ks) or any(case["nullpat"]) or case["mask"] is not None or any(nn.count(k) > case["window"] for k in set(nn))


# ----------------------------------------------------------------------------- checking
def _scale(vals, window):
    m = max([abs(x) for x in vals if x is not None] or [1.0]); return float(window * m)


def _check_rows(sess, fn, op, got, exp, vkind, scale):
    """first mismatching row per clause (a rounding mismatch must not shadow a wrong-window mismatch further down)"""
    seen = set()
    for r, e in enumerate(exp):
        if e is UNC or agree(got[r], e, op, vkind, scale): continue
        cl = clause_for(op, vkind, got[r], e)
        if cl in seen: continue
        seen.add(cl)
        sess.record("post", fn, cl, {"row": r, "got": str(got[r]), "expected": str(e), "all_got": str(got), "all_expected": str([("-" if x is UNC else x) for x in exp])})


def _selected(case, n):
    m = None if case["mask"] is None else np.array(case["mask"], dtype=bool)
    return m, (set(range(n)) if m is None else {i for i in range(n) if m[i]})


def _mps(case, op):
    if op in SOPS: return [None]
    if "min_periods" in case: return [case["min_periods"]]
    return [None] + list(range(0, case["window"] + 1))


def _check_kernel(sess, case):
    from groupby_lib.groupby import numba as gn
    import pyarrow as pa
    codes = np.array(case["codes"], dtype=np.int64); n = len(codes); vkind = case["vkind"]; w = case["window"]; ng = (int(codes.max()) + 1 if n else 0) + n % 2
    ng = max(ng, 1)
    v, vals = make_values(vkind, n, case["nullpat"]); m, selected = _selected(case, n)
    groups = [None if c < 0 else int(c) for c in codes]; scale = _scale(vals, w); calls = 0; unit = UNIT.get(vkind)
    vs = case.get("vsplit"); varg = v if vs is None else pa.chunked_array([pa.array(v[:vs]), pa.array(v[vs:])])
    v0, m0, c0 = v.tobytes(), (None if m is None else m.tobytes()), codes.tobytes()
    for op in ([case["op"]] if "op" in case else ops_for(vkind)):
        for mp in _mps(case, op):
            sess.current_case = dict(case, op=op, min_periods=mp); fn = f"numba.rolling_{op}"; calls += 1
            try:
                res = getattr(gn, f"rolling_{op}")(codes, varg, ng, w, mask=m) if op in SOPS else getattr(gn, f"rolling_{op}")(codes, varg, ng, w, min_periods=mp, mask=m)
            except Exception as ex:
                sess.record("raises", fn, f"valid kernel inputs must not fail: {type(ex).__name__}", str(ex)[:200]); continue
            res = np.asarray(res)
            if res.shape != (n,): sess.record("post", fn, "one output row per input row", {"shape": str(res.shape), "n": n}); continue
            if not dtype_ok(op, vkind, v.dtype, res.dtype):
                sess.record("post", fn, "temporal input: rolling min/max/shift keep the input dtype, diff is a timedelta in the input's time unit; float input stays float", {"in": str(v.dtype), "out": str(res.dtype)})
            _check_rows(sess, fn, op, decode(res, unit), spec_roll(op, groups, vals, selected, w, mp), vkind, scale)
    if v.tobytes() != v0 or codes.tobytes() != c0 or (m is not None and m.tobytes() != m0):
        sess.record("frame", "numba._apply_rolling", "group key, values and mask are not written to", {"values_changed": v.tobytes() != v0})
    return calls


def _make_keys(case):
    from .c01 import make_keys
    import pyarrow as pa
    k, labs = make_keys(case["kkind"], case["keys"]); n = len(labs)
    if case.get("klayout", "contig") == "chunk2":
        return pa.chunked_array([pa.array(k[:n // 2], type=pa.float64()), pa.array(k[n // 2:], type=pa.float64())]), labs
    return k, labs


def _check_sorted_layout(sess, fn, res, labs, idx_labels, selected, exp, op, vkind, scale, unit):
    n = len(labs)
    if not isinstance(res, pd.Series) or not isinstance(res.index, pd.MultiIndex) or res.index.nlevels != 2:
        sess.record("post", fn, "group-sorted output is a Series under a 2-level (group label, original index) MultiIndex", {"type": type(res).__name__, "index": type(getattr(res, "index", None)).__name__}); return
    order = sorted({l for l in labs if l is not None}); rank = {l: i for i, l in enumerate(order)}
    row_of = {(labs[r], idx_labels[r]): r for r in range(n) if labs[r] is not None}
    got_idx = [tuple(t) for t in res.index]; got_vals = decode(res, unit)
    want = [(labs[r], idx_labels[r]) for l in order for r in sorted(selected) if labs[r] == l]
    det = {"got_index": str(got_idx), "expected_index": str(want), "got_values": str(got_vals)}
    bad = [t for t in got_idx if t not in row_of]
    if bad or len(set(got_idx)) != len(got_idx):
        sess.record("post", fn, "group-sorted output: every entry is labelled (group label of a row, original index of that row), no row twice", det); return
    if [t for t in got_idx if row_of[t] in selected] != want:
        sess.record("post", fn, "group-sorted output: every selected row appears exactly once, group by group in label order, original order inside a group", det); return
    pos = [(rank[t[0]], row_of[t]) for t in got_idx]
    if pos != sorted(pos):
        sess.record("post", fn, "group-sorted output: every selected row appears exactly once, group by group in label order, original order inside a group", det); return
    gv = dict(zip(got_idx, got_vals)); aligned = [UNC] * n; gotrow = [None] * n
    for t in want: aligned[row_of[t]] = exp[row_of[t]]; gotrow[row_of[t]] = gv[t]
    for r, e in enumerate(aligned):
        if e is UNC or agree(gotrow[r], e, op, vkind, scale): continue
        sess.record("post", fn, "group-sorted output holds the same numbers as the row-aligned layout: " + clause_for(op, vkind, gotrow[r], e), dict(det, row=r, got=str(gotrow[r]), expected=str(e))); return


def _check_public(sess, case):
    from groupby_lib.groupby import GroupBy
    vkind = case["vkind"]; n = len(case["keys"]); w = case["window"]; unit = UNIT.get(vkind)
    k, labs = _make_keys(case); v, vals = make_values(vkind, n, case["nullpat"]); m, selected = _selected(case, n)
    idx_labels = [100 + 7 * i for i in range(n)] if case.get("ser") else list(range(n))
    varg = pd.Series(v, index=pd.Index(idx_labels), name="val") if case.get("ser") else v
    v0, m0 = v.tobytes(), (None if m is None else m.tobytes()); calls = 0; scale = _scale(vals, w)
    sess.current_case = case
    try:
        with contextlib.redirect_stdout(io.StringIO()): gb = GroupBy(k)
    except Exception as ex:
        sess.record("raises", "GroupBy.__init__", f"valid group keys must not be rejected: {type(ex).__name__}", str(ex)[:200]); return 1
    todo = [(op, lay) for op in ops_for(vkind) for lay in (("rows", "groups") if op in WOPS else ("rows",))]
    if "op" in case: todo = [(o, l) for o, l in todo if o == case["op"] and l == case.get("layout", l)]
    for op, lay in todo:
        for mp in _mps(case, op):
            sess.current_case = dict(case, op=op, layout=lay, min_periods=mp); calls += 1
            fn = f"GroupBy.{op}" if op in SOPS else f"GroupBy.rolling_{op}"
            exp = spec_roll(op, labs, vals, selected, w, mp)
            try:
                with contextlib.redirect_stdout(io.StringIO()), contextlib.redirect_stderr(io.StringIO()):
                    if op in SOPS: res = getattr(gb, op)(varg, window=w, mask=m)
                    else: res = getattr(gb, f"rolling_{op}")(varg, window=w, min_periods=mp, mask=m, index_by_groups=(lay == "groups"))
            except Exception as ex:
                sess.record("raises", fn, ("group-sorted layout (index_by_groups=True) must not fail: " if lay == "groups" else "aligned inputs must not be rejected / must not fail: ") + type(ex).__name__, str(ex)[:200]); continue
            if lay == "groups":
                _check_sorted_layout(sess, fn, res, labs, idx_labels, selected, exp, op, vkind, scale, unit); continue
            if not isinstance(res, pd.Series) or len(res) != n:
                sess.record("post", fn, "one output row per input row (a Series aligned with the input)", {"type": type(res).__name__, "len": len(res) if hasattr(res, "__len__") else None, "n": n}); continue
            if not dtype_ok(op, vkind, v.dtype, res.to_numpy().dtype):
                sess.record("post", fn, "temporal input: rolling min/max/shift keep the input dtype, diff is a timedelta in the input's time unit; float input stays float", {"in": str(v.dtype), "out": str(res.dtype)})
            _check_rows(sess, fn, op, decode(res, unit), exp, vkind, scale)
    if v.tobytes() != v0 or (m is not None and m.tobytes() != m0):
        sess.record("frame", "GroupBy._apply_rolling_or_cumulative_func", "values and mask are not written to", {"values_changed": v.tobytes() != v0})
    return calls


def _check_window_boundary(sess, case):
    """size boundary of the int16 position / counter arrays: window 32767 (last supported) and 32768; vectorised oracle on two interleaved groups without nulls"""
    from groupby_lib.groupby import numba as gn
    n, w = case["n"], case["window"]; rs = np.random.RandomState(7)
    v = (rs.randint(-8, 9, n) * 0.25).astype(float); codes = np.zeros(n, dtype=np.int64); codes[5::1000] = 1; calls = 0
    rows0 = np.nonzero(codes == 0)[0]; x = v[rows0]; cs = np.concatenate([[0.0], np.cumsum(x)]); j = np.arange(len(x))
    exp = {"sum": cs[j + 1] - cs[np.maximum(0, j + 1 - w)], "shift": np.where(j >= w, x[np.maximum(0, j - w)], np.nan)}
    for op in ("sum", "shift"):
        if "op" in case and case["op"] != op: continue
        sess.current_case = dict(case, op=op); fn = f"numba.rolling_{op}"; calls += 1
        try: res = gn.rolling_sum(codes, v, 2, w, min_periods=1) if op == "sum" else gn.rolling_shift(codes, v, 2, w)
        except Exception as ex:
            sess.record("raises", fn, f"valid kernel inputs must not fail: {type(ex).__name__}", str(ex)[:200]); continue
        g = np.asarray(res)[rows0]; e = exp[op]
        ok = (np.isnan(g) & np.isnan(e)) | (np.abs(g - e) <= 1e-9 * np.maximum(1.0, np.abs(e)))
        if not ok.all():
            i = int(np.nonzero(~ok)[0][0])
            sess.record("post", fn, clause_for(op, "float", None, None), {"row": int(rows0[i]), "got": str(g[i]), "expected": str(e[i]), "window": w})
    return calls


def check_case(sess, case):
    if case["lvl"] == "K": return _check_kernel(sess, case)
    if case["lvl"] == "W": return _check_window_boundary(sess, case)
    return _check_public(sess, case)


# ----------------------------------------------------------------------------- sidecar contracts on the real kernels
def _counter_bound(fn):
    """the largest window the kernel's per-group position / counter arrays can hold, read from the kernel's current source (None = 64-bit counters)"""
    import inspect
    try: src = inspect.getsource(getattr(fn, "py_func", fn))
    except Exception: return None
    return 32767 if "int16" in src else (2 ** 31 - 1 if "int32" in src else None)


def install(sess):
    from groupby_lib.groupby import numba as gn
    bounds = {name: _counter_bound(getattr(gn, name)) for name in ("_rolling_sum_or_mean_1d", "_rolling_max_or_min_1d", "_rolling_shift_or_diff_1d")}
    for name in bounds: sess.wrap("groupby_lib.groupby.numba", name, requires=_make_pre(bounds[name]), ensures=_post)


def _post(out, group_key, *a, **k):
    if len(out) != len(group_key): return "one output slot per row"


def _make_pre(bound):
    def pre(group_key, values, ngroups, window, *a, **k):
        n = len(group_key); tot = sum(len(x) for x in values)
        if bound is not None and window > bound: return f"window <= {bound} (the per-group position / counter arrays are narrower than 64 bits): unguarded precondition"
        if window < 1: return "window >= 1"
        if tot != n: return f"total length of the value chunks ({tot}) != len(group_key) ({n})"
        if n and int(np.max(group_key)) >= ngroups: return "group code >= ngroups (out-of-bounds write into the per-group state)"
        mask = k.get("mask")          # _apply_rolling passes everything by keyword
        if mask is not None and (len(mask) != n or np.asarray(mask).dtype.kind != "b"): return "mask must be a boolean array of the length of the group key"
    return pre
