"""C10 — EMA is the normalised exponentially weighted mean, per group.

P/L (unbounded, maintained separately): the four kernels emas._ema_adjusted / _ema_time_weighted / _ema_grouped / _ema_grouped_timed as the
N_k/D_k recursion + carry-forward + null-until-first-valid, L-ema (recursion == closed form).
B (bounded, this module): run-time contracts on the glue  emas.ema, emas.ema_grouped, GroupBy.ema  taken from the property statement:
   ensures  (valid row)    out == sum(w_s x_s) / sum(w_s) over the valid observations s of the same group up to the row,
                           w_s = (1-alpha) ** (number of rows of the group after s up to the row - valid or not), or 0.5 ** ((t - t_s) / halflife)
            (invalid row)  null value or masked: out == the group's previous output (bit-identical); null until the group's first valid row
            (null key)     the row belongs to no group: null output (input layout) / not present (group-sorted layout)
            (labels)       input layout: the input index; group-sorted layout: (group label, input label), original order within a group
            (halflife)     halflife h (no times) hands alpha == 1 - 2**(-1/h) to the kernel (captured by the kernel's wrapper) for real h;
                           halflife given as str / Timedelta with times reaches the kernel in ns, times in ns for every unit / tz
            (independence) rewriting the rows of the other groups (values, validity) leaves a group's outputs bit-identical
            (ungrouped)    per group: grouped output == emas.ema of the group's own series (invalid rows as nulls) from its first valid observation on
            (frame)        values / times / mask are not modified
 + kernel-precondition monitors and the same closed form as a postcondition on the four kernels (localises a fault: kernel or glue).
"Rows elapsed": the statement says "group rows", not "valid rows", and it names null-valued and masked rows together as the invalid rows that
"repeat the group's previous output" - both are rows of the group. emas._ema_adjusted multiplies the residuals by (1-alpha) on EVERY row
(valid or not), _ema_grouped on every row of the group with a non-null key, masked-out or not (pandas ignore_na=False). The oracle uses
that reading for every entry point: elapsed = all rows of the same group after s up to the row, valid or not; null-key rows are rows of
no group and do not count. (The other reading - a masked-out row is "not there" and does not advance the decay, i.e. mask == filtering
first - was tried in /repo and withdrawn; this check would report it under the "valid row" clause.) With times the weight depends on the
timestamps only, so the question does not arise.
Oracle: the closed form, pure Python; exact rationals (fractions.Fraction) for row-count decay, floats for time decay; rtol 1e-9.
"""
import itertools, io, contextlib, math
from fractions import Fraction
import numpy as np, pandas as pd
from . import common as C

PROP = "C10"; LEVEL = "other"; P_TIER = True
ALPHAS = [0.1, 0.5, 1.0]; HALFLIVES = [0.5, 1, 2.5, 7 / 3]
COUNT_PARAMS = [["alpha", a] for a in ALPHAS] + [["halflife", h] for h in HALFLIVES]
TIMED_PARAMS = [["str", "6h"], ["td_ns", 9_000_000_000_000], ["str", "1D"], ["td64_s", 4000]]      # halflife as str / pd.Timedelta / np.timedelta64
HL_NS = {"6h": 6 * 3600 * 10 ** 9, "1D": 86400 * 10 ** 9}
GAPS_MIN = [0, 300, 61, 0, 725, 180, 415, 90, 1, 1440, 7, 0, 33]        # irregular gaps (minutes) between consecutive rows, incl. repeated timestamps
TIME_KINDS = {   # base timestamp, numpy unit, tz, container
    "ns": ("2020-01-01", "ns", None, "array"), "us": ("2020-01-01", "us", None, "array"), "ms": ("2020-01-01", "ms", None, "array"), "s": ("2020-01-01", "s", None, "array"),
    "index": ("2020-01-01", "ns", None, "index"), "index_us": ("2020-01-01", "us", None, "index"), "tz": ("2020-03-07 20:00", "ns", "US/Eastern", "index"), "tz_us": ("2020-03-07 20:00", "us", "US/Eastern", "index"),
    "series": ("2020-01-01", "ns", None, "series"), "series_tz": ("2020-03-07 20:00", "ns", "Europe/Dublin", "series"),
    "pre1970": ("1960-05-01", "ns", None, "array"), "pre1970_us": ("1960-05-01", "us", None, "index"), "epoch0": ("1970-01-01", "ns", None, "array"), "straddle": ("1969-12-31 17:00", "ns", None, "array"),
}
INDEX_KINDS = ("none", "rot", "dup", "str")
KEY_KINDS = ("str", "float", "int", "cat", "two")
SCOPE = {"quick": "GroupBy.ema / ema_grouped / ema on: (A) keys over {null,a,b}^n, n<=4 exhaustive, x every invalid-row pattern (2^n) x realisation of invalid rows {null value, masked, mixed null/masked/both} x float64 x "
                  "both layouts x alpha in {0.1,0.5,1} and halflife in {0.5,1,2.5,7/3} for n<=3, {alpha 0.5, halflife 7/3} for n=4, with the ungrouped and independence relations; (B) value dtypes {float32,int64,int32} n<=3; "
                  "(C) containers: Series with rotated/duplicate/string index (mask and times as Series of the same index), two-column DataFrame/dict, n<=3 (n=3: masked / mixed realisations only); (D) key kinds {float NaN-null, int (3 groups), categorical with unused category, two keys} x sort on/off n<=3; "
                  "(E) times: 14 kinds {ns,us,ms,s arrays, DatetimeIndex ns/us, tz-aware ns/us, Series (tz-aware), pre-1970 ns/us, first row at epoch 0, straddling 1970} x halflife as str/Timedelta (also timedelta64 and a second str for ns/epoch0), n<=3 (n<=2 for s, DatetimeIndex us, tz-aware us, tz-aware Series, pre-1970 us, straddling); "
                  "(F) ema_grouped directly with codes {-1,0,1}, ngroups=3 (an empty group), code dtypes int64 (n<=3) and int8/int32 (n<=2), untimed/ns/epoch0; (G) ungrouped ema, every null pattern n<=5 x 4 dtypes x alpha/halflife/7 time kinds; seeded random cases up to 24 rows; 2 long series (300 rows)",
         "thorough": "as quick with (A) n<=5 exhaustive ({alpha 0.5, halflife 2.5, 7/3} for n>=4) and n=6 with the first label fixed, <=2 invalid rows or a leading invalid run, mixed realisation; (B)-(F) n<=4; (G) n<=7; two more containers; random cases up to 64 rows"}
RULE = "a case = (keys, invalid-row pattern, realisation, value dtype, container/index kind, key kind, sort, time kind, entry); each case is run with every parameter of its family and both layouts; distinct = distinct canonical JSON; non-trivial = two or more labels, or a null key, or an invalid row"
ASSUMPTIONS = ["A-real: float results compared with relative tolerance 1e-9 against exact rational arithmetic (row-count decay) / float closed form (time decay)", "A-exp: libm exp/log/pow accurate to a few ulp",
               "times are non-decreasing within a group and not NaT; halflife with times is a str/Timedelta (a bare number with times is ambiguous and not enumerated)",
               "masks are boolean (the documented type)",
               "pandas Series/Index/DatetimeIndex construction, tz conversion and .values behave as documented",
               "BOUNDED: the glue between the public entry points and the kernels is checked only within the stated scope"]
REQUIRED_CONTRACTS = {"emas._ema_grouped": 1, "emas._ema_grouped_timed": 1, "emas._ema_adjusted": 1, "emas._ema_time_weighted": 1}
EXPLANATION = ("Modular: the N/D recursion of the four kernels and its equality with the closed-form weighted mean are the P/L tiers (unbounded). The parameter conversion (alpha <-> halflife, halflife string -> ns, "
               "time unit / tz -> ns), per-column dispatch, factorisation of the keys, the group-sorted layout (one indexer applied to values, times and mask) and the result labelling are pandas glue: decided by "
               "run-time postconditions written from the statement (closed form in exact rationals) on the real ema / ema_grouped / GroupBy.ema over a bounded-exhaustive scope (bounded, not proved).")
BUDGET = {"quick": 60, "thorough": 500}
FLOATS = ("float", "float32")


# ----------------------------------------------------------------------------- executable specification (from the statement)
def spec_ema(groups, xs, valid, alpha=None, times=None, halflife=None, exact=True, counted=None):
    """groups[i]: hashable group id or None (row of no group); xs[i]: number or None; valid[i]: value non-null AND selected by the mask;
    counted[i]: the row is a row of its group for the purpose of "rows elapsed" (selected by the mask; its value may be null). Default: every row.
    -> list with None where the output is null, else Fraction (exact row-count decay) / float"""
    n = len(groups); out = [None] * n; last = {}; rows = {}
    if times is None: beta = 1 - (Fraction(alpha) if exact else float(alpha))
    for i in range(n):
        g = groups[i]
        if g is None: continue
        R = rows.setdefault(g, [])
        if counted is None or counted[i] or valid[i]: R.append(i)
        if valid[i] and xs[i] is not None:
            num = den = 0
            for j, s in enumerate(R):
                if not (valid[s] and xs[s] is not None): continue
                if times is None: w = beta ** (len(R) - 1 - j); x = Fraction(xs[s]) if exact else float(xs[s])
                else: w = 0.5 ** ((times[i] - times[s]) / halflife); x = float(xs[s])
                num += w * x; den += w
            out[i] = num / den
        else: out[i] = last.get(g)
        last[g] = out[i]
    return out


def alpha_of_halflife(h): return 1 - 2.0 ** (-1.0 / h)


# ----------------------------------------------------------------------------- materialisation
def make_keys(kkind, keys):
    """-> (object handed to GroupBy, logical label per row (None = null key))"""
    if kkind == "str": labs = [None if x is None else "qf"[x] for x in keys]; return np.array(labs, dtype=object), labs
    if kkind == "float": labs = [None if x is None else (2.5, -1.0)[x] for x in keys]; return np.array([np.nan if l is None else l for l in labs]), labs
    if kkind == "int": labs = [5 if x is None else (7, 3)[x] for x in keys]; return np.array(labs, dtype=np.int64), labs      # no null: a third group
    if kkind == "cat": labs = [None if x is None else "qf"[x] for x in keys]; return pd.Categorical(labs, categories=["q", "unused", "f"]), labs
    if kkind == "two":
        k1 = np.array([np.nan if x is None else 1.0 for x in keys]); k2 = np.array(["qf"[x or 0] for x in keys], dtype=object)
        return [k1, k2], [None if x is None else (1.0, "qf"[x]) for x in keys]
    raise ValueError(kkind)


def make_index(ikind, n):
    if ikind == "none": return None
    if ikind == "rot": return pd.Index([(i + 1) % n for i in range(n)], dtype=np.int64)          # a permutation of the positions that is not the identity (label != position)
    if ikind == "dup": return pd.Index([i // 2 for i in range(n)], dtype=np.int64)
    if ikind == "str": return pd.Index([f"r{n - i}" for i in range(n)], dtype=object)
    raise ValueError(ikind)


def invalid_split(inv, real, vkind):
    """-> (nulls, masked, use_mask): how each invalid row is realised"""
    n = len(inv); nulls = [False] * n; masked = [False] * n; j = 0
    for i in range(n):
        if not inv[i]: continue
        how = 1 if vkind not in FLOATS else {"null": 0, "mask": 1}.get(real, j % 3)
        if how in (0, 2): nulls[i] = True
        if how in (1, 2): masked[i] = True
        j += 1
    return nulls, masked, (real != "null" or any(masked))


def make_column(vkind, n, nulls):
    v, vals = C.make_values(vkind, n, nulls if vkind in FLOATS else None)
    return v, vals


def make_times(tkind, n, index=None):
    """-> (object handed as times=, list of exact integer ns)"""
    base, unit, tz, cont = TIME_KINDS[tkind]
    b = pd.Timestamp(base, tz=tz).value if tz else pd.Timestamp(base).value         # ns since epoch (UTC)
    ns = []; t = b
    for i in range(n):
        if i: t += GAPS_MIN[i % len(GAPS_MIN)] * 60 * 10 ** 9
        ns.append(t)
    div = {"ns": 1, "us": 10 ** 3, "ms": 10 ** 6, "s": 10 ** 9}[unit]
    arr = np.array([x // div for x in ns], dtype=np.int64).view(f"M8[{unit}]")
    if cont == "array": return arr, ns
    ix = pd.DatetimeIndex(arr)
    if tz: ix = ix.tz_localize("UTC").tz_convert(tz)
    if cont == "index": return ix, ns
    return pd.Series(ix, index=index), ns


def make_halflife(p):
    """-> (object handed as halflife=, exact ns)"""
    if p[0] == "str": return p[1], HL_NS[p[1]]
    if p[0] == "td_ns": return pd.Timedelta(p[1], unit="ns"), p[1]
    if p[0] == "td64_s": return np.timedelta64(p[1], "s"), p[1] * 10 ** 9
    raise ValueError(p)


# ----------------------------------------------------------------------------- cases
def _inv_patterns(n, cut=False):
    pats = list(itertools.product([False, True], repeat=n))
    if cut: pats = [p for p in pats if sum(p) <= 2 or all(p[:sum(p)])]
    return pats


def _reals(pat, vkind="float"):
    if vkind not in FLOATS: return ["mask"] if any(pat) else ["null", "mask"]
    return ["null", "mask", "mixed"] if any(pat) else ["null", "mask"]


def _base(keys, pat, real, **kw):
    d = {"entry": "groupby", "keys": list(keys), "inv": list(pat), "real": real, "vkind": "float", "cont": "array", "ikind": "none", "kkind": "str", "sort": True, "time": None}
    d.update(kw); return d


def _stream_a(tier):
    big = tier == "thorough"
    for n in range(0, (6 if big else 4) + 1):
        cut = n > 5
        for keys in itertools.product([None, 0, 1], repeat=n):
            if cut and next((k for k in keys if k is not None), 0) != 0: continue      # symmetry cut: the first non-null label is fixed
            for pat in _inv_patterns(n, cut):
                for real in (["mixed" if any(pat) else "mask"] if cut else _reals(pat)):
                    yield _base(keys, pat, real, rel=True) if n <= 3 else _base(keys, pat, real, rel="first", pset="two" if n == 4 and tier != "thorough" else "few")


def _stream_b(tier):
    N = 4 if tier == "thorough" else 3
    for n in range(1, N + 1):
        for vkind in ("float32", "int", "int32"):
            for keys in itertools.product([None, 0, 1], repeat=n):
                for pat in _inv_patterns(n):
                    for real in _reals(pat, vkind): yield _base(keys, pat, real, vkind=vkind, pset="few", rel=(n <= 2))


def _stream_c(tier):
    N = 4 if tier == "thorough" else 3
    for n in range(1, N + 1):
        for cont, ikind in [("series", "rot"), ("series", "dup"), ("series", "str"), ("frame", "rot"), ("dict", "none")] + ([("series", "none"), ("frame", "str")] if tier == "thorough" else []):
            for keys in itertools.product([None, 0, 1], repeat=n):
                for pat in _inv_patterns(n):
                    for real in (_reals(pat) if n <= 2 or tier == "thorough" else _reals(pat)[1:]): yield _base(keys, pat, real, cont=cont, ikind=ikind, pset="two", rel=(n <= 2))


def _stream_d(tier):
    N = 4 if tier == "thorough" else 3
    for n in range(1, N + 1):
        for kkind, sort in [("float", True), ("str", False), ("int", True), ("int", False), ("cat", True), ("two", True), ("float", False), ("two", False)]:
            for keys in itertools.product([None, 0, 1], repeat=n):
                for pat in _inv_patterns(n):
                    for real in (["mixed" if any(pat) else "null"]): yield _base(keys, pat, real, kkind=kkind, sort=sort, pset="two", rel=(n <= 2))


def _stream_e(tier):
    big = tier == "thorough"
    for n in range(1, 4 + 1):
        for tkind in TIME_KINDS:
            if not big and (n > 3 or (n > 2 and tkind in ("s", "index_us", "tz_us", "series_tz", "pre1970_us", "straddle"))): continue
            cont, ikind = (("series", "rot") if "series" in tkind else ("array", "none"))
            for keys in itertools.product([None, 0, 1], repeat=n):
                for pat in _inv_patterns(n):
                    for real in (_reals(pat) if tkind in ("ns", "series") and n <= 3 else ["mixed" if any(pat) else "null"]):
                        yield _base(keys, pat, real, time=tkind, cont=cont, ikind=ikind, rel=(tkind in ("ns", "epoch0", "us", "tz") or n <= 2), **({} if tkind in ("ns", "epoch0") and n <= 3 else {"pset": "few"}))


def _stream_f(tier):
    N = 4 if tier == "thorough" else 3
    for n in range(0, N + 1):
        for cdt in ("int64", "int8", "int32"):
            if cdt != "int64" and n > 2 and tier != "thorough": continue
            for time in (None, "ns", "epoch0"):
                for keys in itertools.product([None, 0, 1], repeat=n):
                    for pat in _inv_patterns(n):
                        for real in _reals(pat): yield _base(keys, pat, real, entry="ema_grouped", code_dtype=cdt, time=time, cont="series" if cdt == "int32" else "array", ikind="str" if cdt == "int32" else "none", **({} if cdt == "int64" else {"pset": "few"}))


def _stream_g(tier):
    N = 7 if tier == "thorough" else 5
    for n in range(0, N + 1):
        for vkind in ("float", "float32", "int", "int32"):
            for time in (None, "ns", "us", "tz", "pre1970", "epoch0", "series"):
                for pat in (_inv_patterns(n) if vkind in FLOATS else [tuple([False] * n)]):
                    yield {"entry": "ema", "keys": [0] * n, "inv": list(pat), "real": "null", "vkind": vkind, "cont": "series" if time in ("series", "us") else "array", "ikind": "rot" if time in ("series", "us") else "none",
                           "kkind": "str", "sort": True, "time": time}


def cases(tier, seed):
    return C.roundrobin(_stream_a(tier), _stream_b(tier), _stream_c(tier), _stream_d(tier), _stream_e(tier), _stream_f(tier), _stream_g(tier), weights=(6, 2, 2, 2, 4, 2, 2))


def extra_cases(tier, seed):
    for tkind in (None, "ns"):
        n = 300
        keys = [None if i % 11 == 5 else (i * i + i // 7) % 2 for i in range(n)]; inv = [i % 5 == 0 or 40 <= i < 47 for i in range(n)]
        yield _base(keys, inv, "mixed", time=tkind, long=True)


def random_case(rnd, tier):
    n = rnd.randint(5, 64 if tier == "thorough" else 24)
    entry = rnd.choice(["groupby", "groupby", "groupby", "ema_grouped", "ema"])
    vkind = rnd.choice(["float", "float", "float32", "int", "int32"])
    inv = [rnd.random() < 0.3 for _ in range(n)]
    if entry == "ema":
        if vkind not in FLOATS: inv = [False] * n
        return {"entry": "ema", "keys": [0] * n, "inv": inv, "real": "null", "vkind": vkind, "cont": rnd.choice(["array", "series"]), "ikind": rnd.choice(INDEX_KINDS), "kkind": "str", "sort": True,
                "time": rnd.choice([None, None, "ns", "us", "tz", "pre1970"])}
    keys = [rnd.choice([None, 0, 1, 0, 1]) for _ in range(n)]
    d = _base(keys, inv, rnd.choice(_reals(inv, vkind)), entry=entry, vkind=vkind, time=rnd.choice([None, None, None] + list(TIME_KINDS)))
    if entry == "ema_grouped": d.update(code_dtype=rnd.choice(["int64", "int8", "int32"]))
    else: d.update(cont=rnd.choice(["array", "series", "frame", "dict"]), ikind=rnd.choice(INDEX_KINDS), kkind=rnd.choice(KEY_KINDS), sort=rnd.random() < 0.6)
    if d["cont"] in ("array", "dict"): d["ikind"] = "none"
    if d["time"] and "series" in d["time"] and d["cont"] == "array": d["ikind"] = "none"
    return d


def nontrivial(case):
    ks = [k for k in case["keys"] if k is not None]
    return len(set(ks)) >= 2 or None in case["keys"] or any(case["inv"])


# ----------------------------------------------------------------------------- comparison helpers
def _bits_equal(a, b):
    a = float(a); b = float(b)
    return (math.isnan(a) and math.isnan(b)) or a == b


def _row_class(i, groups, valid_eff):
    """which clause of the statement governs row i"""
    g = groups[i]
    if g is None: return "null-key"
    if valid_eff[i]: return "valid"
    if not any(valid_eff[s] for s in range(i) if groups[s] == g): return "before-first-valid"
    return "invalid"


CLAUSES = {
    "null-key": "a row with a null key belongs to no group: its output is null",
    "before-first-valid": "a group's output is null until the group's first valid observation",
    "invalid": "an invalid row (null value or masked) repeats the group's previous output",
    "valid-count": "valid row == normalised weighted mean of the group's valid observations up to it, weight (1-alpha)**(group rows elapsed)",
    "valid-time": "valid row == normalised weighted mean of the group's valid observations up to it, weight 0.5**(elapsed time / halflife)",
}


def _compare_rows(sess, fn, got, exp, groups, valid_eff, timed, what, rows=None, start=None):
    """got: sequence of floats (by input row position); exp: spec outputs. Records the first mismatch under the clause that governs that row.
    start: dict group -> first row position that is constrained (ungrouped entry point: from the first valid observation on)"""
    n = len(exp)
    if len(got) != n: sess.record("post", fn, "one output per input row", {"what": what, "got_len": len(got), "expected_len": n}); return False
    prev = {}
    for i in (rows if rows is not None else range(n)):
        g = groups[i]; cls = _row_class(i, groups, valid_eff)
        if start is not None and (g not in start or i < start[g]): continue
        bad = not C.same(got[i], exp[i], int_null=False)
        if not bad and cls == "invalid" and g in prev and not _bits_equal(got[i], got[prev[g]]): bad = True       # carry-forward is a copy, not a recomputation
        if bad:
            clause = CLAUSES[cls if cls != "valid" else ("valid-time" if timed else "valid-count")]
            sess.record("post", fn, clause, {"what": what, "row": i, "got": [None if C.is_null(x) else float(x) for x in got], "expected": [None if e is None else float(e) for e in exp]})
            return False
        if g is not None: prev[g] = i
    return True


def _call(sess, fn, clause_prefix, f):
    try:
        with contextlib.redirect_stdout(io.StringIO()): return True, f()
    except Exception as ex:
        sess.record("raises", fn, f"valid inputs must not be rejected / must not fail: {type(ex).__name__}", {"what": clause_prefix, "error": str(ex)[:200]}); return False, None


def _snapshot(objs): return [None if o is None else (np.array(o.values if isinstance(o, (pd.Series, pd.Index)) else o, copy=True)) for o in objs]


def _frame_ok(sess, fn, objs, snap, names):
    for o, s, nm in zip(objs, snap, names):
        if o is None: continue
        now = np.asarray(o.values if isinstance(o, (pd.Series, pd.Index)) else o)
        eq = (now.shape == s.shape) and bool(np.all((now == s) | ((now != now) & (s != s))))
        if not eq: sess.record("frame", fn, f"inputs are not modified: {nm}", {"before": str(s), "after": str(now)})


# ----------------------------------------------------------------------------- the check
FEW_COUNT = [["alpha", 0.5], ["halflife", 2.5], ["halflife", 7 / 3]]; FEW_TIMED = [["str", "6h"], ["td_ns", 9_000_000_000_000]]


def _params(case):
    if case.get("long"): return [["alpha", 0.1]] if not case["time"] else [["str", "1D"]]
    if case.get("pset") == "few": return FEW_TIMED if case["time"] else FEW_COUNT
    if case.get("pset") == "two": return FEW_TIMED if case["time"] else [["alpha", 0.5], ["halflife", 7 / 3]]
    return TIMED_PARAMS if case["time"] else COUNT_PARAMS


def _kw(p):
    """-> (kwargs for the library, alpha or None, halflife ns or None)"""
    if p[0] == "alpha": return {"alpha": p[1]}, p[1], None
    if p[0] == "halflife": return {"halflife": p[1]}, alpha_of_halflife(p[1]), None
    hl, ns = make_halflife(p); return {"halflife": hl}, None, ns


def _check_alpha_seen(sess, fn, p, alpha, kernel):
    """halflife h without times must reach the kernel as alpha = 1 - 2**(-1/h)"""
    seen = [a for k, a in sess._c10_seen if k == kernel]
    if not seen: return
    for a in seen:
        if not (abs(float(a) - alpha) <= 1e-12):
            clause = "halflife h is handed to the kernel as alpha == 1 - 2**(-1/h) (any positive real h)" if p[0] == "halflife" else "alpha is handed to the kernel unchanged"
            sess.record("post", fn, clause, {"param": p, "alpha_at_kernel": float(a), "expected": alpha}); return


def _check_hl_seen(sess, fn, p, ns, tns, kernel, permuted=False):
    seen = [a for k, a in sess._c10_seen if k == kernel]
    for hl, t in seen:
        if int(hl) != ns: sess.record("post", fn, "halflife given as str / Timedelta reaches the timed kernel in nanoseconds", {"param": p, "halflife_at_kernel": int(hl), "expected": ns}); return
        if t is None: continue
        t = list(map(int, t))
        if (not set(t) <= set(tns)) if permuted else (t != list(tns)):        # group-sorted layout: a sub-multiset in another order; its alignment is decided by the closed form
            sess.record("post", fn, "times reach the timed kernel as nanoseconds since the epoch (any unit / tz)", {"at_kernel": t[:6], "expected": list(tns)[:6]}); return


def check_case(sess, case):
    if not hasattr(sess, "_c10_seen"): sess._c10_seen = []
    if case["entry"] == "ema": return _check_ungrouped(sess, case)
    if case["entry"] == "ema_grouped": return _check_ema_grouped(sess, case)
    return _check_groupby(sess, case)


def _columns(case, n, nulls):
    """-> list of (name, vkind, array, logical values)"""
    if case["cont"] in ("frame", "dict"):
        other = "int" if case["vkind"] == "float" else "float"
        return [("x", case["vkind"]) + make_column(case["vkind"], n, nulls), ("y", other) + make_column(other, n, nulls)]
    return [("x", case["vkind"]) + make_column(case["vkind"], n, nulls)]


def _check_groupby(sess, case):
    from groupby_lib.groupby import GroupBy
    from groupby_lib import emas
    n = len(case["keys"]); calls = 0; timed = case["time"] is not None
    k, labs = make_keys(case["kkind"], case["keys"])
    nulls, masked, use_mask = invalid_split(case["inv"], case["real"], case["vkind"])
    cols = _columns(case, n, nulls); index = make_index(case["ikind"], n) if case["cont"] in ("series", "frame") else None
    ilabels = list(index) if index is not None else list(range(n))
    if case["cont"] == "array": values = cols[0][2]
    elif case["cont"] == "series": values = pd.Series(cols[0][2], index=index, name="x")
    elif case["cont"] == "frame": values = pd.DataFrame({nm: a for nm, _, a, _ in cols}, index=index)
    else: values = {nm: a for nm, _, a, _ in cols}
    mask = None
    if use_mask:
        mask = np.array([not m for m in masked], dtype=bool)
        if case["cont"] == "series" and case["ikind"] != "none": mask = pd.Series(mask, index=index)
    times = tns = None
    if timed: times, tns = make_times(case["time"], n, index)
    ok, gb = _call(sess, "GroupBy.ema", "constructor", lambda: GroupBy(k, sort=case["sort"]))
    if not ok: return 1
    valid_eff = {nm: [not masked[i] and vals[i] is not None for i in range(n)] for nm, _, _, vals in cols}
    groups_present = list(dict.fromkeys(l for l in labs if l is not None))
    layouts = (False,) if case.get("long") else (False, True)
    for pi, p in enumerate(_params(case)):
        kw, alpha, hl_ns = _kw(p)
        exp = {nm: spec_ema(labs, vals, valid_eff[nm], alpha=alpha, times=tns, halflife=hl_ns, exact=not case.get("long")) for nm, _, _, vals in cols}
        first_out = None
        for ibg in layouts:
            c = dict(case, param=p, index_by_groups=ibg); sess.current_case = c; calls += 1
            objs = [a for _, _, a, _ in cols] + [times, mask]; snap = _snapshot(objs); sess._c10_seen.clear()
            ok, got = _call(sess, "GroupBy.ema", "call", lambda: gb.ema(values, times=times, mask=mask, index_by_groups=ibg, **kw))
            if not ok: continue
            _frame_ok(sess, "GroupBy.ema", objs, snap, [nm for nm, *_ in cols] + ["times", "mask"])
            if timed: _check_hl_seen(sess, "GroupBy.ema", p, hl_ns, tns, "_ema_grouped_timed", permuted=ibg)
            else: _check_alpha_seen(sess, "GroupBy.ema", p, alpha, "_ema_grouped")
            multi = case["cont"] in ("frame", "dict")
            if multi != isinstance(got, pd.DataFrame) or not isinstance(got, (pd.Series, pd.DataFrame)):
                sess.record("post", "GroupBy.ema", "one-column input gives a Series, multi-column input a DataFrame with the input's columns", {"got_type": type(got).__name__}); continue
            if multi and list(got.columns) != [nm for nm, *_ in cols]:
                sess.record("post", "GroupBy.ema", "one-column input gives a Series, multi-column input a DataFrame with the input's columns", {"got_columns": list(map(str, got.columns))}); continue
            for nm, vk, arr, vals in cols:
                col = got[nm] if multi else got
                if str(col.dtype) != "float64": sess.record("post", "GroupBy.ema", "EMA output is float64", {"dtype": str(col.dtype)})
                gl = list(col.index); gv = list(col.to_numpy())
                if not ibg:
                    if gl != ilabels: sess.record("post", "GroupBy.ema", "input layout: the result carries the input index, one row per input row", {"got": str(gl)[:200], "expected": str(ilabels)[:200]}); continue
                    by_row = gv
                else:
                    # group-sorted layout: rows (group label..., input label); per group the original relative order; no null-key row; every other row exactly once
                    def lab_of(t): t = tuple(t); return (t[:-1] if len(t) > 2 else t[0]), t[-1]
                    try: gpairs = [lab_of(t) for t in gl]
                    except Exception: gpairs = None
                    by_row = [float("nan")] * n; okl = gpairs is not None and len(gl) == sum(l is not None for l in labs)
                    if okl:
                        for g in groups_present:
                            rows_g = [r for r in range(n) if labs[r] == g]; got_g = [j for j, (gg, _) in enumerate(gpairs) if gg == g or (isinstance(g, float) and isinstance(gg, float) and gg == g)]
                            if [gpairs[j][1] for j in got_g] != [ilabels[r] for r in rows_g]: okl = False; break
                            for j, r in zip(got_g, rows_g): by_row[r] = gv[j]
                    if not okl:
                        sess.record("post", "GroupBy.ema", "group-sorted layout: rows labelled (group label, input label), every non-null-key row once, original order within a group",
                                    {"got": str(gl)[:240], "labels": str(labs), "input_index": str(ilabels)}); continue
                if first_out is None and not multi: first_out = (ibg, list(by_row))
                _compare_rows(sess, "GroupBy.ema", by_row, exp[nm], labs, valid_eff[nm], timed, {"column": nm, "layout": "group-sorted" if ibg else "input"})
        # ---- relations between entry points (once per parameter, on the input layout, first column)
        if first_out is None or first_out[0] or case.get("long") or not case.get("rel", True) or (case.get("rel") == "first" and pi): continue
        base = first_out[1]; nm, vk, arr, vals = cols[0]; ve = valid_eff[nm]
        # (ungrouped) per group: grouped output == ema() of the group's own series from its first valid observation on
        for g in groups_present:
            rows_g = [r for r in range(n) if labs[r] == g]
            if not any(ve[r] for r in rows_g): continue
            if vk not in FLOATS and any(not ve[r] for r in rows_g): continue             # an int series cannot carry the masked rows as nulls
            sub = np.array([arr[r] if ve[r] else np.nan for r in rows_g], dtype=arr.dtype) if vk in FLOATS else arr[rows_g]      # the same series: the group's rows, invalid ones as nulls
            subt = None if not timed else np.array([tns[r] for r in rows_g], dtype=np.int64).view("M8[ns]")
            sess.current_case = dict(case, param=p, relation="ungrouped", group=str(g)); calls += 1
            ok, ug = _call(sess, "emas.ema", "ungrouped counterpart", lambda: emas.ema(sub, times=subt, **kw))
            if not ok: continue
            f0 = next(j for j, r in enumerate(rows_g) if ve[r])
            badj = next((j for j in range(f0, len(rows_g)) if not C.same(base[rows_g[j]], None if C.is_null(ug[j]) else float(ug[j]), int_null=False)), None)
            if badj is not None:
                sess.record("post", "GroupBy.ema", "grouped EMA of a single group == ungrouped ema of the same series from the first valid observation on",
                            {"group": str(g), "grouped": [float(base[r]) for r in rows_g], "ungrouped": [float(x) for x in ug], "first_valid": f0})
        # (independence) rewrite every row outside the group: other values, other validity
        if pi == 0 or (timed and pi == 1):
            for g in groups_present:
                rows_g = [r for r in range(n) if labs[r] == g]
                if len(rows_g) == n: continue
                arr2 = arr.copy(); m2 = np.array([not m for m in masked], dtype=bool)
                for r in range(n):
                    if labs[r] == g: continue
                    arr2[r] = arr.dtype.type(100 + 3 * r) if ve[r] or vk not in FLOATS else arr.dtype.type(7 + r)      # invalid -> valid (and other value)
                    m2[r] = True if not ve[r] else (r % 2 == 0)                                                      # valid -> masked for every other row
                v2 = arr2 if case["cont"] != "series" else pd.Series(arr2, index=index, name="x")
                if case["cont"] in ("frame", "dict"): v2 = arr2
                sess.current_case = dict(case, param=p, relation="independence", group=str(g)); calls += 1
                ok, got2 = _call(sess, "GroupBy.ema", "independence counterpart", lambda: gb.ema(v2, times=times, mask=m2 if index is None or case["cont"] != "series" else pd.Series(m2, index=index), **kw))
                if not ok: continue
                g2 = list(got2.to_numpy())
                if len(g2) != n or any(not _bits_equal(g2[r], base[r]) for r in rows_g):
                    sess.record("post", "GroupBy.ema", "groups are independent: rewriting the rows of other groups leaves a group's outputs unchanged",
                                {"group": str(g), "before": [float(base[r]) for r in rows_g], "after": [float(g2[r]) for r in rows_g] if len(g2) == n else len(g2)})
    return calls


def _check_ema_grouped(sess, case):
    from groupby_lib import emas
    n = len(case["keys"]); calls = 0; timed = case["time"] is not None
    codes = np.array([-1 if x is None else x * 2 for x in case["keys"]], dtype=case.get("code_dtype", "int64")); groups = [None if x is None else x * 2 for x in case["keys"]]; ngroups = 3      # code 1 is an empty group
    nulls, masked, use_mask = invalid_split(case["inv"], case["real"], case["vkind"])
    arr, vals = make_column(case["vkind"], n, nulls)
    index = make_index(case["ikind"], n) if case["cont"] == "series" else None
    values = arr if case["cont"] != "series" else pd.Series(arr, index=index, name="x")
    mask = np.array([not m for m in masked], dtype=bool) if use_mask else None
    times = tns = None
    if timed: times, tns = make_times(case["time"], n, index)
    ve = [not masked[i] and vals[i] is not None for i in range(n)]
    for p in _params(case):
        kw, alpha, hl_ns = _kw(p)
        exp = spec_ema(groups, vals, ve, alpha=alpha, times=tns, halflife=hl_ns)
        sess.current_case = dict(case, param=p); calls += 1
        objs = [arr, times, mask, codes]; snap = _snapshot(objs); sess._c10_seen.clear()
        ok, got = _call(sess, "emas.ema_grouped", "call", lambda: emas.ema_grouped(codes, ngroups, values, times=times, mask=mask, **kw))
        if not ok: continue
        _frame_ok(sess, "emas.ema_grouped", objs, snap, ["values", "times", "mask", "group_key"])
        if timed: _check_hl_seen(sess, "emas.ema_grouped", p, hl_ns, tns, "_ema_grouped_timed")
        else: _check_alpha_seen(sess, "emas.ema_grouped", p, alpha, "_ema_grouped")
        if case["cont"] == "series":
            if not isinstance(got, pd.Series) or list(got.index) != (list(index) if index is not None else list(range(n))) or got.name != "x":
                sess.record("post", "emas.ema_grouped", "Series in -> Series out with the input's index and name", {"got": repr(got)[:200]}); continue
            got = got.to_numpy()
        elif not isinstance(got, np.ndarray): sess.record("post", "emas.ema_grouped", "array in -> float64 array out", {"got_type": type(got).__name__}); continue
        if str(got.dtype) != "float64": sess.record("post", "emas.ema_grouped", "EMA output is float64", {"dtype": str(got.dtype)})
        _compare_rows(sess, "emas.ema_grouped", list(got), exp, groups, ve, timed, {"entry": "ema_grouped"})
    return calls


def _check_ungrouped(sess, case):
    from groupby_lib import emas
    n = len(case["keys"]); calls = 0; timed = case["time"] is not None
    nulls, _, _ = invalid_split(case["inv"], "null", case["vkind"])
    if case["vkind"] not in FLOATS: nulls = [False] * n
    arr, vals = make_column(case["vkind"], n, nulls)
    index = make_index(case["ikind"], n) if case["cont"] == "series" else None
    values = arr if case["cont"] != "series" else pd.Series(arr, index=index, name="x")
    times = tns = None
    if timed: times, tns = make_times(case["time"], n, index)
    ve = [v is not None for v in vals]; groups = [0] * n
    if not any(ve): start = {}
    else: start = {0: ve.index(True)}
    for p in _params(case):
        kw, alpha, hl_ns = _kw(p)
        exp = spec_ema(groups, vals, ve, alpha=alpha, times=tns, halflife=hl_ns)
        sess.current_case = dict(case, param=p); calls += 1
        objs = [arr, times]; snap = _snapshot(objs); sess._c10_seen.clear()
        ok, got = _call(sess, "emas.ema", "call", lambda: emas.ema(values, times=times, **kw))
        if not ok: continue
        _frame_ok(sess, "emas.ema", objs, snap, ["values", "times"])
        if timed: _check_hl_seen(sess, "emas.ema", p, hl_ns, tns, "_ema_time_weighted")
        else: _check_alpha_seen(sess, "emas.ema", p, alpha, "_ema_adjusted")
        if case["cont"] == "series":
            if not isinstance(got, pd.Series) or list(got.index) != (list(index) if index is not None else list(range(n))) or got.name != "x":
                sess.record("post", "emas.ema", "Series in -> Series out with the input's index and name", {"got": repr(got)[:200]}); continue
            got = got.to_numpy()
        elif not isinstance(got, np.ndarray): sess.record("post", "emas.ema", "array in -> float64 array out", {"got_type": type(got).__name__}); continue
        if str(got.dtype) != "float64": sess.record("post", "emas.ema", "EMA output is float64", {"dtype": str(got.dtype)})
        _compare_rows(sess, "emas.ema", list(got), exp, groups, ve, timed, {"entry": "ema"}, start=start)
    return calls


# ----------------------------------------------------------------------------- sidecar contracts on the kernels
def install(sess):
    """kernel-precondition monitors (the `requires` the proofs rest on), capture of the parameters that reach the kernels, and the closed form as kernel postcondition"""
    sess._c10_seen = []

    def _common(group_key, values, ngroups, mask):
        n = len(values)
        if group_key is not None:
            if len(group_key) != n: return f"len(group_key)={len(group_key)} != len(values)={n}"
            if n and int(np.max(group_key)) >= ngroups: return "group code >= ngroups"
        if mask is not None:
            if getattr(mask, "dtype", None) != np.bool_: return f"mask dtype {getattr(mask, 'dtype', type(mask))} is not bool"
            if len(mask) != n: return f"len(mask)={len(mask)} != len(values)={n}"
        if np.asarray(values).dtype.kind not in "fi": return f"values dtype {np.asarray(values).dtype}"

    def _kernel_post(name, out, groups, values, mask, alpha=None, times=None, halflife=None, start=None):
        vals = [None if (isinstance(x, (float, np.floating)) and math.isnan(x)) else (float(x) if isinstance(x, (float, np.floating)) else int(x)) for x in values]
        n = len(vals)
        if n > 80: return None
        ve = [vals[i] is not None and (mask is None or bool(mask[i])) for i in range(n)]
        exp = spec_ema(groups, vals, ve, alpha=alpha, times=None if times is None else [int(t) for t in times], halflife=halflife, exact=False)
        if len(out) != n: return "kernel: one output per row"
        for i in range(n):
            if start is not None and (not start or i < start[0]): continue
            if not C.same(out[i], exp[i], int_null=False): return "kernel output == closed form (normalised weighted mean / carry-forward / null until first valid) of the kernel's own inputs"

    def pre_g(group_key, values, alpha, ngroups, mask=None):
        sess._c10_seen.append(("_ema_grouped", alpha))
        if not (0 < alpha <= 1): return f"alpha {alpha} not in (0, 1]"
        return _common(group_key, values, ngroups, mask)
    def post_g(out, group_key, values, alpha, ngroups, mask=None):
        return _kernel_post("_ema_grouped", out, [None if k < 0 else int(k) for k in group_key], values, mask, alpha=float(alpha))
    sess.wrap("groupby_lib.emas", "_ema_grouped", requires=pre_g, ensures=post_g)

    def pre_gt(group_key, values, times, halflife, ngroups, mask=None):
        sess._c10_seen.append(("_ema_grouped_timed", (halflife, np.array(times, copy=True) if len(times) <= 80 else None)))
        if not (isinstance(halflife, (int, np.integer)) and halflife > 0): return f"halflife {halflife!r} is not a positive integer (ns)"
        if getattr(times, "dtype", None) != np.int64 or len(times) != len(values): return "times must be int64 ns, one per row"
        return _common(group_key, values, ngroups, mask)
    def post_gt(out, group_key, values, times, halflife, ngroups, mask=None):
        return _kernel_post("_ema_grouped_timed", out, [None if k < 0 else int(k) for k in group_key], values, mask, times=times, halflife=int(halflife))
    sess.wrap("groupby_lib.emas", "_ema_grouped_timed", requires=pre_gt, ensures=post_gt)

    def _start(arr):
        nn = [i for i, x in enumerate(arr) if not (isinstance(x, (float, np.floating)) and math.isnan(x))]
        return nn[:1]
    def pre_a(arr, alpha):
        sess._c10_seen.append(("_ema_adjusted", alpha))
        if not (0 < alpha <= 1): return f"alpha {alpha} not in (0, 1]"
        return _common(None, arr, 1, None)
    def post_a(out, arr, alpha):
        return _kernel_post("_ema_adjusted", out, [0] * len(arr), arr, None, alpha=float(alpha), start=_start(arr))
    sess.wrap("groupby_lib.emas", "_ema_adjusted", requires=pre_a, ensures=post_a)

    def pre_t(arr, times, halflife):
        sess._c10_seen.append(("_ema_time_weighted", (halflife, np.array(times, copy=True) if len(times) <= 80 else None)))
        if not (isinstance(halflife, (int, np.integer)) and halflife > 0): return f"halflife {halflife!r} is not a positive integer (ns)"
        if getattr(times, "dtype", None) != np.int64 or len(times) != len(arr): return "times must be int64 ns, one per row"
        return _common(None, arr, 1, None)
    def post_t(out, arr, times, halflife):
        return _kernel_post("_ema_time_weighted", out, [0] * len(arr), arr, None, times=times, halflife=int(halflife), start=_start(arr))
    sess.wrap("groupby_lib.emas", "_ema_time_weighted", requires=pre_t, ensures=post_t)
