"""C12 — the same data in any supported container or dtype gives the same answer.

P (unbounded, maintained separately): min/max/first/last/cummin/cummax/shift/rolling-extreme results are elements of the input (witness form of the
kernel postconditions, value sort opaque); F: accumulator dtype table.
B (bounded, NOT counted as proved) - this file:
 (1) normaliser contracts, attached to the real functions (install):  logical(output) == logical(input)  where `logical` maps a container to
     (list of optional scalars, dtype class): util._val_to_numpy, util.to_arrow, util._convert_timestamp_to_tz_unaware, util.array_split_with_chunk_handling,
     util.convert_data_to_arr_list_and_keys, util._cast_timestamps_to_ints, GroupBy._convert_arr_to_pandas_series
 (2) end-to-end relation at the public API: one logical dataset (keys, values) is materialised in every container
     {numpy, pandas Series / Index (NumPy-, Arrow-backed, masked), pandas Categorical / DataFrame, polars Series / DataFrame, pyarrow Array / ChunkedArray with every
     chunking into <= 3 chunks, misaligned between keys and values} and every operation (8 reductions, cumsum/cummin/cummax, rolling sum/mean/min/max, shift, diff,
     head/nth) must return the same labels and the same numbers as the NumPy reference container; reductions are also compared with the executable specification
 (3) exactness clauses of the statement, checked on every result without a reference: min/max/first/last/cummin/cummax (and head/nth) return exactly elements
     of the input and keep its dtype class (int8..int64, uint, bool, timedelta and datetime with unit s/ms/us/ns, tz-aware datetimes with unit and zone);
     shift / rolling min / rolling max of temporal and float values return exactly elements of the input in the input's dtype class; integer sums are exact
     Python-integer sums (values near 2**62 whose sum still fits 64 bits)
"""
import itertools, io, contextlib, math
import numpy as np, pandas as pd
from . import common as C

PROP = "C12"; LEVEL = "other"; P_TIER = True
UNIT_NS = {"s": 10 ** 9, "ms": 10 ** 6, "us": 10 ** 3, "ns": 1}
RED = ["size", "count", "sum", "mean", "min", "max", "first", "last"]
OTHER = ["cumsum", "cummin", "cummax", "rolling_sum", "rolling_mean", "rolling_min", "rolling_max", "shift", "diff", "head", "nth"]
SELECT_OPS = {"min", "max", "first", "last", "cummin", "cummax", "head", "nth"}          # exactly elements of the input, dtype kept (every class)
EXTREME_OPS = {"shift", "rolling_min", "rolling_max"}                                      # exact + dtype kept for temporal and float classes
TOL_OPS = {"sum", "mean", "cumsum", "rolling_sum", "rolling_mean", "diff"}
VCLS_QUICK = ["float64", "float32", "int8", "int32", "int64", "uint8", "uint64", "bool", "td[ns]", "td[ms]", "dt[ns]", "dt[us]", "dt[s]", "dt[ns,UTC]", "dt[us,Europe/Paris]", "int64big"]
VCLS_ALL = VCLS_QUICK + ["int16", "uint16", "uint32", "td[us]", "td[s]", "dt[ms]", "dt[ms,UTC]", "dt[s,America/New_York]", "dt[ns,Europe/Paris]"]
VCONTS = ["pd.Series", "pd.Index", "pd.Series[arrow]", "pd.Index[arrow]", "pd.Series[masked]", "pd.DataFrame", "pl.Series", "pl.DataFrame", "pa.Array", "pa.ChunkedArray"]
KCLS = ["int64", "float64", "str", "bool", "dt[ns]"]
KCONTS = ["pd.Series", "pd.Index", "pd.Categorical", "pd.Series[category]", "pd.Series[arrow]", "pd.Index[arrow]", "pd.Series[masked]", "pd.DataFrame", "pl.Series", "pl.DataFrame", "pa.Array", "pa.DictionaryArray", "pa.ChunkedArray"]
SCOPE = {"quick": "values side: 16 value classes (float64/32, int8/32/64, uint8/64, bool, timedelta ns/ms, datetime ns/us/s, tz-aware ns-UTC and us-Europe/Paris, int64 near 2**62) x n<=3 rows x every null pattern x "
                  "{NumPy reference, pandas Series / Index NumPy-backed, pandas Series / Index Arrow-backed, pandas masked Series, pandas DataFrame, polars Series / DataFrame, pyarrow Array (+ NaN-instead-of-null for floats), "
                  "pyarrow ChunkedArray in every chunking into <=3 chunks} with NumPy int64 keys; "
                  "keys side: 5 key classes (int64, float64, str, bool, datetime ns) x keys over {null,a,b}, n<=3 exhaustive x {pandas Series / Index (NumPy-, Arrow-backed, masked), pandas Categorical / category Series, pandas DataFrame, polars Series / DataFrame / Categorical, "
                  "pyarrow Array / DictionaryArray / float Array with NaN, ChunkedArray in every chunking} with float64 NumPy values; "
                  "both sides: keys over {null,a,b} n in 2..3 x {int64/float64, str/int32, float64/tz-aware us-Europe/Paris, int64/bool} x 8 same-family pairs (polars, polars frames, pyarrow, pandas Arrow, pandas NumPy, pandas masked, Categorical, pandas frames) "
                  "and ChunkedArray keys x ChunkedArray values in every pair of chunkings (misaligned); 19 operations (8 reductions, cumsum/cummin/cummax, rolling sum/mean/min/max window 2, shift, diff, head(2), nth(1)); seeded random datasets up to 12 rows",
         "thorough": "as quick with all 25 value classes (int16, uint16/32, timedelta us/s, datetime ms, tz-aware ms-UTC, s-America/New_York, ns-Europe/Paris), n<=4 rows on every side, datetime values on the keys side, two more class pairs on both sides, random datasets up to 40 rows"}
RULE = ("a case = one logical dataset (key labels with nulls, key class, value scalars with nulls, value class) + a list of (key container, key chunking, value container, value chunking) variants; "
        "distinct = distinct canonical JSON; non-trivial = two labels, or a null key, or a null value, or a chunked layout")
ASSUMPTIONS = ["the constructors of pandas / polars / pyarrow used to materialise a dataset in a container preserve the logical values (pa.array, pl.from_arrow, pd.arrays.ArrowExtensionArray, pd.array, DatetimeIndex.tz_localize/tz_convert)",
               "`logical` reads containers through pyarrow (to_pylist, cast to int64 for temporal types) and NumPy views; both trusted",
               "A-real: sums / means / diffs compared with relative tolerance 1e-9 (temporal means: one unit of the input resolution); every other number must be identical",
               "a NumPy float64 array with NaN is the reference container for integer / boolean datasets that contain nulls (no NumPy integer representation exists); tz-aware datasets use the NumPy-backed pandas Series as reference",
               "sums of timestamps are not requested (meaningless); small temporal magnitudes (1971) keep int64 sums of <= 12 values in range",
               "BOUNDED: nothing here is counted as proved"]
REQUIRED_CONTRACTS = {"util._val_to_numpy": 1, "util.to_arrow": 1, "util._convert_timestamp_to_tz_unaware": 1, "util.array_split_with_chunk_handling": 1, "util.convert_data_to_arr_list_and_keys": 1,
                      "util._cast_timestamps_to_ints": 1, "core.GroupBy._convert_arr_to_pandas_series": 1}
EXPLANATION = ("Modular: every normaliser has the contract logical(output) == logical(input) and everything downstream consumes only their outputs; the exactness clauses are kernel postconditions (P tier). "
               "The glue (container dispatch, dtype bookkeeping, result re-typing) is decided here by run-time contracts on the real normalisers and by the end-to-end relation over a bounded-exhaustive set of datasets x containers x dtypes x operations; bounded, not proved.")
BUDGET = {"quick": 120, "thorough": 600}


# ----------------------------------------------------------------------------- dtype classes and logical scalars
def parse_cls(cls):
    """-> dict(kind, unit, tz, np) ; kinds: float int uint bool td dt str"""
    if cls == "int64big": cls = "int64"
    if cls.startswith("td["): return {"kind": "td", "unit": cls[3:-1], "tz": None, "np": f"m8[{cls[3:-1]}]"}
    if cls.startswith("dt["):
        parts = cls[3:-1].split(","); return {"kind": "dt", "unit": parts[0], "tz": parts[1] if len(parts) > 1 else None, "np": f"M8[{parts[0]}]"}
    if cls == "bool": return {"kind": "bool", "unit": None, "tz": None, "np": "bool"}
    if cls == "str": return {"kind": "str", "unit": None, "tz": None, "np": "O"}
    return {"kind": "uint" if cls.startswith("uint") else "int" if cls.startswith("int") else "float", "unit": None, "tz": None, "np": cls}


def norm_cls(cls): return "int64" if cls == "int64big" else cls


def make_values(vcls, n, nullpat):
    """position-tagged logical scalars in NATIVE form (floats, ints, bools; temporal: integer count of the class's unit); None = null"""
    p = parse_cls(vcls); out = []
    for i in range(n):
        if nullpat[i]: out.append(None); continue
        if p["kind"] == "float": out.append(float(((i * 7) % 5) * 1.5 - 2.0 + i * 0.25))
        elif vcls == "int64big": out.append(2 ** 62 - 1000 + 7 * i + 1 if i < 2 else int(((i * 5) % 7) - 3))      # at most two values near 2**62: every group sum fits int64, none fits float64 exactly
        elif p["kind"] == "int": out.append(int(((i * 5) % 7) - 3 + 10 * (i % 2)))
        elif p["kind"] == "uint": out.append(int(((i * 5) % 7) + 1 + 200 * (i % 2)))
        elif p["kind"] == "bool": out.append(bool((i * 3 + 1) % 2) if i % 3 else bool(i % 2))
        elif p["kind"] == "td": out.append((((i * 5) % 7 - 3) * 3600 * 10 ** 9 + (i + 1) * 1000003) // UNIT_NS[p["unit"]] + i + 1)
        elif p["kind"] == "dt": out.append((36720000 * 10 ** 9 + ((i * 5) % 7) * 86400 * 10 ** 9) // UNIT_NS[p["unit"]] + (i + 1) * 1001 + 1)     # 1971-03-02 ...: beyond 2**53 ns, sums of <= 255 values fit int64
    return out


def to_logical_scalars(vcls, native):
    """native -> logical: temporal values as integer nanoseconds (instants in UTC / durations)"""
    p = parse_cls(vcls)
    if p["kind"] in ("td", "dt"): return [None if x is None else x * UNIT_NS[p["unit"]] for x in native]
    return list(native)


def make_key_labels(kcls, keys):
    """keys over {None,0,1,2..} -> native key scalars"""
    if kcls == "int64": return [None if x is None else x + 5 for x in keys]
    if kcls == "float64": return [None if x is None else float(x) + 0.5 for x in keys]
    if kcls == "str": return [None if x is None else "abcdefgh"[x] for x in keys]
    if kcls == "bool": return [None if x is None else bool(x % 2) for x in keys]
    if kcls == "dt[ns]": return [None if x is None else 1609459200 * 10 ** 9 + x * 86400 * 10 ** 9 + 7 for x in keys]
    raise ValueError(kcls)


# ----------------------------------------------------------------------------- containers
def _pa_type(cls):
    import pyarrow as pa
    p = parse_cls(cls)
    if p["kind"] == "td": return pa.duration(p["unit"])
    if p["kind"] == "dt": return pa.timestamp(p["unit"], tz=p["tz"])
    if p["kind"] == "str": return pa.string()
    return {"float64": pa.float64(), "float32": pa.float32(), "bool": pa.bool_()}.get(norm_cls(cls)) or getattr(pa, norm_cls(cls))()


def _np_array(cls, native):
    """NumPy representation or None when the class / nulls have none"""
    p = parse_cls(cls); has_null = any(x is None for x in native)
    if p["tz"]: return None
    if p["kind"] in ("int", "uint", "bool") and has_null: return None
    if p["kind"] == "float": return np.array([np.nan if x is None else x for x in native], dtype=p["np"])
    if p["kind"] in ("td", "dt"): return np.array([np.iinfo(np.int64).min if x is None else x for x in native], dtype="i8").view(p["np"])
    if p["kind"] == "str": return np.array(native, dtype=object)
    return np.array(native, dtype=p["np"])


def _pd_tz(cls, native):
    p = parse_cls(cls)
    naive = np.array([np.iinfo(np.int64).min if x is None else x for x in native], dtype="i8").view(p["np"])
    return pd.DatetimeIndex(naive).tz_localize("UTC").tz_convert(p["tz"])


def build(cls, native, cont, layout=None):
    """materialise the logical column in a container; None = the container cannot hold this dataset (not a finding)"""
    import pyarrow as pa, polars as pl
    p = parse_cls(cls); has_null = any(x is None for x in native)
    if cont == "np": return _np_array(cls, native)
    if cont == "np-float":       # reference for integer / boolean data with nulls: the same numbers as float64
        return np.array([np.nan if x is None else float(x) for x in native], dtype="f8") if p["kind"] in ("int", "uint", "bool") else None
    if cont in ("pd.Series", "pd.Index", "pd.DataFrame"):
        if p["tz"]: idx = _pd_tz(cls, native); return pd.Series(idx) if cont == "pd.Series" else idx if cont == "pd.Index" else pd.DataFrame({"v": pd.Series(idx)})
        a = _np_array(cls, native)
        if a is None: return None
        return pd.Series(a) if cont == "pd.Series" else pd.Index(a) if cont == "pd.Index" else pd.DataFrame({"v": a})
    if cont == "pd.Series[masked]":
        if p["kind"] not in ("int", "uint", "bool", "float"): return None
        name = "boolean" if p["kind"] == "bool" else norm_cls(cls).replace("uint", "UInt").replace("int", "Int").replace("float", "Float")
        return pd.Series(pd.array(native, dtype=name))
    if cont in ("pd.Categorical", "pd.Series[category]"):
        if p["kind"] == "dt": vals = [pd.NaT if x is None else pd.Timestamp(x) for x in native]
        else: vals = native
        c = pd.Categorical(vals); return c if cont == "pd.Categorical" else pd.Series(c)
    arr = lambda xs: pa.array(xs, type=_pa_type(cls))
    if cont == "pa.Array": return arr(native)
    if cont == "pa.Array[nan]": return pa.array(np.array([np.nan if x is None else x for x in native], dtype=p["np"])) if p["kind"] == "float" else None
    if cont == "pa.DictionaryArray": return arr(native).dictionary_encode()
    if cont == "pa.ChunkedArray":
        b = np.cumsum([0] + list(layout or [len(native)])); return pa.chunked_array([arr(native[b[i]:b[i + 1]]) for i in range(len(b) - 1)], type=_pa_type(cls))
    if cont == "pd.Series[arrow]": return pd.Series(pd.arrays.ArrowExtensionArray(arr(native)))
    if cont == "pd.Index[arrow]": return pd.Index(pd.arrays.ArrowExtensionArray(arr(native)))
    if cont in ("pl.Series", "pl.DataFrame", "pl.Categorical"):
        if p["unit"] == "s": return None          # polars has no second resolution
        s = pl.from_arrow(arr(native))
        if cont == "pl.Categorical": return s.cast(pl.Categorical) if p["kind"] == "str" else None
        return s if cont == "pl.Series" else pl.DataFrame({"v": s})
    raise ValueError(cont)


def family(cont):
    return {"np": "NumPy", "np-float": "NumPy", "pd.Series": "pandas NumPy-backed", "pd.Index": "pandas NumPy-backed", "pd.DataFrame": "pandas NumPy-backed", "pd.Series[masked]": "pandas masked", "pd.Categorical": "pandas Categorical",
            "pd.Series[category]": "pandas Categorical", "pd.Series[arrow]": "pandas Arrow-backed", "pd.Index[arrow]": "pandas Arrow-backed", "pl.Series": "polars", "pl.DataFrame": "polars", "pl.Categorical": "polars Categorical",
            "pa.Array": "pyarrow Array", "pa.Array[nan]": "pyarrow Array", "pa.DictionaryArray": "pyarrow Array", "pa.ChunkedArray": "pyarrow ChunkedArray"}[cont]


# ----------------------------------------------------------------------------- logical(container)
def _scalar(x):
    if x is None or x is pd.NaT or x is pd.NA: return None
    if isinstance(x, (bool, np.bool_)): return bool(x)
    if isinstance(x, (int, np.integer)): return int(x)
    if isinstance(x, (float, np.floating)): return None if math.isnan(x) else float(x)
    if isinstance(x, pd.Timestamp): return (x.tz_convert("UTC").tz_localize(None) if x.tz is not None else x).as_unit("ns").value
    if isinstance(x, pd.Timedelta): return x.as_unit("ns").value
    if isinstance(x, np.datetime64): return None if np.isnat(x) else int(x.astype("M8[ns]").astype("i8"))
    if isinstance(x, np.timedelta64): return None if np.isnat(x) else int(x.astype("m8[ns]").astype("i8"))
    if isinstance(x, str): return x
    if isinstance(x, tuple): return tuple(_scalar(y) for y in x)
    try:
        if pd.isna(x): return None
    except Exception: pass
    return repr(x)


def _np_logical(a):
    k = a.dtype.kind
    if k == "f": return [None if math.isnan(v) else float(v) for v in a.tolist()], str(a.dtype)
    if k in "iu": return [int(v) for v in a.tolist()], str(a.dtype)
    if k == "b": return [bool(v) for v in a.tolist()], "bool"
    if k in "mM":
        unit = np.datetime_data(a.dtype)[0]; f = UNIT_NS.get(unit)
        if f is None: return [repr(v) for v in a.tolist()], str(a.dtype)
        ints = a.view("i8").tolist(); nat = np.iinfo(np.int64).min
        return [None if v == nat else v * f for v in ints], ("dt[" if k == "M" else "td[") + unit + "]"
    if k == "U": return [str(v) for v in a.tolist()], "str"
    vals = [_scalar(v) for v in a.tolist()]; kinds = {type(v).__name__ for v in vals if v is not None}
    return vals, "str" if kinds <= {"str"} else "object:" + "/".join(sorted(kinds))


def _pa_logical(arr):
    import pyarrow as pa
    t = arr.type; pref = ""
    if pa.types.is_dictionary(t):
        arr = arr.cast(t.value_type) if isinstance(arr, pa.ChunkedArray) else arr.dictionary_decode(); t = arr.type; pref = "category:"
    if pa.types.is_timestamp(t): return [None if x is None else x * UNIT_NS[t.unit] for x in arr.cast(pa.int64()).to_pylist()], pref + f"dt[{t.unit}{',' + t.tz if t.tz else ''}]"
    if pa.types.is_duration(t): return [None if x is None else x * UNIT_NS[t.unit] for x in arr.cast(pa.int64()).to_pylist()], pref + f"td[{t.unit}]"
    if pa.types.is_floating(t): return [None if x is None or math.isnan(x) else float(x) for x in arr.to_pylist()], pref + {"double": "float64", "float": "float32", "halffloat": "float16"}[str(t)]
    if pa.types.is_integer(t): return arr.to_pylist(), pref + str(t)
    if pa.types.is_boolean(t): return arr.to_pylist(), pref + "bool"
    if pa.types.is_string(t) or pa.types.is_large_string(t) or str(t) == "string_view": return arr.to_pylist(), pref + "str"
    if pa.types.is_null(t): return [None] * len(arr), "null"
    return [_scalar(x) for x in arr.to_pylist()], pref + str(t)


def logical(x):
    """container -> (list of optional scalars, dtype class).  Temporal scalars are integer nanoseconds (UTC instants / durations)."""
    import pyarrow as pa, polars as pl
    if isinstance(x, np.ndarray): return _np_logical(x)
    if isinstance(x, (pa.Array, pa.ChunkedArray)): return _pa_logical(x)
    if isinstance(x, pl.DataFrame): x = x.to_series(0)
    if isinstance(x, pl.Series): return _pa_logical(x.to_arrow())
    if isinstance(x, pd.DataFrame): x = x.iloc[:, 0]
    if isinstance(x, pd.Categorical): x = pd.Series(x)
    if isinstance(x, (pd.Series, pd.Index)):
        dt = x.dtype
        if isinstance(dt, np.dtype): return _np_logical(np.asarray(x))
        if isinstance(dt, pd.DatetimeTZDtype):
            arr = x.array; i8 = np.asarray(arr.asi8).tolist(); nat = np.iinfo(np.int64).min; f = UNIT_NS[dt.unit]
            return [None if v == nat else v * f for v in i8], f"dt[{dt.unit},{dt.tz}]"
        if isinstance(dt, pd.ArrowDtype): return _pa_logical(x.array.__arrow_array__())
        if isinstance(dt, pd.CategoricalDtype): return [_scalar(v) for v in x.astype(object).tolist()], "category"
        if isinstance(dt, pd.StringDtype): return [_scalar(v) for v in x.astype(object).tolist()], "str"
        if hasattr(dt, "numpy_dtype") and hasattr(x.array, "_mask"): return [_scalar(v) for v in x.astype(object).tolist()], str(dt.numpy_dtype)
        return [_scalar(v) for v in x.astype(object).tolist()], str(dt)
    if isinstance(x, (list, tuple)) or type(x).__name__ in ("List", "ListType"):
        parts = [logical(y) for y in x]
        return [v for p in parts for v in p[0]], (parts[0][1] if parts else "empty")
    raise TypeError(f"logical: unsupported container {type(x)}")


def _num_eq(a, b, tol):
    if a is None or b is None: return a is None and b is None
    if isinstance(a, str) or isinstance(b, str): return a == b
    if isinstance(a, tuple) or isinstance(b, tuple): return isinstance(a, tuple) and isinstance(b, tuple) and len(a) == len(b) and all(_num_eq(x, y, tol) for x, y in zip(a, b))
    if isinstance(a, (int, bool)) and isinstance(b, (int, bool)): return int(a) == int(b) if not tol else abs(int(a) - int(b)) <= tol * max(1, abs(int(b)))
    try:
        if not tol:
            if isinstance(a, float) and isinstance(b, int) or isinstance(a, int) and isinstance(b, float):      # exact comparison of an int with a float: the float must be that integer exactly
                f, i = (a, b) if isinstance(a, float) else (b, a); return f == i and int(f) == i
            return a == b
        return abs(float(a) - float(b)) <= tol * max(1.0, abs(float(b)))
    except Exception: return False


def _vals_eq(a, b, tol=0.0): return len(a) == len(b) and all(_num_eq(x, y, tol) for x, y in zip(a, b))


# ----------------------------------------------------------------------------- operations
def _call(gb, op, v):
    if op == "size": return gb.size()
    if op in RED or op in ("cumsum", "cummin", "cummax"): return getattr(gb, op)(v)
    if op.startswith("rolling_"): return getattr(gb, op)(v, window=2, min_periods=1)
    if op == "shift": return gb.shift(v, window=1)
    if op == "diff": return gb.diff(v, window=1)
    if op == "head": return gb.head(v, 2, keep_input_index=True)
    if op == "nth": return gb.nth(v, 1, keep_input_index=True)
    raise ValueError(op)


def ops_for(vcls):
    k = parse_cls(vcls)["kind"]
    if k == "dt": return [o for o in RED + OTHER if o not in ("sum", "cumsum", "rolling_sum", "rolling_mean")]
    return RED + OTHER


def _result_logical(r, op):
    """-> (index labels as logical scalars, values as logical scalars, dtype class)"""
    import polars as pl
    if isinstance(r, (pl.Series, pl.DataFrame)):
        vals, cls = logical(r); return list(range(len(vals))), vals, cls
    if isinstance(r, pd.DataFrame): r = r.iloc[:, 0]
    if isinstance(r, pd.Series):
        vals, cls = logical(r)
        idx = [_scalar(tuple(x)) for x in r.index.tolist()] if isinstance(r.index, pd.MultiIndex) else logical(r.index)[0]
        return idx, vals, cls
    vals, cls = logical(np.asarray(r)); return list(range(len(vals))), vals, cls


ROW_OPS = {"cumsum", "cummin", "cummax", "rolling_sum", "rolling_mean", "rolling_min", "rolling_max", "shift", "diff"}


def run_ops(kobj, vobj, ops, sort=True, keep=None):
    from groupby_lib.groupby import GroupBy
    out = {}
    with contextlib.redirect_stdout(io.StringIO()):
        try: gb = GroupBy(kobj, sort=sort)
        except Exception as ex: return {"GroupBy": ("raises", type(ex).__name__, str(ex)[:160].replace("\n", " "))}
        for op in ops:
            try:
                res = _result_logical(_call(gb, op, vobj), op)
                if op in ROW_OPS and keep is not None and len(res[1]) == len(keep): res = ([i for i, k in zip(res[0], keep) if k], [v for v, k in zip(res[1], keep) if k], res[2])      # rows with a null key are outside every claim
                out[op] = ("ok", res)
            except Exception as ex: out[op] = ("raises", type(ex).__name__, str(ex)[:160].replace("\n", " "))
    return out


def _opfam(op): return "GroupBy.<reduction>" if op in RED else "GroupBy.<head|nth>" if op in ("head", "nth") else "GroupBy.<cumulative|rolling|shift|diff>"


def _opgroup(op):
    for g in (("size", "count"), ("sum", "mean"), ("min", "max", "first", "last"), ("cummin", "cummax"), ("rolling_sum", "rolling_mean"), ("rolling_min", "rolling_max"), ("head", "nth")):
        if op in g: return "GroupBy.<" + "|".join(g) + ">"
    return f"GroupBy.{op}"


def dgroup(cls):
    """coarse dtype group used in the finding signature (the exact class, unit and zone are in the case)"""
    if cls == "int64big": return "int64 near 2**62"
    p = parse_cls(cls)
    return {"float": "float", "int": "integer", "uint": "unsigned integer", "bool": "bool", "td": "timedelta", "str": "str"}.get(p["kind"]) or ("tz-aware datetime" if p["tz"] else "datetime")


# ----------------------------------------------------------------------------- case streams
def _variants_values(vcls, n, native):
    out = []
    for cont in VCONTS:
        if cont == "pa.ChunkedArray": out += [{"kcont": "np", "vcont": cont, "vlayout": lay} for lay in C.compositions(n, 3)]
        else: out.append({"kcont": "np", "vcont": cont})
    if parse_cls(vcls)["kind"] == "float" and any(x is None for x in native): out.append({"kcont": "np", "vcont": "pa.Array[nan]"})
    return out


def _cases_values(tier):
    big = tier == "thorough"
    def one(vcls):
        for n in ([2, 1, 3, 4] if big else [2, 1, 3]):          # two rows first: two groups, the [1, 1] chunking, every null pattern
            keys = [0, 1, 0, 1][:n] if n != 3 else [0, 1, 0]
            for pat in itertools.product([False, True], repeat=n):
                if n == 4 and sum(pat) > 2 and not all(pat): continue
                native = make_values(vcls, n, pat)
                vs = _variants_values(vcls, n, native)
                for j in range(0, len(vs), 7):
                    yield {"side": "values", "keys": keys, "kcls": "int64", "vcls": vcls, "nullpat": list(pat), "variants": vs[j:j + 7]}
    return C.roundrobin(*[one(v) for v in (VCLS_ALL if big else VCLS_QUICK)])


def _variants_keys(n):
    out = []
    for cont in KCONTS:
        if cont == "pa.ChunkedArray": out += [{"kcont": cont, "klayout": lay, "vcont": "np"} for lay in C.compositions(n, 3)]
        else: out.append({"kcont": cont, "vcont": "np"})
    return out + [{"kcont": "pl.Categorical", "vcont": "np"}, {"kcont": "pa.Array[nan]", "vcont": "np"}]


def _cases_keys(tier):
    big = tier == "thorough"
    def one(kcls):
        for n in ([2, 1, 3, 4] if big else [2, 1, 3]):
            for keys in itertools.product([None, 0, 1], repeat=n):
                if n == 4 and keys[0] == 1: continue
                vs = _variants_keys(n)
                for vcls, pat in [("float64", [i == 1 for i in range(n)])] + ([("dt[ns]", [False] * n)] if kcls == "int64" and big else []):
                    for j in range(0, len(vs), 8):
                        yield {"side": "keys", "keys": list(keys), "kcls": kcls, "vcls": vcls, "nullpat": pat, "variants": vs[j:j + 8]}
    return C.roundrobin(*[one(k) for k in KCLS])


def _cases_both(tier):
    big = tier == "thorough"
    fams = [("pl.Series", "pl.Series"), ("pl.DataFrame", "pl.DataFrame"), ("pa.Array", "pa.Array"), ("pd.Series[arrow]", "pd.Series[arrow]"), ("pd.Series", "pd.Series"), ("pd.Series[masked]", "pd.Series[masked]"), ("pd.Categorical", "pd.Series"), ("pd.DataFrame", "pd.DataFrame")]
    for n in range(2, (4 if big else 3) + 1):
        lays = C.compositions(n, 3)
        for keys in itertools.product([None, 0, 1], repeat=n):
            if (n == 3 and keys[0] == 1 and not big) or (n == 4 and keys[0] != 0): continue
            for kcls, vcls in [("int64", "float64"), ("str", "int32"), ("float64", "dt[us,Europe/Paris]"), ("int64", "bool")] + ([("dt[ns]", "td[ms]"), ("bool", "uint8")] if big else []):
                for pat in ([False] * n, [i == n - 1 for i in range(n)]):
                    vs = [{"kcont": a, "vcont": b} for a, b in fams]
                    yield {"side": "both", "keys": list(keys), "kcls": kcls, "vcls": vcls, "nullpat": list(pat), "variants": vs}
                    if kcls == "int64" and vcls == "float64":
                        pairs = [{"kcont": "pa.ChunkedArray", "klayout": a, "vcont": "pa.ChunkedArray", "vlayout": b} for a in lays for b in lays]
                        for j in range(0, len(pairs), 8):
                            yield {"side": "both", "keys": list(keys), "kcls": kcls, "vcls": vcls, "nullpat": list(pat), "variants": pairs[j:j + 8]}


def cases(tier, seed):
    return C.roundrobin(_cases_values(tier), _cases_keys(tier), _cases_both(tier), weights=(4, 2, 1))


def extra_cases(tier, seed):
    """designed cases, run before the enumeration: chunked keys AND chunked values whose chunk boundaries coincide (two columns of one multi-row-group table) or not, with the
    nulls of the value column confined to a LATER chunk (so the chunks convert to different NumPy dtypes on their own: a null-free integer chunk stays integer, a chunk with nulls
    does not) and a group whose values are all null - for every nullable value class"""
    keys = [0, 1, 0, 1, 2, 2]; pats = ([False, False, False, False, True, True], [False, True, False, True, True, False])
    for vcls in ("int64", "int32", "float64", "bool", "dt[ns]", "td[ms]", "uint8"):
        for pat in pats:
            vs = [{"kcont": "pa.ChunkedArray", "klayout": kl, "vcont": "pa.ChunkedArray", "vlayout": vl} for kl, vl in (([4, 2], [4, 2]), ([2, 2, 2], [2, 2, 2]), ([4, 2], [3, 3]), ([3, 3], [4, 2]), ([6], [4, 2]))]
            yield {"side": "both", "keys": keys, "kcls": "int64", "vcls": vcls, "nullpat": list(pat), "variants": vs}
            yield {"side": "both", "keys": keys, "kcls": "str", "vcls": vcls, "nullpat": list(pat), "variants": vs[:2]}


def random_case(rnd, tier):
    n = rnd.randint(4, 40 if tier == "thorough" else 12)
    keys = [rnd.choice([None, 0, 1, 2, 2]) for _ in range(n)]; pat = [rnd.random() < 0.3 for _ in range(n)]
    def comp():
        cuts = sorted(rnd.sample(range(1, n), rnd.randint(1, 2))); b = [0] + cuts + [n]; return [b[i + 1] - b[i] for i in range(len(b) - 1)]
    v = {"kcont": rnd.choice(["np", "np"] + KCONTS), "vcont": rnd.choice(["np"] + VCONTS)}
    if v["kcont"] == "pa.ChunkedArray": v["klayout"] = comp()
    if v["vcont"] == "pa.ChunkedArray": v["vlayout"] = comp()
    return {"side": "random", "keys": keys, "kcls": rnd.choice(KCLS), "vcls": rnd.choice(VCLS_ALL if tier == "thorough" else VCLS_QUICK), "nullpat": pat, "variants": [v]}


def nontrivial(case):
    ks = [k for k in case["keys"] if k is not None]
    return len(set(ks)) >= 2 or len(ks) < len(case["keys"]) or any(case["nullpat"]) or any(v.get("klayout") or v.get("vlayout") for v in case["variants"])


# ----------------------------------------------------------------------------- the check
def _spec_mean_ok(got, vals, p):
    """temporal means: exact rational mean within one unit of the input resolution (+ float64 rounding of the quotient)"""
    nn = [v for v in vals if v is not None]
    if not nn: return got is None
    if got is None: return False
    exact = sum(nn) / len(nn) if p["kind"] not in ("td", "dt") else None
    if exact is not None: return abs(float(got) - exact) <= 1e-9 * max(1.0, abs(exact))
    s = sum(nn); return abs(got * len(nn) - s) <= len(nn) * (UNIT_NS[p["unit"]] + abs(s) // len(nn) // 2 ** 50 + 1)


CATEGORICAL = ("pd.Categorical", "pd.Series[category]", "pa.DictionaryArray", "pl.Categorical")


def _judge(op, res, D, kcont, nulls_in_values):
    """absolute clauses on one result -> list of (clause kind, clause text, detail). D = the logical dataset"""
    gi, gv, gcls = res; p = D["p"]; out = []
    if op in RED:          # (2a) reductions against the executable specification
        if kcont in CATEGORICAL and len(gi) == len(gv):      # categorical containers: the label order is the order of the categories / dictionary
            try: pairs = sorted(zip(gi, gv), key=lambda t: (t[0] is None, t[0])); gi, gv = [a for a, _ in pairs], [b for _, b in pairs]
            except Exception: pass
        if not _vals_eq(gi, D["labels"]): return [("labels", "labels == sorted distinct non-null logical keys", {"op": op, "got": str(gi)[:200], "expected": str(D["labels"])[:200]})]
        bad = []
        for lab, x in zip(gi, gv):
            rows = [D["vlog"][i] for i in range(D["n"]) if D["klog"][i] is not None and _num_eq(D["klog"][i], lab, 0)]
            if op == "mean": ok = _spec_mean_ok(x, rows, p)
            else:
                e = C.reduce_rows(op, rows)
                if p["kind"] == "bool" and e is None and op in ("min", "max", "first", "last"): ok = x is None or x is False
                else: ok = _num_eq(x, e, 1e-9 if op in TOL_OPS and p["kind"] == "float" else 0.0)
            if not ok: bad.append((str(lab), str(x), "mean of " + str(rows) if op == "mean" else str(C.reduce_rows(op, rows))))
        if bad: out.append(("value", "value == reduction of the logical values of the label" + (" (integer sums exact within 64 bits)" if op == "sum" and p["kind"] in ("int", "uint") else ""), {"op": op, "label,got,expected": bad[:4], "result dtype": gcls}))
    if (op in SELECT_OPS or (op in EXTREME_OPS and p["kind"] in ("td", "dt", "float"))) and op != "size":      # (3) exactness clauses
        inputs = [x for x in D["vlog"] if x is not None]
        stray = [x for x in gv if x is not None and not any(_num_eq(x, y, 0.0) for y in inputs)]
        if p["kind"] == "bool": stray = [x for x in stray if x is not False]
        if stray and not any(k == "value" for k, _, _ in out): out.append(("element", "every non-null result is exactly an element of the input", {"op": op, "not in the input": str(stray[:3]), "input": str(inputs)[:200], "result dtype": gcls}))
        want = norm_cls(D["vcls"])
        if gcls != want and (op in SELECT_OPS or p["kind"] in ("td", "dt")):
            out.append(("dtype", "the result keeps the dtype class of the input" + (" [input contains nulls]" if nulls_in_values and p["kind"] in ("int", "uint", "bool") else ""), {"op": op, "got": gcls, "expected": want}))
    return out


def _what(kcls, vcls, var, keys, nullpat, refs, dtypes=True):
    """signature tag: which side is in a non-reference container (+ dtype group for wrong results; failures are tagged by container family and error type only), nulls on that side"""
    kv = var["kcont"] != refs[0]; vv = var["vcont"] != refs[1] or not kv
    parts = ([(f"{dgroup(kcls)} " if dtypes else "") + f"keys as {family(var['kcont'])}" + (", null key" if None in keys else "")] if kv else []) + \
            ([(f"{dgroup(vcls)} " if dtypes else "") + f"values as {family(var['vcont'])}" + (", null value" if any(nullpat) else "")] if vv else [])
    return "[" + " / ".join(parts) + "]"


def check_case(sess, case):
    kcls, vcls = case["kcls"], case["vcls"]; keys = case["keys"]; n = len(keys); p = parse_cls(vcls)
    knat = make_key_labels(kcls, keys); vnat = make_values(vcls, n, case["nullpat"])
    D = {"p": p, "n": n, "vcls": vcls, "klog": to_logical_scalars(kcls, knat), "vlog": to_logical_scalars(vcls, vnat)}
    D["labels"] = sorted({l for l in D["klog"] if l is not None})
    ops = [case["op"]] if case.get("op") in RED + OTHER else ops_for(vcls); nulls = any(case["nullpat"]); calls = [0]
    # ---- reference container: NumPy (float64 with NaN for integer / bool data containing nulls; NumPy-backed pandas Series for tz-aware data); it is judged like every other container
    kref_cont = next(c for c in ("np", "np-float", "pd.Series") if build(kcls, knat, c) is not None)
    vref_cont = next(c for c in ("np", "np-float", "pd.Series") if build(vcls, vnat, c) is not None)
    refvar = {"kcont": kref_cont, "vcont": vref_cont}
    sess.current_case = dict(case, variants=[refvar])
    keep = [k is not None for k in keys]
    ref = run_ops(build(kcls, knat, kref_cont), build(vcls, vnat, vref_cont), ops, keep=keep); calls[0] += len(ref)
    ref_bad = {}
    refs = (kref_cont, vref_cont); what = _what(kcls, vcls, refvar, keys, case["nullpat"], refs)
    for op in ops:
        if op in ref and ref[op][0] == "ok" and vref_cont != "np-float":
            for kind, clause, detail in _judge(op, ref[op][1], D, kref_cont, nulls):
                ref_bad[(op, kind)] = True; sess.current_case = dict(case, variants=[refvar], op=op); sess.record("post", _opgroup(op), f"{what} {clause}", detail)

    def evaluate(var):
        """-> list of findings (key, kind, function, clause, detail, op) of one (key container, value container) variant; key = (op, category) identifies the failure"""
        sess.current_case = dict(case, variants=[var]); F = []
        try:
            kobj = build(kcls, knat, var["kcont"], var.get("klayout")); vobj = build(vcls, vnat, var["vcont"], var.get("vlayout"))
        except Exception as ex:
            sess.record("oracle", "harness", f"building the container failed: {type(ex).__name__}", str(ex)[:200]); return F
        if kobj is None or vobj is None: return F
        got = run_ops(kobj, vobj, ops, keep=keep); calls[0] += len(got)
        what = _what(kcls, vcls, var, keys, case["nullpat"], refs); what_r = _what(kcls, vcls, var, keys, case["nullpat"], refs, dtypes=False)
        if "GroupBy" in got:
            if "GroupBy" not in ref: F.append((("GroupBy", "raises:" + got["GroupBy"][1]), "raises", "GroupBy.__init__", f"{what_r} a supported key container must be accepted: {got['GroupBy'][1]}", {"key class": kcls, "error": got["GroupBy"][2]}, "GroupBy"))
            return F
        for op in ops:
            if op not in got: continue
            g = got[op]; r = ref.get(op); fn = _opgroup(op)
            if g[0] == "raises":
                if r is not None and r[0] == "raises" and r[1] == g[1]: continue
                F.append(((op, "raises:" + g[1]), "raises", _opfam(op), f"{what_r} a supported container must be accepted: {g[1]}", {"op": op, "classes": f"{kcls} keys, {vcls} values", "error": g[2]}, op)); continue
            gi, gv, gcls = g[1]; same_as_ref = differs = False
            # (2b) relation to the reference container
            if r is not None and r[0] == "ok":
                ri, rv, rcls = r[1]
                if var["kcont"] in CATEGORICAL and op in ("head", "nth") and len(gi) == len(gv) and len(ri) == len(rv):      # categorical keys: rows come group by group in category order; same (row, value) pairs
                    gi, gv = map(list, zip(*sorted(zip(gi, gv), key=lambda t: t[0]))) if gi else ([], []); ri, rv = map(list, zip(*sorted(zip(ri, rv), key=lambda t: t[0]))) if ri else ([], [])
                if var["kcont"] in CATEGORICAL and op in RED: pass          # label order differs by design; the specification clause below compares per label
                elif not _vals_eq(gi, ri): F.append(((op, "index"), "post", fn, f"{what} row index / labels identical to the NumPy reference container", {"op": op, "got": str(gi)[:200], "reference": str(ri)[:200]}, op))
                elif not _vals_eq(gv, rv, 1e-9 if op in TOL_OPS else (2.0 ** -52 if vref_cont == "np-float" else 0.0)):      # a float64 reference for integer data with nulls carries float64 rounding
                    differs = True; F.append(((op, "numbers"), "post", fn, f"{what} same numbers as the NumPy reference container", {"op": op, "got": str(gv)[:240], "reference": str(rv)[:240], "dtypes": f"{gcls} vs {rcls}"}, op))
                else: same_as_ref = _vals_eq(gv, rv) and gcls == rcls
            # (2a) + (3): a clause the reference container breaks with the very same result is reported once, for the reference container
            for kind, clause, detail in _judge(op, g[1], D, var["kcont"], nulls):
                if same_as_ref and (op, kind) in ref_bad: continue
                if differs and kind in ("value", "element"): continue          # already reported as a difference to the reference container
                if var["vcont"] == "np-float" and kind == "dtype": continue      # the float64 stand-in of integer / bool data with nulls has no integer dtype to keep
                F.append(((op, kind), "post", fn, f"{what} {clause}", detail, op))
        return F

    def report(var, F, skip=()):
        for key, kind, fn, clause, detail, op in F:
            if key in skip or ("GroupBy", key[1]) in skip: continue
            sess.current_case = dict(case, variants=[var], op=op); sess.record(kind, fn, clause, detail)

    for var in case["variants"]:
        F = evaluate(var)
        if F and var["kcont"] != kref_cont and var["vcont"] != vref_cont:
            # both sides are in a non-reference container: a failure that one side alone already produces is reported for that side only
            kv = {"kcont": var["kcont"], "vcont": vref_cont, **({"klayout": var["klayout"]} if "klayout" in var else {})}; vv = {"kcont": kref_cont, "vcont": var["vcont"], **({"vlayout": var["vlayout"]} if "vlayout" in var else {})}
            Fk, Fv = evaluate(kv), evaluate(vv); report(kv, Fk); report(vv, Fv)
            report(var, F, skip={f[0] for f in Fk} | {f[0] for f in Fv})
        else: report(var, F)
    return calls[0]


# ----------------------------------------------------------------------------- normaliser contracts
def _same_logical(out, inp, widen_ok=True):
    (ov, oc), (iv, ic) = out, inp
    if not _vals_eq(ov, iv): return "values differ"
    if oc != ic:
        if widen_ok and any(v is None for v in iv) and ic.split(":")[-1].startswith(("int", "uint", "bool")) and oc.startswith("float"): return None     # integers with nulls have no NumPy integer form
        if ic.startswith("category") or oc.startswith("category") or ic == "null" or ic.startswith("object") or oc.startswith("object"): return None
        if ic == "str" or oc == "str": return None if {ic, oc} <= {"str", "object:str"} else f"dtype class {oc} vs {ic}"
        return f"dtype class {oc} vs {ic}"
    return None


def _cg(c):
    c = c.split(":")[-1]
    return "tz-aware datetime" if c.startswith("dt[") and "," in c else "datetime" if c.startswith("dt[") else "timedelta" if c.startswith("td[") else "unsigned integer" if c.startswith("uint") else "integer" if c.startswith("int") else "float" if c.startswith("float") else c


def install(sess):
    import importlib
    users = lambda name: [(m, name) for m in ("groupby_lib.groupby.core", "groupby_lib.groupby.numba", "groupby_lib.groupby.factorization", "groupby_lib.emas", "groupby_lib.nanops")]
    SMALL = 64
    def guard(f):
        def g(out, *a, **k):
            try: return f(out, *a, **k)
            except Exception as ex:          # the contract could not be evaluated on this input (e.g. a container `logical` does not read): counted, never reported as a violation
                sess.evals[f"{f.__name__}:not_evaluated:{type(ex).__name__}"] += 1; return None
        return g

    @guard
    def post_val_to_numpy(out, val, as_list=False):
        if len(val) > SMALL: return None
        inp = logical(val)
        if inp[1].split(":")[-1].startswith("dt[") and "," in inp[1]: inp = (inp[0], inp[1].split(",")[0] + "]")      # tz-aware input: the NumPy form is the naive UTC instant of the same unit (zone kept by the caller)
        if as_list:
            if not all(isinstance(c, np.ndarray) for c in out): return "as_list=True returns NumPy chunks"
            msg = _same_logical(logical(list(out)) if len(out) else ([], inp[1]), inp)
        else:
            if not isinstance(out, np.ndarray): return "returns a NumPy array"
            msg = _same_logical(logical(out), inp)
        return msg and f"logical(output) == logical(input) [{type(val).__module__.split('.')[0]}.{type(val).__name__} {_cg(inp[1])}]: {msg}"
    sess.wrap("groupby_lib.util", "_val_to_numpy", ensures=post_val_to_numpy, also=users("_val_to_numpy"))

    @guard
    def post_to_arrow(out, a, zero_copy_only=True):
        if len(a) > SMALL: return None
        inp = logical(a); msg = _same_logical(logical(out), inp)
        return msg and f"logical(output) == logical(input) [{type(a).__module__.split('.')[0]}.{type(a).__name__} {_cg(inp[1])}]: {msg}"
    sess.wrap("groupby_lib.util", "to_arrow", ensures=post_to_arrow, also=users("to_arrow"))

    @guard
    def post_tz_unaware(out, val):
        if len(val) > SMALL: return None
        arr, typ = out; inp = logical(val); got = logical(arr)
        if not _vals_eq(got[0], inp[0]): return f"the instants of the output == the instants of the input (UTC) [{type(val).__module__.split('.')[0]}.{type(val).__name__} {_cg(inp[1])}]: {str(got[0])[:100]} vs {str(inp[0])[:100]}"
        if got[1].split(",")[0].rstrip("]") != inp[1].split(",")[0].rstrip("]"): return f"the output keeps the time unit of the input: {got[1]} vs {inp[1]}"
        want = val.dtype if hasattr(val, "dtype") and not type(val).__module__.startswith("polars") else None
        if want is not None and typ != want: return f"the returned dtype is the dtype of the input: {typ} vs {want}"
    sess.wrap("groupby_lib.util", "_convert_timestamp_to_tz_unaware", ensures=post_tz_unaware, also=users("_convert_timestamp_to_tz_unaware"))

    @guard
    def post_split(out, a, chunk_lengths):
        if len(a) > SMALL: return None
        if len(out) != len(chunk_lengths) or any(len(c) != k for c, k in zip(out, chunk_lengths)): return f"chunks have the requested lengths {list(chunk_lengths)}: {[len(c) for c in out]}"
        inp = logical(a)
        if inp[1].startswith("dt[") and "," in inp[1]: inp = (inp[0], inp[1].split(",")[0] + "]")
        if not len(a): return None
        msg = _same_logical(logical(list(out)), inp)
        return msg and f"logical(concatenation of the chunks) == logical(input) [{type(a).__name__} {_cg(inp[1])}]: {msg}"
    sess.wrap("groupby_lib.util", "array_split_with_chunk_handling", ensures=post_split, also=users("array_split_with_chunk_handling"))

    @guard
    def post_convert(out, data):
        import polars as pl, pyarrow as pa
        arrs, names = out
        if len(arrs) != len(names): return "one name per array"
        if isinstance(data, (pd.DataFrame, pl.DataFrame)):
            if list(names) != list(data.columns): return "names == the frame's columns"
            if len(data) > SMALL: return None
            for a, c in zip(arrs, data.columns):
                msg = _same_logical(logical(a), logical(data[c]), widen_ok=False)
                if msg: return f"logical(array) == logical(column) [{type(data).__module__.split('.')[0]}.DataFrame]: {msg}"
        elif isinstance(data, (pd.Series, pl.Series, np.ndarray, pd.Index, pd.Categorical, pa.ChunkedArray, pa.Array)) and np.ndim(data) == 1:
            if len(arrs) != 1 or arrs[0] is not data: return "a single 1-D container is passed through unchanged"
    sess.wrap("groupby_lib.util", "convert_data_to_arr_list_and_keys", ensures=post_convert, also=users("convert_data_to_arr_list_and_keys"))

    @guard
    def post_cast(out, arr):
        ints, typ = out
        if typ != arr.dtype: return "the returned dtype is the dtype of the input"
        if len(arr) > SMALL: return None
        if arr.dtype.kind in "mM":
            if ints.dtype != np.int64: return "temporal arrays are viewed as int64"
            if not _vals_eq(logical(ints.view(typ))[0], logical(arr)[0]): return "int64 view reinterpreted with the returned dtype == the input (no unit change, NaT kept)"
        elif ints is not arr: return "non-temporal arrays are passed through unchanged"
    sess.wrap("groupby_lib.util", "_cast_timestamps_to_ints", ensures=post_cast, also=users("_cast_timestamps_to_ints"))

    @guard
    def post_to_series(out, old, self, arr, orig_type, index):
        if old is None: return None
        got = logical(out); src = old          # the input is read BEFORE the call: pandas may rewrite the int64 buffer it is handed (copy=False)
        if not _vals_eq(got[0], src[0]): return f"temporal results keep their instants when re-typed [{type(orig_type).__name__}]"
        if got[1].split(",")[0].rstrip("]") != src[1].split(",")[0].rstrip("]"): return f"temporal results keep their time unit when re-typed [{type(orig_type).__name__}]: {got[1]} vs {src[1]}"
    sess.wrap("groupby_lib.groupby.core", "GroupBy._convert_arr_to_pandas_series", ensures=post_to_series, snapshot=lambda self, arr, orig_type, index: logical(arr) if len(arr) <= SMALL and arr.dtype.kind in "mM" else None)


# ----------------------------------------------------------------------------- S / F tiers: the null convention every kernel proof relies on
def static_obligations(repo, tier):
    """S: numba's overload of is_null (util.jit_is_null) returns its k-th nested body exactly under the test for the k-th numba type class (Float -> #0, Integer -> #1,
    Boolean -> #2): the bodies themselves are under contract in the P tier (contracts/kernels.py, records jit_is_null.is_null#k), the engine resolves is_null(x) by the kind
    of x accordingly.  S: MIN_INT is defined as the minimum of int64.  F: _null_value_for_numpy_type over every NumPy dtype the library accepts (complete enumeration of the
    real function): NaN for floats, NaT for temporal types, the minimum for signed integers, False for bool - and for int64 (what temporal values run as) exactly MIN_INT."""
    import ast, os, sys
    rows = []; path = os.path.join(repo, "groupby_lib", "util.py"); tree = ast.parse(open(path).read())
    fn = next((n for n in tree.body if isinstance(n, ast.FunctionDef) and n.name == "jit_is_null"), None)
    want = [("Float", 0), ("Integer", 1), ("Boolean", 2)]; got = []; detail = ""
    if fn is None: detail = "jit_is_null not found"
    else:
        defs = sorted([n for n in ast.walk(fn) if isinstance(n, ast.FunctionDef) and n is not fn], key=lambda n: (n.lineno, n.col_offset))
        def branches(stmts):
            for s_ in stmts:
                if isinstance(s_, ast.If):
                    classes = sorted({x.attr for x in ast.walk(s_.test) if isinstance(x, ast.Attribute) and isinstance(x.value, ast.Attribute) and x.value.attr == "types"})
                    inner = [d for d in s_.body if isinstance(d, ast.FunctionDef)]; rets = [r for r in s_.body if isinstance(r, ast.Return)]
                    if len(inner) == 1 and len(rets) == 1 and isinstance(rets[0].value, ast.Name) and rets[0].value.id == inner[0].name: got.append((classes, defs.index(inner[0])))
                    else: got.append((classes, None))
                    yield from branches(s_.orelse)
                elif not (isinstance(s_, ast.Expr) and isinstance(s_.value, ast.Constant)): got.append((["<other statement>"], None))
        list(branches(fn.body))
        dec_ok = any(isinstance(d, ast.Call) and getattr(d.func, "id", getattr(d.func, "attr", "")) == "overload" and d.args and ast.unparse(d.args[0]) == "is_null" for d in fn.decorator_list)
        detail = f"branches {got}, registered as overload of is_null: {dec_ok}"
    ok = fn is not None and dec_ok and [(c, k) for c, k in got] == [([c], k) for c, k in want]
    rows.append({"name": "util.py::jit_is_null::dispatch-by-numba-type", "tier": "S", "ok": bool(ok), "exhaustive": True, "detail": detail, "case": None if ok else {"branches": str(got)}})
    asg = next((n for n in tree.body if isinstance(n, ast.Assign) and any(isinstance(t, ast.Name) and t.id == "MIN_INT" for t in n.targets)), None)
    ok2 = asg is not None and ast.unparse(asg.value).replace(" ", "") == "np.iinfo(np.int64).min"
    rows.append({"name": "util.py::MIN_INT::is-int64-minimum", "tier": "S", "ok": bool(ok2), "exhaustive": True, "detail": ast.unparse(asg) if asg is not None else "not found", "case": None if ok2 else {"definition": ast.unparse(asg) if asg is not None else None}})
    # F: the real function on every dtype (complete)
    if repo not in sys.path: sys.path.insert(0, repo)
    import importlib, numpy as np
    try:
        util = importlib.import_module("groupby_lib.util"); bad = []; n = 0
        for dt in ["float16", "float32", "float64", "int8", "int16", "int32", "int64", "uint8", "uint16", "uint32", "uint64", "bool", "m8[ns]", "m8[us]", "m8[ms]", "m8[s]", "M8[ns]", "M8[us]", "M8[ms]", "M8[s]"]:
            d = np.dtype(dt); n += 1; v = util._null_value_for_numpy_type(d)
            exp_ok = (np.isnan(v) if d.kind == "f" else (np.isnat(v) if d.kind in "mM" else (v == np.iinfo(d).min if d.kind == "i" else (v == np.iinfo(d).max if d.kind == "u" else v is False or v == False))))
            if d == np.dtype("int64") and int(v) != -2 ** 63: exp_ok = False
            if d.kind in "mM" and int(np.asarray(v).view("int64")) != -2 ** 63: exp_ok = False
            if not exp_ok: bad.append((dt, repr(v)))
        for dt in ["O", "U3", "c16"]:
            n += 1
            try: util._null_value_for_numpy_type(np.dtype(dt)); bad.append((dt, "no TypeError"))
            except TypeError: pass
        rows.append({"name": "util.py::_null_value_for_numpy_type::null-per-dtype", "tier": "F", "ok": not bad, "exhaustive": True, "cases": n, "detail": f"{n} dtypes; wrong: {bad}", "case": {"dtype": bad[0][0], "got": bad[0][1]} if bad else None})
    except Exception as ex:
        rows.append({"name": "util.py::_null_value_for_numpy_type::null-per-dtype", "tier": "F", "ok": False, "detail": f"{type(ex).__name__}: {ex}", "case": {"error": str(ex)[:200]}})
    return rows
