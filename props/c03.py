"""C03 — results do not depend on the execution strategy.

The contract is RELATIONAL: the result of a group operation is a function of the logical (keys, values, mask) only. One logical call is
executed under a reference strategy (keys factorised whole, contiguous NumPy inputs, one thread, no thread pool) and under other
strategies; the results must agree (order-insensitive results identical, sums/means to rtol 1e-9); the reference itself is compared with the
executable specification of the reductions (props/common.py) so that "all strategies agree on a wrong answer" is not accepted.

P/L (unbounded, maintained separately): L-merge (block-wise = single pass, from C04), frame obligations of _group_by_reduce / reduce_array_pair.
B (bounded, NOT counted as proved) - this file. Families of cases:
 T  worker threads at the kernel API: group_<op>(codes, values, ngroups, mask, n_threads=t), t in 2..4, against t = 1 and the specification
 O  completion order: the function submitted to util.parallel_map is gated (threading.Event per task, released by the gather loop) so that the
    gather loop of parallel_map sees the tasks finish in a prescribed order: all 24 orders of 4 tasks (and the induced orders of 2 and 3 tasks;
    a seeded shuffle for 5..16 tasks); every other family also runs under a rotating order
 P  public API: reference vs {chunked factorisation through a lowered core.THRESHOLD_FOR_CHUNKED_FACTORIZE (fully monotonic -> sorted fast path,
    monotone prefix > 1/4 -> prefix + chunks, else 4 chunks)} x {keys / values as pa.chunked_array with every chunking into <= 3 chunks, misaligned}
 S  real sizes (extra_cases, never cut): 10^6-1, 10^6, 10^6+1, 2*10^6, 3*10^6 rows, groups confined to one block / the last rows, against a
    NumPy per-label oracle and the same call with factorize_large_inputs_in_chunks=False
Sidecar contracts on the real functions (install): util.parallel_map  ensures results[i] == func(*arg_list[i]) for all i (re-evaluated);
util.array_split_with_chunk_handling, numba._chunk_groupby_args, GroupBy._resolve_mask_argument_into_chunks  ensure a consecutive partition.
"""
import itertools, io, contextlib, threading, random, zlib
import numpy as np, pandas as pd
from . import common as C

PROP = "C03"; LEVEL = "other"; P_TIER = True
RED = ["size", "count", "sum", "mean", "min", "max", "first", "last"]
SEQ1 = ["groups", "sum2", "min2", "cumsum2"]     # on the same object after the reductions: `groups` merges the chunk-local codes (chunked key without pointer tables); sum2/min2/cumsum2 run on that state
SEQ2 = ["ema", "count_t", "sum_t", "cumsum", "cummax", "rolling_sum", "rolling_max", "shift", "head", "nth"]      # on a second, fresh GroupBy (ema first: it is the one operation that does not merge the chunk-local codes)
TOL_OPS = {"sum", "mean", "cumsum", "rolling_sum", "sum2", "cumsum2", "sum_squares", "ema", "sum_t"}
KOPS = ["size", "count", "sum", "sum_squares", "mean", "min", "max", "first", "last"]
NG = 3
PERMS = [list(p) for p in itertools.permutations(range(4))]
SCOPE = {"quick": "T: codes over {-1,0,1}, n<=4 exhaustive (n=4: float and int32 values, 2 and 4 threads; datetime n<=2) x {float, intnull, int32, bool, uint, datetime} x null patterns (all for n<=2; <=1 null or all null above) "
                  "x masks {none; alternating boolean and positions [n-1,0] for float/int32, n in 2..3} x n_threads in {2,3,4} x 9 kernels. "
                  "O: all 24 completion orders of 4 tasks on 6 kernel inputs x {float,int32} (n_threads=4) and on 3 chunk-factorised public inputs of 8..10 rows; every other case runs under a rotating forced order (two runs in three). "
                  "P/F (lowered factorisation threshold): float keys over {null,0,1,2}, n<=4 exhaustive with sort on (sort off for n<=3 and for keys over {null,0,1}); for n in 2..3 also one null value, a boolean mask, a slice mask; "
                  "int / datetime / str (U and object) keys and datetime / bool / int32 / uint values over 2..3 symbols, n<=3. "
                  "P/L: 18 designed keys of 8..12 rows (sorted, sorted prefix longer / equal / shorter than 1/4 + disorder, unsorted, descending; groups confined to one quarter or the last row; null keys first / inside / last / a whole quarter) "
                  "x {3 value-null patterns x sort on/off, 7 masks (boolean, slices with negative bounds, positions with and without repeats), 6 key/value kind pairs} under chunked factorisation, + Arrow chunked values, + Arrow chunked keys. "
                  "P/A (Arrow): int keys over {0,1} and {0,1,2}, n<=3 exhaustive x every pair (contiguous or any chunking into <=3 chunks) for keys and values, + null-value and mask variants; float keys with nulls, datetime keys and values, str keys, bool values n<=2; layouts with an empty chunk n<=2. "
                  "ops: size,count,sum,mean,min,max,first,last, groups, reductions and cumsum again on the same object after groups, ema, count/sum(transform=True), cumsum,cummax,rolling_sum,rolling_max,shift,head,nth. "
                  "S (never cut): 10^6-1, 10^6, 10^6+1, 2*10^6, 3*10^6 rows x {unsorted float keys with nulls, sorted keys, sorted prefix of 40% + disorder} + categorical keys at 2*10^6 (int32) and 3*10^6, int32 values + mask, datetime values, str keys at 10^6; groups confined to the first rows / the middle / the last 3 rows; "
                  "seeded random cases up to 40 rows",
         "thorough": "as quick with T n<=5 (all patterns n<=3), P/F float keys n<=5 and other key kinds n<=4, P/A int keys over {0,1,2} n<=4 and the other kinds n<=3, 12 kernel inputs for the 24 orders, str object keys in P/L, random cases up to 96 rows"}
RULE = ("a case = one logical call (keys or codes, value class, value-null pattern, mask, sort) + the list of execution strategies it is run under (threads / completion order / factorisation threshold / chunk layout of keys and of values); "
        "distinct = distinct canonical JSON; non-trivial = at least two groups, or a null key, or a null value, or a mask")
ASSUMPTIONS = ["A-real: float sums and means are compared with relative tolerance 1e-9; order-insensitive results must be identical",
               "A-futures is exercised, not assumed: completion orders are forced through gates released by parallel_map's own gather loop (concurrent.futures.as_completed is wrapped to release the next task after a result was consumed)",
               "real OS schedules and data races inside numba / NumPy are not explored (tasks run one at a time under a forced order)",
               "S family: NumPy (stable argsort of the keys, per-label slices, min/max/sum of the non-null values) is the oracle for the million-row cases (the pure-Python specification is used for every small case)",
               "pyarrow construction of arrays / chunked arrays from NumPy pieces preserves the values",
               "BOUNDED: nothing here is counted as proved"]
REQUIRED_CONTRACTS = {"numba._group_by_reduce": 1, "util.parallel_map": 1, "util.array_split_with_chunk_handling": 1, "numba._chunk_groupby_args": 1, "core.GroupBy._resolve_mask_argument_into_chunks": 1}
EXPLANATION = ("Relational property. The merge law (block-wise = single pass) and the kernel frame conditions are P/L obligations; what joins them to the public result - the split functions, the thread pool gather, the chunk-pointer scatter in "
               "_apply_gb_func_across_chunked_group_keys, the three factorisation paths and the Arrow chunk handling - is Python glue and is decided here by running the same logical call under different strategies (threads, every completion order of <=4 tasks, "
               "lowered factorisation threshold, every chunk layout) and by sidecar contracts on parallel_map and the split functions; bounded, not proved.")
BUDGET = {"quick": 90, "thorough": 480}

_SCHED = {"perm": None, "sess": None}
_TLS = threading.local()


# ----------------------------------------------------------------------------- data
def make_keys(kkind, keys):
    """-> (numpy key array, logical labels (None = null key))"""
    if kkind == "float": return np.array([np.nan if x is None else float(x) for x in keys], dtype=np.float64), [None if x is None else float(x) for x in keys]
    if kkind == "int": return np.array([x + 5 for x in keys], dtype=np.int64), [x + 5 for x in keys]
    if kkind == "strU": return np.array(["abcdefghij"[x] for x in keys], dtype="U1"), ["abcdefghij"[x] for x in keys]
    if kkind == "str": return np.array([None if x is None else "abcdefghij"[x] for x in keys], dtype=object), [None if x is None else "abcdefghij"[x] for x in keys]
    if kkind == "dt":
        labs = [None if x is None else pd.Timestamp("2021-05-01") + pd.Timedelta(days=x) for x in keys]
        return np.array([np.datetime64("NaT") if x is None else np.datetime64(x.value, "ns") for x in labs], dtype="M8[ns]"), labs
    raise ValueError(kkind)


def _chunked(arr, comp):
    """the array as a pyarrow ChunkedArray with the given chunk lengths (0 = an empty chunk)"""
    import pyarrow as pa
    b = np.cumsum([0] + list(comp)); typ = pa.array(arr[:0]).type if arr.dtype.kind != "O" else pa.string()
    return pa.chunked_array([pa.array(arr[b[i]:b[i + 1]], type=typ) for i in range(len(comp))], type=typ)


def layouts(n, max_parts=3, empty=False):
    out = [c for c in C.compositions(n, max_parts)]
    if empty and n: out += [[0, n], [n, 0]] + ([[1, 0, n - 1]] if n > 1 else [])
    return out


def _perm_for(obj):
    return PERMS[zlib.crc32(repr(obj).encode()) % 24]


# ----------------------------------------------------------------------------- case streams
def _pats(vkind, n, full):
    if not C.nullable(vkind): return [[False] * n]
    if full: return [list(p) for p in itertools.product([False, True], repeat=n)]
    out = [[False] * n] + [[i == j for i in range(n)] for j in range(n)]
    if n > 1: out.append([True] * n)
    return out


def _cases_T(tier):
    big = tier == "thorough"
    for n in range(1, (5 if big else 4) + 1):
        for vkind in ("float", "int32", "bool", "intnull", "uint", "datetime"):
            if n >= (5 if big else 4) and vkind not in ("float", "int32"): continue
            if n >= (4 if big else 3) and vkind == "datetime": continue
            for codes in itertools.product([-1, 0, 1], repeat=n):
                for pat in _pats(vkind, n, full=(n <= 2 or big and n <= 3)):
                    masks = [None]
                    if vkind in ("float", "int32") and 2 <= n <= 3 and sum(pat) in (0, n): masks += [("bool", [i % 2 == 0 for i in range(n)]), ("pos", [n - 1, 0])]
                    for mask in masks:
                        for t in ((2, 3, 4) if n <= 3 or big else (2, 4)):
                            c = {"fam": "T", "codes": list(codes), "vkind": vkind, "nullpat": list(pat), "mask": mask, "threads": [t]}
                            c["perm"] = _perm_for(c) if (len(codes) + t + sum(pat)) % 2 else None; yield c


def _cases_O(tier):
    big = tier == "thorough"
    kin = [[0, 0, 1, 1], [0, 1, 0, 1], [1, 1, 1, 0], [0, -1, 1, 0], [1, 0, 0, 0], [0, 0, 0, 1]]
    if big: kin += [[1, 0, 1, 0, 0, 1, 1, 0], [0, 0, 0, 0, 1, 1, 1, 1], [0, 1, -1, 1, 0], [1, 1, 0, 0, 0, 0], [0, 0, 0, 0, 0, 0, 0, 1], [1, 0, 0, 0, 0, 0, 0, 0]]
    pub = [[2, 0, 1, 0, 2, 2, 0, 1], [0, 1, 2, 3, 1, 0, 3, 2, 0, 1], [1, 0, None, 0, 1, 1, 2, 0]]
    for perm in PERMS:
        for codes in kin:
            for vkind in ("float", "int32"):
                n = len(codes)
                yield {"fam": "T", "codes": codes, "vkind": vkind, "nullpat": [vkind == "float" and i == 1 for i in range(n)], "mask": None, "threads": [4], "perm": perm}
        for keys in pub:
            yield {"fam": "P", "keys": keys, "kkind": "float", "vkind": "float", "nullpat": [i == 2 for i in range(len(keys))], "mask": None, "sort": True, "strategies": [{"thr": 1, "perm": perm}]}


def _P(keys, kkind, vkind, pat, mask, sort, strategies):
    c = {"fam": "P", "keys": list(keys), "kkind": kkind, "vkind": vkind, "nullpat": list(pat), "mask": mask, "sort": sort}
    c["strategies"] = [dict(s, perm=_perm_for((c, i)) if zlib.crc32(repr((c, i)).encode()) % 3 else None) if "perm" not in s else s for i, s in enumerate(strategies)]      # two runs in three under a forced completion order
    return c


def _cases_F(tier):
    """chunked / monotonic / partially monotonic factorisation through the lowered threshold"""
    big = tier == "thorough"; T1 = [{"thr": 1}]
    def main():
        for n in range(1, (5 if big else 4) + 1):
            for keys in itertools.product([None, 0, 1, 2], repeat=n):
                none = [False] * n
                if n == 5 and keys[0] not in (None, 0): continue
                yield _P(keys, "float", "float", none, None, True, T1)
                if n <= 3 or big or 2 not in keys: yield _P(keys, "float", "float", none, None, False, T1)
                if n <= (4 if big else 3) and n >= 2:
                    yield _P(keys, "float", "float", [i == 1 for i in range(n)], None, True, T1)
                    yield _P(keys, "float", "float", none, ("bool", [i % 3 != 1 for i in range(n)]), True, T1)
                    if n >= 3: yield _P(keys, "float", "float", none, ("slice", [1, None, None]), True, T1)
                    if big: yield _P(keys, "float", "float", [True] * n, None, True, T1)
    def other(kkind, vkind, alphabet):
        for n in range(1, (4 if big else 3) + 1):
            for keys in itertools.product(alphabet, repeat=n):
                yield _P(keys, kkind, vkind, [False] * n, None, True, T1)
                if C.nullable(vkind) and n >= 2: yield _P(keys, kkind, vkind, [i == n - 1 for i in range(n)], None, n % 2 == 0, T1)
    streams = [main()] + [other(*a) for a in [("int", "int32", [0, 1]), ("float", "datetime", [None, 0, 1]), ("dt", "float", [None, 0, 1]), ("strU", "bool", [0, 1]), ("str", "float", [None, 0, 1]), ("float", "uint", [None, 0, 1])]]
    return C.roundrobin(*streams, weights=[6] + [1] * (len(streams) - 1))


def _designed_keys():
    """8..12 rows: (name, keys). sorted / sorted prefix then disorder / unsorted; groups confined to one quarter; null keys"""
    return [("sorted", [0, 0, 1, 1, 2, 2, 3, 3]), ("sorted+null-inside", [0, 0, None, 1, 2, 2, 3, 3]), ("sorted+null-first", [None, 0, 1, 1, 2, 2, 3, 3]), ("sorted+null-last", [0, 0, 1, 1, 2, 2, 3, None]),
            ("prefix>1/4", [0, 1, 2, 3, 1, 0, 3, 2, 0, 1, 2, 3]), ("prefix>1/4,new-group-late", [0, 1, 1, 0, 1, 0, 0, 1, 0, 1, 0, 4]), ("prefix>1/4+null-in-tail", [0, 1, 2, 0, None, 1, 2, None, 0, 0, 2, 1]),
            ("prefix==1/4", [0, 1, 0, 1, 2, 2, 1, 0]), ("prefix just over 1/4", [0, 1, 2, 0, 1, 2, 2, 1, 0]), ("unsorted", [2, 0, 1, 0, 2, 2, 0, 1]), ("unsorted,group-in-one-quarter", [1, 0, 0, 1, 0, 1, 2, 2, 1, 0, 0, 1]),
            ("unsorted,group-in-last-row", [1, 0, 0, 1, 0, 1, 1, 0, 0, 1, 0, 3]), ("unsorted+nulls", [1, None, 0, 1, None, 1, 0, 0, None, 1, 0, 2]), ("unsorted,all-null-quarter", [1, 0, 1, None, None, None, 0, 1, 0]),
            ("descending", [3, 3, 2, 2, 1, 1, 0, 0]), ("single-group", [0] * 8), ("all-null", [None] * 8), ("prefix>1/4,9rows", [0, 0, 1, 0, 1, 1, 0, 0, 1])]


def _cases_L(tier):
    big = tier == "thorough"; T1 = {"thr": 1}
    for name, keys in _designed_keys():
        n = len(keys); none = [False] * n; TV = {"thr": 1, "vc": [n // 3, n - n // 3]}
        for j, pat in enumerate((none, [i % 3 == 1 for i in range(n)], [i >= n // 2 for i in range(n)])):
            for sort in (True, False):
                yield _P(keys, "float", "float", pat, None, sort, [T1, TV] if (j == 0 and sort) or big else [T1])
        yield _P(keys, "float", "float", none, None, True, [{"kc": [n // 2, n - n // 2]}, {"kc": [1, n - 3, 2], "vc": [n - 2, 2]}])
        for mask in [("bool", [i % 4 != 2 for i in range(n)]), ("bool", [i < n // 2 for i in range(n)]), ("slice", [3, None, None]), ("slice", [None, -3, None]), ("slice", [-5, -1, None]), ("pos", [n - 1, 0, 2]), ("pos", [1, 1, 0])]:
            yield _P(keys, "float", "float", none, mask, True, [T1] + ([{"kc": [n // 2, n - n // 2], "vc": [n - 2, 2]}] if mask[0] != "pos" and (big or mask[1][0] in (3, True)) else []))
            if big: yield _P(keys, "float", "int32", none, mask, False, [T1])
        for kkind, vkind in [("float", "int32"), ("dt", "float"), ("float", "datetime"), ("float", "bool")] + ([("int", "float"), ("strU", "float")] if None not in keys else []) + ([("str", "float")] if big else []):
            yield _P(keys, kkind, vkind, [i % 3 == 1 for i in range(n)] if C.nullable(vkind) else none, None, True, [T1] + ([{"kc": [n // 2, n - n // 2]}] if kkind == "int" else []))


def _cases_A(tier):
    """Arrow chunked keys and / or values: every pair of chunkings into <= 3 chunks"""
    big = tier == "thorough"
    def gen(kkind, vkind, N, alphabet, full, empty=False, variants=False):
        for n in range(1, N + 1):
            lays = [None] + layouts(n, 3, empty)
            pairs = [(a, b) for a in lays for b in lays if not (a is None and b is None) and (not empty or a is None or b is None or a == b or 0 not in (a + b))]
            for keys in itertools.product(alphabet, repeat=n):
                if not full and n >= 3 and len(set(keys)) == 3 and keys[0] == alphabet[1]: continue
                vs = [([False] * n, None)]
                if variants and n >= 2: vs += [([i == n - 1 for i in range(n)], None)] + ([([False] * n, ("bool", [i != 1 for i in range(n)]))] if n >= 3 else [])
                for pat, mask in vs:
                    strategies = [{"kc": a, "vc": b} for a, b in pairs]
                    for j in range(0, len(strategies), 8):
                        yield _P(keys, kkind, vkind, pat, mask, True, strategies[j:j + 8])
    streams = [gen("int", "float", 4 if big else 3, [0, 1, 2] if big else [0, 1], big, variants=True), gen("int", "float", 3, [0, 1, 2], True) if not big else iter(()), gen("float", "int32", 3 if big else 2, [None, 0, 1], True),
               gen("dt", "datetime", 3 if big else 2, [0, 1, None], True, variants=big), gen("int", "float", 3 if big else 2, [0, 1], True, empty=True), gen("strU", "float", 2, [0, 1], True), gen("float", "bool", 2, [1, 0], True)]
    return C.roundrobin(*streams, weights=[3, 2, 1, 1, 1, 1, 1])


def cases(tier, seed):
    return C.roundrobin(_cases_T(tier), _cases_F(tier), _cases_A(tier), _cases_L(tier), _cases_O(tier), weights=(8, 3, 1, 1, 1))


def extra_cases(tier, seed):
    """16 real-size cases (one per worker process of the sharded driver)"""
    out = [{"fam": "S", "n": 10 ** 6 - 1, "layout": "unsorted", "vkind": "float", "mask": False}]
    for n in (10 ** 6, 10 ** 6 + 1, 2 * 10 ** 6, 3 * 10 ** 6):
        out.append({"fam": "S", "n": n, "layout": "unsorted", "vkind": "float", "mask": n == 2 * 10 ** 6})
        if n != 10 ** 6 + 1:
            out.append({"fam": "S", "n": n, "layout": "sorted", "vkind": "float", "mask": False})
            out.append({"fam": "S", "n": n, "layout": "prefix", "vkind": "float", "mask": n == 10 ** 6})
    out.append({"fam": "S", "n": 2 * 10 ** 6, "layout": "cat", "vkind": "int32", "mask": False})
    out.append({"fam": "S", "n": 3 * 10 ** 6, "layout": "cat", "vkind": "float", "mask": False})
    out.append({"fam": "S", "n": 10 ** 6, "layout": "unsorted", "vkind": "int32", "mask": True})
    out.append({"fam": "S", "n": 10 ** 6, "layout": "unsorted", "vkind": "datetime", "mask": False})
    out.append({"fam": "S", "n": 10 ** 6, "layout": "str", "vkind": "float", "mask": False})
    return out


def random_case(rnd, tier):
    n = rnd.randint(6, 96 if tier == "thorough" else 40); kind = rnd.choice("TPPA")
    pat = [rnd.random() < 0.3 for _ in range(n)]
    mask = rnd.choice([None, None, ("bool", [rnd.random() < 0.6 for _ in range(n)]), ("slice", [rnd.randrange(-n, n), rnd.choice([None, rnd.randrange(-n, n + 1)]), None])])
    perm = rnd.choice(PERMS)
    if kind == "T":
        return {"fam": "T", "codes": [rnd.choice([-1, 0, 0, 1, 2]) for _ in range(n)], "vkind": rnd.choice(["float", "int32", "intnull", "bool", "datetime"]), "nullpat": pat,
                "mask": mask if mask is None or mask[0] == "bool" else ("pos", [rnd.randrange(0, n) for _ in range(rnd.randint(1, n))]), "threads": [rnd.choice([2, 3, 4, 5, 7])], "perm": perm}
    p = rnd.randint(0, n); ngr = rnd.choice([2, 3, 5])
    keys = sorted(rnd.randrange(ngr) for _ in range(p)) + [rnd.randrange(ngr + 1) for _ in range(n - p)]
    if rnd.random() < 0.3: keys = [None if rnd.random() < 0.15 else k for k in keys]
    kkind = rnd.choice(["float", "float", "int", "dt"]) if None in keys else rnd.choice(["float", "int", "dt", "strU"])
    if kkind == "int": keys = [0 if k is None else k for k in keys]
    def comp():
        cuts = sorted(rnd.sample(range(1, n), rnd.randint(1, 2))); b = [0] + cuts + [n]; return [b[i + 1] - b[i] for i in range(len(b) - 1)]
    strat = {"thr": 1, "perm": perm} if kind == "P" else {"kc": rnd.choice([None, comp()]), "vc": comp(), "perm": perm}
    if rnd.random() < 0.3 and kind == "P": strat["vc"] = comp()
    return {"fam": "P", "keys": keys, "kkind": kkind, "vkind": rnd.choice(["float", "float", "int32", "datetime", "bool"]), "nullpat": pat, "mask": mask, "sort": rnd.random() < 0.6, "strategies": [strat]}


def nontrivial(case):
    if case["fam"] == "S": return True
    ks = case["codes"] if case["fam"] == "T" else case["keys"]
    real = [k for k in ks if k is not None and k >= 0]
    return len(set(real)) >= 2 or len(real) < len(ks) or any(case["nullpat"]) or case.get("mask") is not None


# ----------------------------------------------------------------------------- comparison of results
def _leq(a, b):
    if isinstance(a, tuple) or isinstance(b, tuple): return isinstance(a, tuple) and isinstance(b, tuple) and len(a) == len(b) and all(_leq(x, y) for x, y in zip(a, b))
    if C.is_null(a) or C.is_null(b): return C.is_null(a) and C.is_null(b)
    try: return bool(a == b)
    except Exception: return False


def _num(x):
    if isinstance(x, (pd.Timestamp, pd.Timedelta)): return x.value
    if isinstance(x, (np.datetime64, np.timedelta64)): return int(x.astype("M8[ns]" if isinstance(x, np.datetime64) else "m8[ns]").astype("i8"))
    return x


def _veq(op, a, b):
    """a, b: results of two executions of the same logical call"""
    if isinstance(a, list) or isinstance(b, list): return isinstance(a, list) and isinstance(b, list) and len(a) == len(b) and all(_veq(op, x, y) for x, y in zip(a, b))
    if C.is_null(a) or C.is_null(b): return C.is_null(a) and C.is_null(b)
    if op in TOL_OPS:
        try:
            x, y = _num(a), _num(b)
            if isinstance(a, (pd.Timestamp, pd.Timedelta, np.datetime64, np.timedelta64)): return abs(x - y) <= max(2, abs(y) * 2.0 ** -50)
            return abs(float(x) - float(y)) <= 1e-9 * max(1.0, abs(float(y)))
        except Exception: pass
    try: return bool(a == b)
    except Exception: return False


def _norm(r):
    """-> (index labels, values, dtype text)"""
    if isinstance(r, dict): return list(r.keys()), [[int(i) for i in np.asarray(v)] for v in r.values()], "groups"
    if isinstance(r, pd.DataFrame): r = r.iloc[:, 0]
    if isinstance(r, pd.Series): return [tuple(x) if isinstance(x, tuple) else x for x in r.index], list(r.array), str(r.dtype)
    if hasattr(r, "to_list"): return list(range(len(r))), r.to_list(), str(r.dtype)
    a = np.asarray(r); return list(range(len(a))), list(a), str(a.dtype)


def _relate(sess, fn, what, op, base, got):
    """base/got: ('ok', (idx, vals, dtype)) or ('raises', type, text); records a finding when the execution strategy changed the outcome"""
    if got[0] == "raises":
        if base[0] == "raises" and base[1] == got[1]: return
        fam = fn if not fn.startswith("GroupBy.") else "GroupBy.<reduction>" if op.rstrip("2") in RED or op.endswith("_t") else "GroupBy.<head|nth|groups>" if op in ("head", "nth", "groups") else "GroupBy.<cumulative|rolling|shift>"
        sess.record("raises", fam, f"{what}: the call must not fail where the reference strategy gives a result: {got[1]}", {"op": op, "error": got[2], "reference": str(base[1])[:200]}); return
    if base[0] == "raises": return          # the reference strategy itself fails (another property's finding); nothing to relate to
    (bi, bv, bd), (gi, gv, gd) = base[1], got[1]
    if len(bi) != len(gi) or not all(_leq(x, y) for x, y in zip(bi, gi)):
        sess.record("post", fn, f"{what}: labels / row index identical to the reference strategy", {"got": str(gi)[:300], "reference": str(bi)[:300]}); return
    bad = [(str(l), str(g), str(b)) for l, g, b in zip(bi, gv, bv) if not _veq(op, g, b)]
    if bad:
        sess.record("post", fn, f"{what}: " + ("sums and means agree to rounding with the reference strategy" if op in TOL_OPS else "order-insensitive result identical to the reference strategy"),
                    {"label,got,reference": bad[:4], "got": str(gv)[:300], "reference": str(bv)[:300]}); return
    if bd != gd: sess.record("post", fn, f"{what}: result dtype identical to the reference strategy", {"got": gd, "reference": bd})


# ----------------------------------------------------------------------------- family T: threads at the kernel API
def _kops(vkind):
    if vkind == "datetime": return [o for o in KOPS if o not in ("sum", "sum_squares")]
    if vkind == "intnull": return [o for o in KOPS if o not in ("sum", "sum_squares", "mean")]
    return KOPS


def _kcall(op, codes, v, mask, n_threads):
    from groupby_lib.groupby import numba as gn
    if op == "size": return gn.group_size(codes, NG, mask=mask, n_threads=n_threads)
    return getattr(gn, f"group_{op}")(codes, v, NG, mask=mask, n_threads=n_threads)


def _check_T(sess, case):
    codes = np.array(case["codes"], dtype=np.int64); n = len(codes); vkind = case["vkind"]
    v, vals = C.make_values(vkind, n, case["nullpat"]); rows = C.selection_rows(case["mask"], n); m = C.np_mask(case["mask"]); calls = 0
    for op in ([case["op"]] if "op" in case else _kops(vkind)):
        fn = f"numba.group_{op}"
        try: ref = ("ok", _norm(_kcall(op, codes, v, m, 1)))
        except Exception as ex: ref = ("raises", type(ex).__name__, str(ex)[:160])
        calls += 1
        if ref[0] == "ok":
            exp = C.spec_group_reduce(op, codes, vals, rows, NG); bad = []
            for k, (g, e) in enumerate(zip(ref[1][1], exp)):
                if vkind == "bool" and op in ("min", "max", "first", "last") and e is None: e = False
                if vkind == "uint" and e is None: continue
                if vkind == "int32" and e is None and (C.is_null(g) or int(g) == np.iinfo(np.int32).min): continue      # an empty group of a never-null integer class: the dtype's minimum is the library's integer null
                if op == "mean" and vkind in ("datetime", "timedelta") and e is not None and not C.is_null(g) and abs(_num(g) - e.value) <= max(2, abs(e.value) * 2.0 ** -50): continue
                if not C.same(g, e): bad.append((k, str(g), str(e)))
            if bad: sess.current_case = dict(case, op=op, threads=[1]); sess.record("post", fn, "single pass (n_threads=1) == per-group definition", {"group,got,expected": bad[:3]})
        for t in case["threads"]:
            sess.current_case = dict(case, op=op, threads=[t]); calls += 1
            _SCHED["perm"] = case.get("perm")
            try: got = ("ok", _norm(_kcall(op, codes, v, m, t)))
            except Exception as ex: got = ("raises", type(ex).__name__, str(ex)[:160])
            finally: _SCHED["perm"] = None
            _relate(sess, fn, f"n_threads>1 vs n_threads=1 [{vkind} values{', mask ' + case['mask'][0] if case['mask'] else ''}]", op, ref, got)
    return calls


# ----------------------------------------------------------------------------- family P: public API under strategies
def _applicable(op, vkind, mask):
    base = op.rstrip("2")
    if vkind == "datetime" and base in ("sum", "cumsum", "rolling_sum"): return False
    if mask is not None and op in ("head", "nth", "groups"): return False
    if op == "ema" and (vkind not in ("float", "int32", "int") or (mask is not None and mask[0] != "bool")): return False
    if base == "sum_t" and vkind == "datetime": return False
    if mask is not None and mask[0] != "bool" and base in ("cumsum", "cummax", "rolling_sum", "rolling_max", "shift"): return False      # cumulative / rolling ops take boolean masks only
    return True


def _pcall(gb, op, v, m):
    if op == "size": return gb.size(mask=m)
    if op in ("sum2", "min2", "cumsum2"): return getattr(gb, op[:-1])(v, mask=m)
    if op == "ema": return gb.ema(v, alpha=0.5, mask=m)
    if op in ("count_t", "sum_t"): return getattr(gb, op[:-2])(v, mask=m, transform=True)
    if op in RED or op in ("cumsum", "cummax"): return getattr(gb, op)(v, mask=m)
    if op in ("rolling_sum", "rolling_max"): return getattr(gb, op)(v, window=2, min_periods=1, mask=m)
    if op == "shift": return gb.shift(v, window=1, mask=m)
    if op == "head": return gb.head(v, 2, keep_input_index=True)
    if op == "nth": return gb.nth(v, 1, keep_input_index=True)
    if op == "groups": return dict(gb.groups)
    raise ValueError(op)


def _run(k, v, m, sort, vkind, mask, ops, strat=None):
    """construct the GroupBy under the strategy and run the ops in order (reductions + SEQ1 on one object, SEQ2 on a second one) -> {op: outcome}"""
    from groupby_lib.groupby import GroupBy, core as gc
    strat = strat or {}; old = gc.THRESHOLD_FOR_CHUNKED_FACTORIZE; out = {}
    try:
        if strat.get("thr") is not None: gc.THRESHOLD_FOR_CHUNKED_FACTORIZE = strat["thr"]
        _SCHED["perm"] = strat.get("perm")
        kk = _chunked(k, strat["kc"]) if strat.get("kc") else k
        vv = _chunked(v, strat["vc"]) if strat.get("vc") else v
        with contextlib.redirect_stdout(io.StringIO()):
            for part in ([o for o in ops if o in RED or o in SEQ1], [o for o in ops if o in SEQ2]):
                part = [o for o in part if _applicable(o, vkind, mask)]
                if not part: continue
                try: gb = GroupBy(kk, sort=sort)
                except Exception as ex:
                    out["GroupBy"] = ("raises", type(ex).__name__, str(ex)[:160]); return out
                for op in part:
                    try: out[op] = ("ok", _norm(_pcall(gb, op, vv, m)))
                    except Exception as ex: out[op] = ("raises", type(ex).__name__, str(ex)[:160])
        return out
    finally:
        gc.THRESHOLD_FOR_CHUNKED_FACTORIZE = old; _SCHED["perm"] = None


def _strategy_text(st, keys):
    parts = []
    if st.get("thr") is not None: parts.append("chunk-factorised keys (lowered threshold)")
    if st.get("kc"): parts.append("Arrow chunked keys" + (" with an empty chunk" if 0 in st["kc"] else ""))
    if st.get("vc"): parts.append("Arrow chunked values" + (" with an empty chunk" if 0 in st["vc"] else ""))
    return "[" + ("null key, " if None in keys else "") + " + ".join(parts or ["forced completion order"]) + "]"


def _check_P(sess, case):
    kkind, vkind = case["kkind"], case["vkind"]; keys = case["keys"]; n = len(keys); mask = case["mask"]; sort = case["sort"]
    k, labs = make_keys(kkind, keys); v, vals = C.make_values(vkind, n, case["nullpat"])
    rows = C.selection_rows(mask, n); m = C.np_mask(mask)
    ops = RED + SEQ1 + SEQ2
    if "op" in case: ops = {"sum2": ["groups", "sum2"], "min2": ["groups", "min2"], "cumsum2": ["groups", "cumsum2"], "GroupBy": ["size"]}.get(case["op"], [case["op"]])
    sess.current_case = dict(case, strategies=[])
    base = _run(k, v, m, sort, vkind, mask, ops); calls = len(base)
    # the reference strategy against the executable specification (reductions)
    present = list(dict.fromkeys(labs[r] for r in rows if labs[r] is not None))
    order = sorted(present) if sort else [l for l in dict.fromkeys(x for x in labs if x is not None) if l in present]      # sort=False: first appearance in the keys (not in the selection)
    for op in [o for o in ops if o in RED and o in base and base[o][0] == "ok"]:
        exp = {lab: C.reduce_rows(op, [vals[r] for r in rows if labs[r] == lab]) for lab in present}
        gi, gv, _ = base[op][1]; sess.current_case = dict(case, strategies=[], op=op)
        if len(gi) != len(order) or not all(_leq(a, b) for a, b in zip(gi, order)):
            sess.record("post", f"GroupBy.{op}", "reference strategy: labels == labels with a selected row, in the requested order", {"got": str(gi), "expected": str(order)}); continue
        bad = []
        for l, g in zip(gi, gv):
            e = exp[l]
            if vkind == "bool" and e is None: e = False
            if vkind == "uint" and e is None: continue
            if op == "mean" and vkind in ("datetime", "timedelta") and e is not None and not C.is_null(g) and abs(_num(g) - e.value) <= max(2, abs(e.value) * 2.0 ** -50): continue
            if not C.same(g, e): bad.append((str(l), str(g), str(e)))
        if bad: sess.record("post", f"GroupBy.{op}", "reference strategy: value == reduction of the non-null values in the selected rows of the label", {"label,got,expected": bad[:4]})
    for st in case["strategies"]:
        sess.current_case = dict(case, strategies=[st])
        got = _run(k, v, m, sort, vkind, mask, ops, st); calls += len(got)
        what = _strategy_text(st, keys)
        if "GroupBy" in got:
            sess.current_case = dict(case, strategies=[st], op="GroupBy")
            if "GroupBy" not in base: sess.record("raises", "GroupBy.__init__", f"{what}: constructing the GroupBy must not fail where the reference strategy succeeds: {got['GroupBy'][1]}", {"error": got["GroupBy"][2]})
            continue
        for op in got:
            sess.current_case = dict(case, strategies=[st], op=op)
            _relate(sess, f"GroupBy.{op.rstrip('2')}" + ("(transform=True)" if op.endswith("_t") else "").replace("_t(", "("), what + (" (same object after `groups` merged the chunk-local codes)" if op.endswith("2") else ""), op, base.get(op, ("raises", "missing", "")), got[op])
    return calls


# ----------------------------------------------------------------------------- family S: real sizes
def _big_data(case):
    n = case["n"]; lay = case["layout"]; i = np.arange(n)
    if lay in ("unsorted", "cat", "str"):
        k = (i * 7 % 3 % 2).astype(np.float64)                   # 0/1 interleaved in the bulk (unsorted from row 1 on: 0,1,0,0,1,...)
        k[1] = 1.0; k[0] = 0.0; k[2] = 0.0
    elif lay == "sorted":
        k = np.floor(i * (12.0 / n))                               # 12 sorted groups
    else:                                                          # sorted prefix of 40 % of the rows, then disorder
        k = np.where(i < int(n * 0.4), np.floor(i * (25.0 / n)), (i * 11 % 5).astype(np.float64))
    # groups confined to single blocks / the last rows
    k[5:9] = 50.0 if lay in ("unsorted", "cat", "str") else k[5:9]                                      # only in the first rows (absent from every later block)
    k[n // 2 + 3: n // 2 + 6] = 60.0 if lay != "sorted" else k[n // 2 + 3: n // 2 + 6]    # only in the middle
    k[n - 3:] = 70.0                                               # only in the last three rows
    if lay == "unsorted" or (lay == "prefix" and n == 2 * 10 ** 6): k[[n // 2 + 11, n - 7]] = np.nan      # null keys (outside the sorted prefix)
    vk = case["vkind"]
    if vk == "float":
        v = (i % 1000) * 0.5 + 1.0; v[::17] = np.nan; v[n - 3] = np.nan; v[n // 2 + 3: n // 2 + 6] = np.nan     # the middle-only group is all-null; a null inside the last-rows group
    elif vk == "datetime":
        v = (np.int64(36720000) * 10 ** 9 + (i % 1000) * 10 ** 9 + 1).view("M8[ns]")
    else:
        v = ((i * 13) % 1000 + 1).astype(np.int32)
    mask = None
    if case["mask"]:
        mask = np.ones(n, dtype=bool); mask[n // 4: n // 4 + 5] = False; mask[i % 5 == 4] = False; mask[5:9] = lay != "unsorted" or vk == "float"
        mask[n // 2:] &= ~(k[n // 2:] == 1.0) | (lay != "unsorted")                         # unsorted: group 1 is masked out of the second half entirely
    return k, v, mask


def _big_groups(k, mask):
    """label -> positions of the selected rows of the label (computed once per case)"""
    sel = ~np.isnan(k) if mask is None else (mask & ~np.isnan(k))
    pos = np.flatnonzero(sel); order = np.argsort(k[pos], kind="stable"); pos = pos[order]; ks = k[pos]
    cuts = np.flatnonzero(np.diff(ks)) + 1
    return {lab: p for lab, p in zip(ks[np.r_[0, cuts]] if len(ks) else [], np.split(pos, cuts))}


def _big_oracle(op, groups, v):
    out = {}
    for lab, pos in groups.items():
        x = v[pos]; nn = x[~np.isnan(x)] if x.dtype.kind == "f" else x[~np.isnat(x)] if x.dtype.kind == "M" else x
        if op == "size": out[lab] = len(x)
        elif op == "count": out[lab] = len(nn)
        elif op == "sum": out[lab] = nn.sum(dtype=np.float64 if x.dtype.kind == "f" else np.int64) if len(nn) else 0
        elif op == "mean": out[lab] = nn.mean(dtype=np.float64) if len(nn) else None
        elif op == "min": out[lab] = nn.min() if len(nn) else None
        elif op == "max": out[lab] = nn.max() if len(nn) else None
        elif op == "first": out[lab] = nn[0] if len(nn) else None
        elif op == "last": out[lab] = nn[-1] if len(nn) else None
    return out


def _check_S(sess, case):
    from groupby_lib.groupby import GroupBy
    k, v, mask = _big_data(case); lay = case["layout"]; n = case["n"]; calls = 0
    cats = None
    if lay == "cat":
        cats = sorted(set(k[~np.isnan(k)])); key = pd.Categorical.from_codes(np.searchsorted(cats, k).astype(np.int8), categories=cats)
    elif lay == "str":
        key = np.array(["g%02d" % int(x) for x in k], dtype=object)
    else: key = k
    what = f"{'10^6' if n == 10**6 else '10^6-1' if n == 10**6 - 1 else '10^6+1' if n == 10**6 + 1 else '%d*10^6' % (n // 10**6)} rows, {lay} keys, {case['vkind']} values{', boolean mask' if case['mask'] else ''}"
    def construct(**kw):
        with contextlib.redirect_stdout(io.StringIO()): return GroupBy(key, **kw)
    try: gb = construct()
    except Exception as ex:
        sess.current_case = dict(case, op="GroupBy"); sess.record("raises", "GroupBy.__init__", f"real size: constructing the GroupBy must not fail at the size where the chunked strategy switches on [{lay} keys]: {type(ex).__name__}", str(ex)[:200]); return 1
    ref = None; groups = _big_groups(k, mask)
    if lay == "unsorted" and n >= 10 ** 6:
        try: ref = construct(factorize_large_inputs_in_chunks=False)
        except Exception: ref = None
    for op in ([case["op"]] if "op" in case else [o for o in RED if case["vkind"] != "datetime" or o not in ("sum", "mean")]):      # sums / means of a million modern timestamps overflow int64 (outside every property)
        sess.current_case = dict(case, op=op); calls += 1; fn = f"GroupBy.{op}"
        try:
            with contextlib.redirect_stdout(io.StringIO()): r = gb.size(mask=mask) if op == "size" else getattr(gb, op)(v, mask=mask)
        except Exception as ex:
            sess.record("raises", fn, f"real size: the call must not fail: {type(ex).__name__}", {"what": what, "error": str(ex)[:200]}); continue
        exp = _big_oracle(op, groups, v)
        gi = [("g%02d" % int(l)) if lay == "str" else l for l in exp]
        if [x for x in r.index] != gi:
            sess.record("post", fn, "real size: labels == sorted labels with a selected row", {"what": what, "got": str(list(r.index))[:200], "expected": str(gi)[:200]}); continue
        bad = [(str(l), str(g), str(e)) for (l, e), g in zip(exp.items(), r.array) if not _veq(op, g, e)]
        if bad: sess.record("post", fn, ("real size: sums and means agree to rounding with the per-label definition" if op in TOL_OPS else "real size: order-insensitive result identical to the per-label definition") + f" [{gb.key_is_chunked and 'chunked' or 'whole'} codes, {gb._max_threads_for_numba} threads]",
                            {"what": what, "label,got,expected": bad[:5]})
        if ref is not None:
            calls += 1
            try:
                with contextlib.redirect_stdout(io.StringIO()): r2 = ref.size(mask=mask) if op == "size" else getattr(ref, op)(v, mask=mask)
                _relate(sess, fn, "real size: chunk-factorised keys vs factorize_large_inputs_in_chunks=False", op, ("ok", _norm(r2)), ("ok", _norm(r)))
            except Exception as ex:
                sess.record("raises", fn, f"real size: the call with factorize_large_inputs_in_chunks=False must not fail: {type(ex).__name__}", {"what": what, "error": str(ex)[:200]})
    return calls


def check_case(sess, case):
    if case["fam"] == "T": return _check_T(sess, case)
    if case["fam"] == "S": return _check_S(sess, case)
    return _check_P(sess, case)


# ----------------------------------------------------------------------------- sidecar contracts
def _deep_same(a, b):
    if isinstance(a, (tuple, list)): return isinstance(b, (tuple, list)) and len(a) == len(b) and all(_deep_same(x, y) for x, y in zip(a, b))
    if isinstance(a, (pd.Series, pd.DataFrame, pd.Index)): return type(a) is type(b) and bool(a.equals(b))
    if isinstance(a, np.ndarray) or isinstance(b, np.ndarray):
        a, b = np.asarray(a), np.asarray(b)
        if a.shape != b.shape or a.dtype != b.dtype: return False
        if a.dtype.kind == "O": return all(_leq(x, y) for x, y in zip(a.ravel().tolist(), b.ravel().tolist()))
        if a.dtype.kind in "mM": return bool(np.array_equal(a.view("i8"), b.view("i8")))
        return bool(np.array_equal(a, b, equal_nan=a.dtype.kind in "fc"))
    return _leq(a, b)


def _rows_of(x):
    try: return max((len(y) for y in x if hasattr(y, "__len__") and not isinstance(y, str)), default=0)
    except Exception: return 0


def _np_list(x):
    from groupby_lib.util import _val_to_numpy
    return _val_to_numpy(x)


def install(sess):
    """(iii) parallel_map gather contract + completion-order gates; (ii) split functions produce a consecutive partition; + kernel-precondition monitors"""
    import concurrent.futures as cf, importlib
    # kernel-precondition monitors (the `requires` under which the kernels are proved); tolerant of added keyword parameters
    def pre_gbr(group_key, values, target, reduce_func, indexer=None, check_in_bounds=True, **kw):
        n = len(group_key)
        if len(values) != n: return f"len(values)={len(values)} != len(group_key)={n}"
        if n and int(np.max(group_key)) >= len(target): return "group key >= len(target)"
        if indexer is not None and len(indexer) and int(np.min(indexer)) < -n: return "position < -n (numba would read out of bounds)"
        if indexer is not None and not check_in_bounds and len(indexer) and int(np.max(indexer)) >= n: return "unchecked position >= n"
    sess.wrap("groupby_lib.groupby.numba", "_group_by_reduce", requires=pre_gbr)
    def pre_rap(x, y, reducer, counts=None, y_counts=None, **kw):
        if len(x) != len(y): return "len(x) != len(y) (the kernel reads y[i] for i < len(x) without a bounds check)"
        if counts is not None and len(counts) != len(x): return "len(counts) != len(x)"
        if y_counts is not None and len(y_counts) != len(x): return "len(y_counts) != len(x)"
    sess.wrap("groupby_lib.groupby.numba", "reduce_array_pair", requires=pre_rap)
    U = importlib.import_module("groupby_lib.util")
    users = [("groupby_lib.groupby.numba", "parallel_map"), ("groupby_lib.groupby.core", "parallel_map"), ("groupby_lib.groupby.factorization", "parallel_map"), ("groupby_lib.nanops", "parallel_map")]
    real_pm = U.parallel_map; real_ac = cf.as_completed
    _SCHED["sess"] = sess

    # -- completion-order gates: the submitted function waits for its release; the gather loop (as_completed) releases the next task of the prescribed order after it consumed a result
    def as_completed(fs, timeout=None):
        st = getattr(_TLS, "stack", None); st = st[-1] if st else None
        if st is None or not isinstance(fs, dict) or len(fs) != st["m"]:
            yield from real_ac(fs, timeout); return
        st["release"][st["order"][0]].set()
        for f in real_ac(fs, timeout):
            idx = fs[f]; st["observed"].append(idx)
            yield f
            j = st["pos"][idx]
            if j + 1 < st["m"]: st["release"][st["order"][j + 1]].set()

    def gated_parallel_map(func, arg_list, max_workers=None, use_threads=True):
        arg_list = list(arg_list); m = len(arg_list); perm = _SCHED["perm"]
        if perm is None or m < 2 or m > 16 or not use_threads: return real_pm(func, arg_list, max_workers, use_threads)
        if m <= 4: order = [p for p in perm if p < m]
        else: order = list(range(m)); random.Random(zlib.crc32(repr((perm, m)).encode())).shuffle(order)
        st = {"m": m, "order": order, "pos": {t: j for j, t in enumerate(order)}, "release": [threading.Event() for _ in range(m)], "observed": [], "timeouts": 0}
        def gated(i, *a):
            if not st["release"][i].wait(timeout=20): st["timeouts"] += 1
            try: return func(*a)
            except BaseException:
                for e in st["release"]: e.set()          # a failing task ends the gather loop: let the others run so that the pool can shut down
                raise
        if not hasattr(_TLS, "stack"): _TLS.stack = []
        _TLS.stack.append(st)
        try: out = real_pm(gated, [(i, *a) for i, a in enumerate(arg_list)], max(m, max_workers or 0), use_threads)
        finally:
            _TLS.stack.pop()
            for e in st["release"]: e.set()
        sess.evals["util.parallel_map:orders_forced"] += 1
        if st["observed"] == order: sess.evals["util.parallel_map:forced_order_observed_by_gather_loop"] += 1
        elif st["timeouts"]: sess.record("oracle", "util.parallel_map", "harness: a gated task timed out waiting for its release (forced order not realised)", {"order": order, "observed": st["observed"]})
        return out

    gated_parallel_map.__wrapped__ = real_pm
    cf.as_completed = as_completed
    U.parallel_map = gated_parallel_map
    for m2, a2 in users:
        o2 = importlib.import_module(m2)
        if getattr(o2, a2, None) is real_pm: setattr(o2, a2, gated_parallel_map)

    def post_pm(out, func, arg_list, max_workers=None, use_threads=True):
        args = list(arg_list) if isinstance(arg_list, (list, tuple)) or hasattr(arg_list, "mapping") else None
        if args is None: return None
        if not isinstance(out, list) or len(out) != len(args): return f"one result per submitted task: {len(out) if hasattr(out, '__len__') else '?'} results for {len(args)} tasks"
        if any(_rows_of(a) > 20000 for a in args):
            sess.evals["util.parallel_map:recompute_skipped_large"] += 1; return None
        saved = _SCHED["perm"]; _SCHED["perm"] = None
        try:
            for i, a in enumerate(args):
                try: again = func(*a)
                except Exception as ex: return f"results[i] == func(*arg_list[i]): re-evaluation of a task raised {type(ex).__name__}"
                if not _deep_same(out[i], again): return "results[i] == func(*arg_list[i]) for every i, whatever the completion order"
        finally: _SCHED["perm"] = saved
    sess.wrap("groupby_lib.util", "parallel_map", ensures=post_pm, also=users)

    # -- (ii) split functions: consecutive partition
    def post_split(out, a, chunk_lengths):
        if len(out) != len(chunk_lengths) or any(len(c) != k for c, k in zip(out, chunk_lengths)): return f"chunks have the requested lengths {list(chunk_lengths)}: got {[len(c) for c in out]}"
        whole = np.asarray(_np_list(a)); cat = np.concatenate([np.asarray(c) for c in out]) if len(out) else whole[:0]
        if (len(cat) or len(whole)) and not _deep_same(cat, whole): return "concatenation of the chunks == the input (consecutive partition)"
    sess.wrap("groupby_lib.util", "array_split_with_chunk_handling", ensures=post_split, also=[("groupby_lib.groupby.core", "array_split_with_chunk_handling")])

    def post_chunk_args(out, n_chunks, reduce_func_name, group_key, values, ngroups, mask=None):
        parts = [b.arguments for b in out]
        if mask is None:
            gk = np.concatenate([np.asarray(p["group_key"]) for p in parts]); vv = np.concatenate([np.asarray(p["values"]) for p in parts])
            if not _deep_same(gk, np.asarray(group_key)): return "concatenation of the key blocks == group_key (consecutive partition)"
            whole = np.concatenate([np.asarray(x) for x in values]) if not isinstance(values, np.ndarray) else values
            if not _deep_same(vv, whole): return "concatenation of the value blocks == values (consecutive partition)"
            if any(len(p["group_key"]) != len(p["values"]) for p in parts): return "key block and value block of a task have the same length"
        elif isinstance(values, np.ndarray):
            sel = np.asarray(mask).nonzero()[0] if np.asarray(mask).dtype.kind == "b" else np.asarray(mask)
            got = np.concatenate([np.asarray(p["mask"]) for p in parts]) if parts else sel[:0]
            if not _deep_same(got.astype(np.int64), sel.astype(np.int64)): return "concatenation of the position blocks == the selected positions, in order"
            if any(p["group_key"] is not group_key or p["values"] is not values for p in parts): return "every masked task sees the whole key and value arrays"
    sess.wrap("groupby_lib.groupby.numba", "_chunk_groupby_args", ensures=post_chunk_args)

    def post_resolve(out, self, mask):
        group_key, first, mask_chunks = out
        if not self.key_is_chunked: return None
        lens = [len(c) for c in self._group_ikey.chunks]; off = np.cumsum([0] + lens)
        if isinstance(mask, slice):
            rng = range(len(self))[mask]; s = rng.start if len(rng) else 0
            got = [len(c) for c in group_key.chunks]
            if sum(got) != len(rng): return "slice mask: the sliced key has len(range(n)[mask]) rows"
            for j, L in enumerate(got):
                if L and not (first + j < len(lens) and off[first + j] <= s and s + L <= off[first + j + 1]): return f"slice mask: chunk {j} of the sliced key lies inside original chunk first_chunk_in+{j} (pointer table alignment)"
                s += L
        else:
            if len(mask_chunks) != len(lens): return "one mask block per key chunk"
            if mask is not None:
                if any(mc is None or len(mc) != L for mc, L in zip(mask_chunks, lens)): return "mask blocks have the lengths of the key chunks"
                if np.asarray(mask).dtype.kind == "b" and not _deep_same(np.concatenate([np.asarray(x) for x in mask_chunks]).astype(bool), np.asarray(mask).astype(bool)): return "concatenation of the mask blocks == the mask (consecutive partition)"
    sess.wrap("groupby_lib.groupby.core", "GroupBy._resolve_mask_argument_into_chunks", ensures=post_resolve)


LEVEL_TEXT = "Relational property. The merge law (block-wise = single pass) and the kernel frame conditions are P/L obligations; what joins them to the public result - the split functions, the thread pool gather, the chunk-pointer scatter in _apply_gb_func_across_chunked_group_keys, the three factorisation paths and the Arrow chunk handling - is Python glue and is decided here by running the same logical call under different strategies (threads, every completion order of <=4 tasks, lowered factorisation threshold, every chunk layout) and by sidecar contracts on parallel_map and the split functions; bounded, not proved. ROUND 3: two pieces of that glue are deductive as well (P tier): the merge loop of _apply_gb_func_across_chunked_group_keys (partials of the key chunks merged through the pointer tables, chunk j with table first_chunk_in + j; the loop is extracted mechanically on every run and proved against reduce_array_pair's contract) and GroupBy.count_ikey / _find_first_chunk_in_slice - under ASSUMED contracts of their glue callees, listed in the evidence."
