"""C05 — a mask is equivalent to filtering the rows first (public API, relational contract).

P/L (unbounded, maintained elsewhere): mask instantiations of _group_by_reduce[indexer], _find_nth, _find_first_or_last_n, _cumulative_reduce,
the rolling kernels, _ema_grouped(_timed), _build_group_sorted_indexer_numba, _find_first_chunk_in_slice; L-filter.
B (bounded): run-time RELATIONAL contract on every public operation that takes `mask=`:
      op(keys, values, mask)  ==  op(keys[sel], values[sel])          sel = rows the mask selects (array-indexing semantics)
   reductions (size/count/sum/mean/min/max/first/last/var/std, agg, ratio, density, subset_ratio, median/quantile/apply, crosstab, value_counts):
      same labels and the same number per label; in addition == the executable specification (props/common.py) over the selected rows
   row-aligned operations (transform=True, cumsum/cummin/cummax/cumcount, rolling_sum/mean/min/max, shift, diff, ema plain/halflife/time-weighted,
      median(transform=True), *(index_by_groups=True)): at every SELECTED row the value the operation produces on the filtered data at the
      corresponding position (unselected rows are unconstrained; because the reference never sees them they cannot influence a selected row)
   mask kinds: boolean ndarray, boolean Series with an aligned index, slice (bounds in [-n-1, n+1] and None), integer positions.
   An operation may REJECT a mask kind it does not support by raising (the quantifier is over accepted kinds); it may not silently misread it.
   key representations: contiguous numpy keys, pandas Series keys, pyarrow ChunkedArray keys (every split into <=3 chunks), and the
   chunked factorisation forced by lowering core.THRESHOLD_FOR_CHUNKED_FACTORIZE inside check_case (restored afterwards).
 + intermediate contracts: GroupBy._resolve_mask_argument_into_chunks (every non-empty key chunk handed on is the part of ORIGINAL chunk
   first_chunk_in+i that the slice selects; one mask chunk per key chunk) and the _group_by_reduce preconditions (aligned inputs, positions in bounds).
"""
import itertools, io, contextlib, functools, collections
import numpy as np, pandas as pd
from . import common as C

PROP = "C05"; LEVEL = "other"; P_TIER = True
SCOPE = {"quick": "keys over {null,0,1,2} (float/NaN; str/None, two-key and Series keys on {null,0,1}), n<=3 exhaustive x EVERY row subset as selection x mask kinds {bool ndarray, bool Series (aligned index 10..), sorted positions, "
                  "3 canonical slice spellings (plain, negative, None)} x 8 operation families (10 reductions + spec; 7 transforms; 4 cumulative; 6 rolling/shift/diff with (window,min_periods) in {(1,None),(2,1),(2,None),(3,1)}; "
                  "4 EMA forms; apply/median/quantile/index_by_groups; crosstab/value_counts/agg/ratio/density/subset_ratio; the masked row-selection kernels) x value classes float(with nulls)/int/datetime/timedelta/bool rotated; "
                  "chunked keys: int/float keys over {0,1,2}, n<=3, every split into <=3 Arrow chunks + lowered threshold (1), every subset, reductions+transforms always and one row-aligned family per key sequence; "
                  "5 designed 4-5-row chunked key sequences that start with a descent (no sorted-prefix piece: the caller's chunks are the group-key chunks) x 5 layouts x every subset; "
                  "EVERY slice (start, stop in {None} u [-n-1, n+1]) on chunked keys for n<=3 (n=4 over {0,1} with 3 layouts); positions with repeats/negatives/unsorted of length<=2 for n<=3 on contiguous, Arrow-chunked and threshold-chunked keys; "
                  "3 designed 1_000_000-row cases with the real threshold (slice with a negative start, boolean, positions); seeded random cases up to 24 rows",
         "thorough": "as quick with n<=4 for the contiguous and chunked operation streams, every slice for n<=4 over {0,1,2} with every split into <=3 chunks, random cases up to 64 rows"}
RULE = "a case = (keys, key kind, key representation/chunk layout, value class, value-null pattern, operation family with its parameters, one row selection with the list of mask spellings that select it); distinct = distinct canonical JSON; non-trivial = a selection that drops at least one row of an input with >= 2 rows"
ASSUMPTIONS = ["numpy boolean/slice/fancy indexing of the INPUT arrays builds the filtered reference inputs as documented", "pandas Series/Index construction; pyarrow chunked_array construction",
               "A-real: floats compared with relative tolerance 1e-9 (masked and filtered runs may associate sums differently); A-int64",
               "the reference run (same operation, contiguous keys, no mask) is the library itself: a defect common to both runs is invisible to the relational clause (reductions are additionally compared with the executable specification)",
               "BOUNDED: pandas glue checked only within the stated scope; an operation that raises for a mask KIND outside its documented kinds (slice/positions for row-aligned and apply-based operations) is counted as 'kind not accepted', not as a violation"]
REQUIRED_CONTRACTS = {"core.GroupBy._resolve_mask_argument_into_chunks": 1, "numba._group_by_reduce": 1}
EXPLANATION = ("Modular: the kernels' postconditions are stated over the selected subsequence and proved (P tier, L-filter); the mask plumbing between the public methods and the kernels (boolean -> nonzero, slice -> views, "
               "positions -> boolean for chunked keys, per-chunk mask split, first chunk inside a slice, observed labels under a mask, mask[indexer] for group-sorted output) is pandas/pyarrow glue and is decided by a run-time relational "
               "contract taken from the property statement: the masked call equals the same call on the filtered inputs, for every selection of a bounded-exhaustive input space and every spelling of the selection (bounded, not proved).")
BUDGET = {"quick": 90, "thorough": 600}

RED = ["size", "count", "sum", "mean", "min", "max", "first", "last", "var", "std"]
TR = ["size", "count", "sum", "mean", "min", "last", "std"]
FAMS = ("red", "tr", "cum", "roll", "ema", "grp", "misc", "kern")
ROLLP = [(1, None), (2, 1), (2, None), (3, 1)]
ALL_KINDS = ("bool", "series", "slice", "pos")
# which mask kinds an operation family supports (read off core.py: reductions go through _group_func_wrap = "Boolean, fancy index or slice mask";
# the row-aligned kernels and apply() index the mask row by row = boolean only). Outside this table raising is a legitimate rejection.
ACCEPTS_OP = {"subset_ratio": ("bool", "series")}      # subset_mask & global_mask: boolean only
ACCEPTS = {"red": ALL_KINDS, "tr": ALL_KINDS, "cred": ALL_KINDS, "ctr": ALL_KINDS, "slc": ALL_KINDS, "pos": ALL_KINDS, "misc": ALL_KINDS, "cum": ("bool", "series"), "roll": ("bool", "series"), "ema": ("bool", "series"),
           "grp": ("bool", "series"), "kern": ("bool",)}
# reductions on CHUNKED keys are split into three operation groups (case["g"]) so that one process JIT-compiles reduce_array_pair/_group_by_reduce for 2-3 reducers only
OPGROUP = {0: {"size", "count", "sum", "mean", "var", "size(transform)", "count(transform)", "sum(transform)"}, 1: {"min", "max", "min(transform)"}, 2: {"first", "last", "last(transform)"}}
IDX0 = 10        # Series inputs carry the index 10, 11, ... so that positional and label-based access differ


# ----------------------------------------------------------------------------- inputs
def make_keys(kkind, keys):
    """-> (object to pass as group key (numpy), list of logical labels (None = null key))"""
    if kkind == "float": return np.array([np.nan if x is None else float(x) for x in keys], dtype=np.float64), [None if x is None else float(x) for x in keys]
    if kkind == "str": return np.array([None if x is None else "abc"[x] for x in keys], dtype=object), [None if x is None else "abc"[x] for x in keys]
    if kkind == "int": return np.array([x + 5 for x in keys], dtype=np.int64), [x + 5 for x in keys]
    if kkind == "two":
        k1 = np.array([np.nan if x is None else float(x // 2) for x in keys], dtype=np.float64); k2 = np.array(["ev" if (x or 0) % 2 == 0 else "od" for x in keys], dtype=object)
        return [k1, k2], [None if x is None else (float(x // 2), "ev" if x % 2 == 0 else "od") for x in keys]
    raise ValueError(kkind)


def _sel(mask, n):
    if mask[0] == "series": return [i for i, m in enumerate(mask[1]) if m]
    return C.selection_rows(tuple(mask), n)


def _is_range(sel):
    return all(b == a + 1 for a, b in zip(sel, sel[1:]))


@functools.lru_cache(maxsize=4096)
def _slice_table(n):
    bounds = [None] + list(range(-n - 1, n + 2)); tab = collections.defaultdict(list)
    for a in bounds:
        for b in bounds: tab[tuple(range(n)[slice(a, b)])].append((a, b))
    return tab


def slice_spellings(n, sel):
    """every (start, stop) with start, stop in {None} u [-n-1, n+1] whose slice selects exactly `sel`"""
    return [("slice", [a, b, None]) for a, b in _slice_table(n).get(tuple(sel), [])]


def canonical_slices(n, sel):
    sp = slice_spellings(n, sel)
    if not sp: return []
    def pick(score): return min(sp, key=lambda m: (score(m[1][0], m[1][1]), str(m)))
    plain = pick(lambda a, b: (a is None) + (b is None) + 2 * ((a or 0) < 0) + 2 * ((b or 0) < 0) + (abs(a or 0) + abs(b or 0)) / 100)
    neg = pick(lambda a, b: -((a is not None and a < 0) + (b is not None and b < 0)))
    non = pick(lambda a, b: -((a is None) + (b is None)))
    out = []
    for m in (plain, neg, non):
        if m not in out: out.append(m)
    return out


def mask_spellings(n, sel, kinds=ALL_KINDS, slices="canon"):
    out = []
    if "bool" in kinds: out.append(("bool", [i in sel for i in range(n)]))
    if "series" in kinds: out.append(("series", [i in sel for i in range(n)]))
    if "pos" in kinds: out.append(("pos", list(sel)))
    if "slice" in kinds: out += canonical_slices(n, sel) if slices == "canon" else slice_spellings(n, sel)
    return [list(m) for m in out]


def _is_canon(keys):
    """symmetry cut: the non-null labels of the sequence are exactly 0..m-1 (dense ranks) - every key sequence is order-isomorphic to one of these"""
    nn = sorted({x for x in keys if x is not None})
    return nn == list(range(len(nn)))


def _subsets(n):
    for r in range(n + 1):
        for s in itertools.combinations(range(n), r): yield list(s)


# ----------------------------------------------------------------------------- case streams
def _case(keys, kkind, keyrep, vkind, nullpat, fam, masks, sort=True, blocks=None, params=None, g=None):
    c = {"keys": list(keys), "kkind": kkind, "keyrep": keyrep, "vkind": vkind, "nullpat": list(nullpat), "fam": fam, "masks": masks, "sort": sort}
    if g is not None: c["g"] = g
    if blocks is not None: c["blocks"] = blocks
    if params is not None: c["params"] = params
    return c


_VK = {"cred": ["float", "int", "datetime"], "ctr": ["float", "int", "datetime"], "red": ["float", "int", "datetime", "float", "timedelta", "bool"], "tr": ["float", "int", "datetime"], "cum": ["float", "int", "datetime", "timedelta"], "roll": ["float", "int", "datetime"],
       "ema": ["float", "int"], "grp": ["float", "int"], "misc": ["float", "int"], "kern": ["float"]}


def _nullpat(vkind, n, j):
    if not C.nullable(vkind) or j % 3 == 0: return [False] * n
    if j % 3 == 1: return [i % 2 == 1 for i in range(n)]
    return [i % 2 == 0 for i in range(n)] if j % 2 else [True] * n


def _params(fam, j):
    if fam == "roll": return {"window": ROLLP[j % 4][0], "minp": ROLLP[j % 4][1], "swin": 1 + (j % 2)}
    return None


def _ops_stream(N, alphabet, kkind, keyrep, fams, kinds=ALL_KINDS, sym=0):
    j = 0
    for n in range(1, N + 1):
        for keys in itertools.product(alphabet, repeat=n):
            if n >= sym > 0 and not _is_canon(keys): continue
            for fam in fams:
                j += 1
                vkind = _VK[fam][j % len(_VK[fam])]; pat = _nullpat(vkind, n, j // len(_VK[fam]))
                for sel in _subsets(n):
                    yield _case(keys, kkind, keyrep, vkind, pat, fam, mask_spellings(n, sel, kinds), sort=(j % 5 != 0), params=_params(fam, j))


def _layouts(n, max_parts=3):
    return [("pa", comp) for comp in C.compositions(n, max_parts)] + [("thr", None)]


def _chunked_ops_stream(N, big):
    j = 0; light = ("cum", "roll", "ema", "grp")
    for n in range(1, N + 1):
        for keys in itertools.product([0, 1, 2], repeat=n):
            if n >= (4 if big else 1) and not _is_canon(keys): continue
            for keyrep, blocks in _layouts(n):
                j += 1
                for fam in ("red", "tr", light[j % 4]):
                    vks = _VK[fam] if big else ["float"]          # quick: one value dtype on chunked keys (every dtype x reducer is a fresh multi-second JIT of reduce_array_pair in every process)
                    vkind = vks[j % len(vks)]; pat = _nullpat(vkind, n, j)
                    for sel in _subsets(n):
                        masks = mask_spellings(n, sel); masks = [m for m in masks if m[0] != "slice"] + [m for m in masks if m[0] == "slice"][:1]     # every slice spelling: see the slice stream
                        for g in ((0, 1, 2) if fam in ("red", "tr") else (None,)):
                            yield _case(keys, "int" if j % 2 else "float", keyrep, vkind, pat, "c" + fam if fam in ("red", "tr") else fam, masks, sort=(j % 3 != 0), blocks=blocks, params=_params(fam, j), g=g)


def _chunked_values_stream(N):
    """VALUES arriving in several chunks (pyarrow ChunkedArray; an Arrow-backed Series when the mask is a Series) on contiguous keys: the row-aligned kernels walk the chunks
    with one global row counter that also indexes the keys and the mask"""
    j = 0
    for n in range(2, N + 2):
        for keys in itertools.product([None, 0, 1], repeat=n):
            if not _is_canon(keys): continue
            for vblocks in C.compositions(n, 3):
                if len(vblocks) < 2: continue
                j += 1
                for fam in ("roll", "cum", ("red", "tr", "ema")[j % 3]):
                    pat = _nullpat("float", n, j)
                    for sel in _subsets(n):
                        c = _case(keys, "float", "np", "float", pat, fam, mask_spellings(n, sel, ("bool", "series") if fam in ("roll", "cum", "ema") else ALL_KINDS), sort=(j % 5 != 0), params=_params(fam, j))
                        c["vblocks"] = list(vblocks); yield c


def _chunked_desc_stream():
    """designed: chunked keys that START with a descent and have >= 4 rows - the only way to get NO sorted-prefix piece (cutoff <= n/4), i.e. group-key chunks and pointers that are exactly the caller's chunks"""
    j = 0
    for keys in ((1, 0, 1, 0), (2, 1, 0, 1), (1, 0, 0, 2), (1, 0, 2, 1), (2, 0, 1, 0, 2)):
        n = len(keys)
        for keyrep, blocks in [("pa", [2, n - 2]), ("pa", [1, n - 1]), ("pa", [2, 1, n - 3]), ("pa", [n - 1, 1]), ("thr", None)]:
            for fam in ("cred", "ctr"):
                j += 1
                for sel in _subsets(n):
                    masks = mask_spellings(n, sel); masks = [m for m in masks if m[0] != "slice"] + [m for m in masks if m[0] == "slice"][:1]
                    for g in (0, 1, 2): yield _case(keys, "int" if j % 2 else "float", keyrep, "float", _nullpat("float", n, j), fam, masks, sort=(j % 3 != 0), blocks=blocks, g=g)


def _slice_stream(tier):
    big = tier == "thorough"; j = 0
    for n in range(1, 5):
        alphabet = [0, 1, 2] if (n <= 3 or big) else [0, 1]
        lay = _layouts(n) if (n <= 3 or big) else [("pa", [2, 2]), ("pa", [1, 2, 1]), ("thr", None)]
        ranges = [list(range(a, b)) for a in range(n + 1) for b in range(a, n + 1) if a < b] + [[]]
        for keys in itertools.product(alphabet, repeat=n):
            if not big and not _is_canon(keys): continue
            for keyrep, blocks in lay:
                j += 1
                for sel in ranges:
                    yield _case(keys, "int" if j % 2 else "float", keyrep, "float", _nullpat("float", n, j), "slc", mask_spellings(n, sel, ("slice",), slices="all"), sort=(j % 3 != 0), blocks=blocks, g=0)


def _open_stream():
    """positions with repeats, negative positions, unsorted positions: array-indexing semantics (keys[pos], values[pos])"""
    j = 0
    for n in range(1, 4):
        masks = [m for m in C.masks_for(n, ("pos",), pos_len=2) if m[1] and (len(set(m[1])) < len(m[1]) or min(m[1]) < 0 or list(m[1]) != sorted(m[1]))]
        for keys in itertools.product([0, 1, 2], repeat=n):
            for keyrep, blocks in [("np", None), ("pa", [1, n - 1] if n > 1 else [1]), ("thr", None)]:
                j += 1
                for m in masks:
                    for g in (0, 2): yield _case(keys, "float", keyrep, "float", _nullpat("float", n, j), "pos", [list(m)], sort=True, blocks=blocks, g=g)


def cases(tier, seed):
    big = tier == "thorough"; N = 4 if big else 3
    sym = 4 if big else 1          # quick: key sequences up to order-isomorphism of the non-null labels; thorough: raw alphabet up to n=3
    streams = [_ops_stream(N, [None, 0, 1, 2], "float", "np", ("red", "tr"), sym=sym),
               _ops_stream(N, [None, 0, 1, 2], "float", "np", ("cum", "roll", "ema", "grp", "misc", "kern"), sym=sym),
               _chunked_ops_stream(N, big),
               _slice_stream(tier),
               _ops_stream(N, [None, 0, 1], "str", "np", ("red", "tr", "cum", "grp"), sym=sym),
               _ops_stream(N, [None, 0, 1, 2], "two", "np", ("red", "tr", "roll", "misc"), sym=sym),
               _ops_stream(N, [None, 0, 1], "float", "series", ("red", "tr", "cum", "roll", "ema", "grp"), sym=sym),
               _open_stream(), _chunked_desc_stream(), _chunked_values_stream(N)]
    return C.roundrobin(*streams, weights=(2, 3, 3, 2, 1, 1, 1, 1, 1, 2))


def extra_cases(tier, seed):
    """size boundary: the REAL chunked factorisation (1_000_000 rows, threshold untouched); keys are generated from a formula, not stored"""
    out = []
    for fam, masks in (("slc", [["slice", [-300001, None, None]], ["bool", "i%3!=1"], ["pos", "range(5, n, 7)"]]),):
        for m in masks: out.append({"big": 1_000_000, "keyform": "(i*7919 % 1000) % 13", "kkind": "int", "keyrep": "np", "vkind": "float", "fam": fam, "masks": [m], "sort": True, "g": 0, "only": ["size", "sum", "sum(transform)"]})
    # positions in the CALLER's order on contiguous keys (array-indexing semantics: the selected rows are visited in the order given, repeats count): designed
    # sequences that the exhaustive open stream (n <= 3) only reaches late; order-sensitive reducers (first / last) tell the visiting order apart
    for j, (keys, pos) in enumerate((([0, 0, 1, 1, 0], [4, 0, 3]), ([0, 0, 1, 1, 0], [3, 1, 2, 0]), ([1, 0, 1, 0, 1, 0], [5, 4, 3, 2, 1, 0]), ([0, 1, 0, 1], [-1, -4, 2]), ([0, 0, 0, 1], [2, 2, 0, 3, 3]),
                                     ([None, 0, 1, 0, 1], [4, 3, 0, 2, 1]), ([2, 1, 0, 2, 1, 0], [5, 0, 4, 1]))):
        for kkind in ("float", "str"):
            for vkind in ("float", "int"):
                out.append(_case(keys, kkind, "np", vkind, _nullpat(vkind, len(keys), j), "pos", [["pos", pos]], sort=(j % 2 == 0)))
    return out


def random_case(rnd, tier):
    n = rnd.randint(5, 64 if tier == "thorough" else 24); fam = rnd.choice(FAMS)
    keyrep = "np" if fam == "kern" else rnd.choice(["np", "np", "pa", "thr", "series"]); chunked = keyrep in ("pa", "thr")
    kkind = rnd.choice(["int", "float"]) if chunked else rnd.choice(["float", "float", "str", "two"])
    keys = [rnd.choice([0, 1, 2] if chunked else [None, 0, 1, 2]) for _ in range(n)]
    vkind = "float" if (chunked and tier != "thorough") else rnd.choice(_VK[fam]); pat = [C.nullable(vkind) and rnd.random() < 0.3 for _ in range(n)]
    blocks = None
    if keyrep == "pa":
        cuts = sorted(rnd.sample(range(1, n), rnd.randint(1, 3))); b = [0] + cuts + [n]; blocks = [b[i + 1] - b[i] for i in range(len(b) - 1)]
    if rnd.random() < 0.4:
        a = rnd.randrange(0, n + 1); b = rnd.randrange(a, n + 1); sel = list(range(a, b))
    else: sel = [i for i in range(n) if rnd.random() < 0.6]
    masks = mask_spellings(n, sel)
    if not chunked and keyrep == "np" and fam in ("red", "pos") and sel and rnd.random() < 0.5:
        # positions in the caller's order (shuffled, sometimes with a repeat or a negative spelling) on contiguous keys
        pos = list(sel); rnd.shuffle(pos)
        if rnd.random() < 0.3: pos.append(rnd.choice(pos))
        if rnd.random() < 0.3: pos[0] -= n
        return _case(keys, kkind, keyrep, vkind, pat, "pos", [["pos", pos]], sort=rnd.random() < 0.7)
    if _is_range(sel): masks = masks[:3] + rnd.sample(slice_spellings(n, sel), min(3, len(slice_spellings(n, sel))))
    g = None
    if chunked and fam in ("red", "tr"): fam = "c" + fam; g = rnd.randrange(3)
    return _case(keys, kkind, keyrep, vkind, pat, fam, masks, sort=rnd.random() < 0.7, blocks=blocks, params=_params(fam, rnd.randrange(8)), g=g)


def nontrivial(case):
    if "big" in case: return True
    n = len(case["keys"])
    return n >= 2 and len(_sel(case["masks"][0], n)) < n or (case["fam"] == "pos")


# ----------------------------------------------------------------------------- operations: name -> (function(gb, x), result kind)
class _X:
    """the inputs of ONE call: values (+ secondary arrays) already in the representation of the run (masked or filtered), the mask object or None"""
    def __init__(self, k, v, m, times, col, sub, idx): self.k, self.v, self.m, self.times, self.col, self.sub, self.idx = k, v, m, times, col, sub, idx


def _ops(fam, vkind, params):
    from groupby_lib.groupby import core as gc, numba as gn
    temporal = vkind in ("datetime", "timedelta"); ops = {}
    def red(op, **kw):
        if op == "size": return lambda gb, x: gb.size(mask=x.m, **kw)
        return lambda gb, x: getattr(gb, op)(x.v, mask=x.m, **kw)
    if fam in ("red", "cred", "slc", "pos"):
        names = {"red": RED, "cred": ["size", "count", "sum", "mean", "min", "max", "first", "last", "var"], "slc": ["size", "count", "sum"], "pos": ["size", "count", "sum", "first", "last"]}[fam]
        for op in names:
            if op == "sum" and vkind == "datetime": continue
            if op in ("var", "std") and (temporal or vkind == "bool"): continue
            ops[op] = (red(op), "red")
        if fam == "slc": ops["sum(transform)"] = (red("sum", transform=True), "row")
    elif fam in ("tr", "ctr"):
        for op in (TR if fam == "tr" else ["size", "count", "sum", "min", "last"]):
            if op == "sum" and vkind == "datetime": continue
            if op == "std" and (temporal or vkind == "bool"): continue
            ops[f"{op}(transform)"] = (red(op, transform=True), "row")
    elif fam == "cum":
        for op in ("cumsum", "cummin", "cummax"):
            if op == "cumsum" and vkind == "datetime": continue
            ops[op] = ((lambda op: lambda gb, x: getattr(gb, op)(x.v, mask=x.m))(op), "row")
        if not temporal: ops["cumsum(skip_na=False)"] = (lambda gb, x: gb.cumsum(x.v, mask=x.m, skip_na=False), "row")
        ops["cumcount"] = (lambda gb, x: gb.cumcount(mask=x.m), "row")
    elif fam == "roll":
        w, mp, sw = params["window"], params["minp"], params["swin"]
        for op in ("rolling_sum", "rolling_mean", "rolling_min", "rolling_max"):
            if temporal and op in ("rolling_sum", "rolling_mean"): continue
            ops[op] = ((lambda op: lambda gb, x: getattr(gb, op)(x.v, window=w, min_periods=mp, mask=x.m))(op), "row")
        ops["shift"] = (lambda gb, x: gb.shift(x.v, window=sw, mask=x.m), "row")
        ops["diff"] = (lambda gb, x: gb.diff(x.v, window=sw, mask=x.m), "row")
    elif fam == "ema":
        ops["ema(alpha)"] = (lambda gb, x: gb.ema(x.v, alpha=0.5, mask=x.m), "row")
        ops["ema(halflife)"] = (lambda gb, x: gb.ema(x.v, halflife=1.5, mask=x.m), "row")
        ops["ema(times)"] = (lambda gb, x: gb.ema(x.v, halflife="1D", times=x.times, mask=x.m), "row")
        ops["ema(index_by_groups)"] = (lambda gb, x: gb.ema(x.v, alpha=0.5, mask=x.m, index_by_groups=True), "rowsel")
    elif fam == "grp":
        ops["apply(sum)"] = (lambda gb, x: gb.apply(x.v, np.sum, mask=x.m), "red")
        ops["median"] = (lambda gb, x: gb.median(x.v, mask=x.m), "red")
        ops["quantile"] = (lambda gb, x: gb.quantile(x.v, q=[0.25, 0.5], mask=x.m), "red")
        ops["median(transform)"] = (lambda gb, x: gb.median(x.v, mask=x.m, transform=True), "row")
        ops["rolling_sum(index_by_groups)"] = (lambda gb, x: gb.rolling_sum(x.v, window=2, min_periods=1, mask=x.m, index_by_groups=True), "rowsel")
    elif fam == "misc":
        ops["crosstab(sum)"] = (lambda gb, x: gc.crosstab(x.k, x.col, x.v, aggfunc="sum", mask=x.m), "table")
        ops["crosstab(size)"] = (lambda gb, x: gc.crosstab(x.k, x.col, mask=x.m), "table")
        ops["value_counts"] = (lambda gb, x: gc.value_counts(x.k, mask=x.m), "red")
        ops["agg(list)"] = (lambda gb, x: gb.agg(x.v, ["sum", "max"], mask=x.m), "red")
        ops["ratio"] = (lambda gb, x: gb.ratio(x.v, x.v * 2 + 1, mask=x.m), "red")
        ops["density"] = (lambda gb, x: gb.density(x.v, mask=x.m), "red")
        ops["subset_ratio"] = (lambda gb, x: gb.subset_ratio(x.v, x.sub, np.ones(len(x.sub), dtype=bool) if x.m is None else x.m), "red")
    elif fam == "kern":
        def km(x): return None if x.m is None else np.asarray(x.m)
        def codes(gb): return np.asarray(gb.group_ikey)
        def bylab(gb, out): return {_lab(l): np.atleast_1d(o).tolist() for l, o in zip(gb.result_index, out)}
        for nth in (0, 1, -1): ops[f"_find_nth({nth})"] = ((lambda nth: lambda gb, x: bylab(gb, gn._find_nth(codes(gb), gb.ngroups, nth, km(x))))(nth), "posmap")
        ops["find_first_n(2)"] = (lambda gb, x: bylab(gb, gn.find_first_n(codes(gb), gb.ngroups, 2, km(x))), "posmap")
        ops["find_last_n(2)"] = (lambda gb, x: bylab(gb, gn.find_last_n(codes(gb), gb.ngroups, 2, km(x))), "posmap")
    else: raise ValueError(fam)
    return ops


def _fn_name(op):
    base = op.split("(")[0]
    if base in ("crosstab", "value_counts"): return f"core.{base}"
    if base in ("_find_nth", "find_first_n", "find_last_n"): return f"numba.{base}"
    return f"GroupBy.{base}"


# ----------------------------------------------------------------------------- comparison
def _eq(a, b, rtol=1e-9):
    an, bn = C.is_null(a), C.is_null(b)
    if an or bn: return an and bn
    if isinstance(a, (float, np.floating)) and isinstance(b, (float, np.floating)) and a == b: return True       # +-inf
    return C.same(a, b, rtol)


def _at(res, i):
    return res.iloc[i] if hasattr(res, "iloc") else res[i]


def _lab(l):
    if isinstance(l, tuple): return tuple(_lab(x) for x in l)
    if isinstance(l, (float, np.floating)): return float(l)
    if isinstance(l, (int, np.integer)) and not isinstance(l, (bool, np.bool_)): return int(l)
    return l


def _mapping(res):
    """reduction result -> {label (, column): value}"""
    if isinstance(res, pd.DataFrame):
        return {(_lab(l), str(c)): res[c].iloc[i] for c in res.columns for i, l in enumerate(res.index)}
    return {_lab(l): res.iloc[i] for i, l in enumerate(res.index)}


def _table(res):
    out = {}
    for c in res.columns:
        for i, l in enumerate(res.index):
            v = res[c].iloc[i]
            if not C.is_null(v): out[(_lab(l), _lab(c))] = v
    return out


def _rowmap(res, idx):
    """group-sorted output (index = labels.., inner row label) -> {row position: value}"""
    inner = res.index.get_level_values(-1)
    return {(int(l) - IDX0 if idx is not None else int(l)): res.iloc[i] for i, l in enumerate(inner)}


def _cmp_maps(got, ref):
    bad = []
    if set(got) != set(ref): return [("labels", sorted(map(str, got)), sorted(map(str, ref)))]
    for l in ref:
        if not _eq(got[l], ref[l]): bad.append((str(l), str(got[l]), str(ref[l])))
    return bad


def _spec_value(op, rows, vkind):
    if op in ("var", "std"):
        nn = [float(x) for x in rows if x is not None]
        if len(nn) < 2: return None
        mu = sum(nn) / len(nn); var = sum((x - mu) ** 2 for x in nn) / (len(nn) - 1)
        return var if op == "var" else var ** 0.5
    return C.reduce_rows(op, rows)


def _cmp_spec(op, got, labs, vals, sel, vkind):
    """got: {label: value}; spec: labels = labels with a selected row, value = reduction of the non-null values in the selected rows of the label"""
    exp = {lab: _spec_value(op, [vals[r] for r in sel if labs[r] == lab], vkind) for lab in dict.fromkeys(labs[r] for r in sel if labs[r] is not None)}
    if set(got) != set(map(_lab, exp)): return [("labels", sorted(map(str, got)), sorted(map(str, exp)))]
    bad = []
    for l, e in exp.items():
        g = got[_lab(l)]
        if vkind == "bool" and e is None: e = False
        if op == "mean" and vkind in ("datetime", "timedelta") and e is not None and not C.is_null(g):
            gv, evv = (pd.Timestamp(g).value if vkind == "datetime" else pd.Timedelta(g).value), e.value
            if abs(gv - evv) <= max(2, abs(evv) * 2.0 ** -50): continue
        if op in ("var", "std") and e is not None and not C.is_null(g) and abs(float(g) - e) <= 1e-7 * max(1.0, abs(e)): continue
        if not C.same(g, e): bad.append((str(l), str(g), str(e)))
    return bad


# ----------------------------------------------------------------------------- the check
def _materialise(case):
    if "big" in case:
        n = case["big"]; i = np.arange(n); keys = eval(case["keyform"], {"i": i})
        k = keys.astype(np.int64) + 5; labs = None; v = ((i * 7) % 11 - 3 + (i % 5) * 0.25).astype(np.float64); v[i % 17 == 3] = np.nan
        return n, k, labs, v, None
    n = len(case["keys"]); k, labs = make_keys(case["kkind"], case["keys"]); v, vals = C.make_values(case["vkind"], n, case["nullpat"])
    return n, k, labs, v, vals


def _big_mask(m, n):
    if m[0] == "bool" and isinstance(m[1], str):
        i = np.arange(n); return ("boolarr", eval(m[1], {"i": i}))
    if m[0] == "pos" and isinstance(m[1], str): return ("posarr", np.array(list(eval(m[1], {"n": n, "range": range})), dtype=np.int64))
    return m


def _rep(a, idx):
    """a numpy input in the representation of the run: Series with the shared index when idx is given"""
    if idx is None or a is None: return a
    if isinstance(a, list): return [pd.Series(x, index=idx) for x in a]
    return pd.Series(a, index=idx)


def _vrep(v, idx, vblocks):
    """the values in the representation of the run: chunked (pyarrow ChunkedArray, or a Series backed by one when the run uses an index) when the case says so"""
    if vblocks is None or v is None or isinstance(v, list): return _rep(v, idx)
    import pyarrow as pa
    b = np.cumsum([0] + list(vblocks)); ch = pa.chunked_array([pa.array(v[b[i]:b[i + 1]], from_pandas=False) for i in range(len(b) - 1)])
    return ch if idx is None else pd.Series(pd.arrays.ArrowExtensionArray(ch), index=idx)


def _build_gb(k, keyrep, blocks, sort, n, idx):
    """a GroupBy in the requested key representation"""
    from groupby_lib.groupby import GroupBy, core as gc
    import pyarrow as pa
    if keyrep == "pa" and n > 0:
        b = np.cumsum([0] + list(blocks)); kk = pa.chunked_array([pa.array(k[b[i]:b[i + 1]]) for i in range(len(b) - 1)])
        return GroupBy(kk, sort=sort), kk
    if keyrep == "thr":
        old = gc.THRESHOLD_FOR_CHUNKED_FACTORIZE
        try:
            gc.THRESHOLD_FOR_CHUNKED_FACTORIZE = 1
            return GroupBy(k, sort=sort), k
        finally: gc.THRESHOLD_FOR_CHUNKED_FACTORIZE = old
    if keyrep == "series":
        kk = _rep(k, pd.RangeIndex(IDX0, IDX0 + n)); return GroupBy(kk, sort=sort), kk
    return GroupBy(k, sort=sort), k


def _ref_layout(case, sel, n):
    """key representation of the filtered reference: the same container kind as the run under test (a filtered ChunkedArray is a ChunkedArray:
    the chunks keep their selected rows, chunks left empty are dropped; the lowered threshold stays lowered), so that a defect of a key
    representation that has nothing to do with masks shows in both runs and cancels out of the relational clause"""
    rep = case["keyrep"]
    if "big" in case: return "thr", None
    if rep == "pa":
        if list(sel) != sorted(set(sel)): return "pa", [len(sel)]
        b = np.cumsum([0] + list(case["blocks"])); cnt = [sum(1 for r in sel if b[i] <= r < b[i + 1]) for i in range(len(b) - 1)]
        return "pa", [c for c in cnt if c > 0]
    if rep == "thr": return "thr", None
    return "np", None


class _Raised:
    def __init__(self, ex): self.ex = ex


def check_case(sess, case):
    from groupby_lib.groupby import GroupBy
    n, k, labs, v, vals = _materialise(case); fam = case["fam"]; vkind = case["vkind"]; big = "big" in case
    masks = [_big_mask(m, n) for m in case["masks"]]
    m0 = masks[0]
    if m0[0] == "boolarr": sel = list(np.nonzero(m0[1])[0])
    elif m0[0] == "posarr": sel = list(m0[1])
    else: sel = _sel(m0, n)
    sela = np.array(sel, dtype=np.int64)
    times = (np.datetime64("2020-01-01", "ns") + np.cumsum([(i * 3) % 4 + 1 for i in range(n)]).astype("m8[D]").astype("m8[ns]")) if fam == "ema" else None
    col = np.array([(i + i // 2) % 2 for i in range(n)], dtype=np.int64) if fam == "misc" else None
    sub = np.array([(i * 5 + 1) % 3 != 0 for i in range(n)], dtype=bool) if fam == "misc" else None
    ops = _ops(fam, vkind, case.get("params")); calls = 0
    if "op" in case: ops = {o: f for o, f in ops.items() if o == case["op"]}
    if "only" in case: ops = {o: f for o, f in ops.items() if o in case["only"]}
    if case.get("g") is not None: ops = {o: f for o, f in ops.items() if o in OPGROUP[case["g"]]}
    # ---- reference: the same operation on the filtered inputs (same kind of key container, no mask)
    pick = lambda a: None if a is None else ([x[sela] for x in a] if isinstance(a, list) else a[sela])
    kf = pick(k); ref = {}; rrep, rblocks = _ref_layout(case, sel, n); ref_gb = None
    chunked = case["keyrep"] in ("pa", "thr") or big; gb = None
    with contextlib.redirect_stdout(io.StringIO()):
        for op, (fn, kind) in ops.items():
            calls += 1
            try:
                if chunked and kind != "red": g_, kkf = _build_gb(kf, rrep, rblocks, case["sort"], len(sel), None)      # chunked keys are unified in place by the non-reducing operations: fresh object for each of those
                else:
                    if ref_gb is None: ref_gb = _build_gb(kf, rrep, rblocks, case["sort"], len(sel), None)
                    g_, kkf = ref_gb
                ref[op] = fn(g_, _X(kkf, pick(v), None, pick(times), pick(col), pick(sub), None))
            except Exception as ex: ref[op] = _Raised(ex)
    has_null_key = (not big) and any(x is None for x in case["keys"])
    # one more spelling for reductions: the caller keeps ONE boolean buffer and refills it in place between two calls on the same grouping object (first another selection, then
    # this one): the second call must see the buffer's current content (nothing may be remembered per mask OBJECT)
    case_masks = list(case["masks"])
    if fam == "red" and not big and n >= 2 and sel == sorted(set(sel)) and len(sel) < n and case["keyrep"] != "series":
        masks = masks + [("bufreuse", [i in set(sel) for i in range(n)])]; case_masks.append(["bool", [i in set(sel) for i in range(n)], "one buffer refilled in place between two calls on the same object"])
    for mi, mask in enumerate(masks):
        reuse = mask[0] == "bufreuse"
        if reuse: mask = ("bool", mask[1])
        kind_m = {"boolarr": "bool", "posarr": "pos"}.get(mask[0], mask[0])
        if fam == "kern" and kind_m != "bool": continue          # kernel-level functions: boolean masks are their whole interface
        idx = pd.RangeIndex(IDX0, IDX0 + n) if (kind_m == "series" or case["keyrep"] == "series") else None
        if mask[0] == "bool": m = np.array(mask[1], dtype=bool)
        elif mask[0] == "series": m = pd.Series(np.array(mask[1], dtype=bool), index=idx)
        elif mask[0] == "slice": m = slice(*mask[1])
        elif mask[0] == "pos": m = np.array(mask[1], dtype=np.int64)
        else: m = mask[1]
        for op, (fn, kind) in ops.items():
            c = dict(case, masks=[case_masks[mi]], op=op); sess.current_case = c; fname = _fn_name(op)
            if kind == "rowsel" and has_null_key: continue       # group-sorted output of non-reducing functions with null keys: C06's finding, not a mask matter
            accepted = kind_m in ACCEPTS_OP.get(op, ACCEPTS.get(fam, ALL_KINDS))
            calls += 1
            try:
                with contextlib.redirect_stdout(io.StringIO()):
                    if case["keyrep"] == "series" or (chunked and kind != "red"): g_, kk = _build_gb(k, case["keyrep"], case.get("blocks"), case["sort"], n, idx)
                    else:
                        if gb is None: gb = _build_gb(k, case["keyrep"], case.get("blocks"), case["sort"], n, idx)
                        g_, kk = gb
                    x = _X(kk, _vrep(v, idx, case.get("vblocks")), m, times, _rep(col, idx) if idx is not None else col, sub, idx)
                    if reuse:
                        m[:] = ~np.array(mask[1], dtype=bool)
                        try: fn(g_, x)
                        except Exception: pass
                        m[:] = np.array(mask[1], dtype=bool)
                    got = fn(g_, x)
            except Exception as ex:
                if not accepted: sess.evals["c05.kind_rejected"] += 1; continue      # the operation does not accept this mask kind and says so
                if isinstance(ref[op], _Raised): continue                              # the operation is not defined on the filtered data either
                try:                                                                   # does the operation work on this key representation WITHOUT a mask? if not, the failure is not about masks
                    with contextlib.redirect_stdout(io.StringIO()):
                        gb2, kk2 = _build_gb(k, case["keyrep"], case.get("blocks"), case["sort"], n, idx); fn(gb2, _X(kk2, _vrep(v, idx, case.get("vblocks")), None, times, _rep(col, idx) if idx is not None else col, sub, idx))
                except Exception:
                    sess.evals["c05.fails_without_mask_too"] += 1; continue
                sess.record("raises", fname, f"a mask of an accepted kind must not make the operation fail where the filtered data is fine: {type(ex).__name__}", str(ex)[:200]); continue
            r = ref[op]
            pre = "" if accepted else "unsupported mask kind must be rejected, not silently misread: "
            # ---- (1) reductions against the executable specification
            if kind == "red" and op in RED and not big:
                bad = _cmp_spec(op, _mapping(got), labs, vals, sel, vkind)
                if bad: sess.record("post", fname, pre + "reduction under a mask == specification over the selected rows (labels with a selected row; reduction of their non-null values)", {"mismatch": bad[:4]})
            if isinstance(r, _Raised): continue
            # ---- (2) relational clause
            try:
                if kind == "red":
                    bad = _cmp_maps(_mapping(got), _mapping(r))
                    if bad: sess.record("post", fname, pre + "op(keys, values, mask) == op(keys[sel], values[sel]): same labels and the same number per label", {"mismatch(label, masked, filtered)": bad[:4]})
                elif kind == "table":
                    bad = _cmp_maps(_table(got), _table(r))
                    if bad: sess.record("post", fname, pre + "table under a mask == table of the filtered rows (same non-empty cells)", {"mismatch(cell, masked, filtered)": bad[:4]})
                elif kind == "row":
                    g = list(got) if not hasattr(got, "iloc") else got; rr = r
                    if len(g) != n: sess.record("post", fname, pre + "row-aligned output has one entry per input row", {"len": len(g), "n": n}); continue
                    if big:
                        ga = np.asarray(g)[sela]; ra = np.asarray(rr)
                        ok = len(ga) == len(ra) and bool(np.all((ga == ra) | (np.isnan(ga) & np.isnan(ra)) | (np.abs(ga - ra) <= 1e-9 * np.maximum(1, np.abs(ra)))))
                        bad = [] if ok else [("some row", "", "")]
                    else:
                        bad = [(int(rw), str(_at(got, rw)), str(_at(rr, j))) for j, rw in enumerate(sel) if not _eq(_at(got, rw), _at(rr, j))]
                    if bad: sess.record("post", fname, pre + "value at every selected row == value the operation produces on the filtered data at the corresponding position", {"mismatch(row, masked, filtered)": bad[:4], "selected": [int(s) for s in sel][:12]})
                elif kind == "rowsel":
                    gm = _rowmap(got, idx); rm = _rowmap(r, None)
                    bad = [(int(sel[j]), str(gm.get(sel[j], "<row missing>")), str(val)) for j, val in rm.items() if sel[j] not in gm or not _eq(gm[sel[j]], val)]
                    if bad: sess.record("post", fname, pre + "value at every selected row == value the operation produces on the filtered data at the corresponding position", {"mismatch(row, masked, filtered)": bad[:4], "selected": [int(s) for s in sel][:12]})
                elif kind == "posmap":
                    bad = []
                    for l, g in got.items():
                        e = [int(sel[p]) if p >= 0 else -1 for p in r[l]] if l in r else [-1] * len(g)
                        if g != e: bad.append((str(l), g, e))
                    if bad: sess.record("post", fname, "row positions found under a mask == positions found in the filtered data mapped back through the selection (-1 for a label without a selected row)", {"mismatch(label, masked, expected)": bad[:4]})
            except Exception as ex:
                sess.record("post", fname, pre + f"result under a mask has the shape of the result on the filtered data (comparison failed: {type(ex).__name__})", str(ex)[:200])
    return calls


# ----------------------------------------------------------------------------- sharding by JIT class (work-around inside the module)
# _group_by_reduce / _cumulative_reduce / reduce_array_pair take the reducer as a first-class function: numba cannot reuse their on-disk cache, so every
# process re-compiles every (key dtype, value dtype, reducer, indexer) specialisation it meets (0.3-3 s each, ~150 s for all of them). The generic
# index % nprocs sharding makes all 16 processes compile everything; here a case goes to a process of its JIT class, round-robin inside the class.
_CLASS_WEIGHTS = (("Rf", 3), ("Rx", 3), ("Rc0", 3), ("Rc1", 1), ("Rc2", 2), ("Cu", 1), ("Ot", 3))


def _class(case):
    fam = case["fam"]
    if fam == "cum": return "Cu"
    if fam in ("roll", "ema", "grp", "kern"): return "Ot"
    if case["keyrep"] in ("pa", "thr") or "big" in case: return f"Rc{case.get('g') or 0}"
    return "Rf" if case["vkind"] == "float" else "Rx"


def class_ranks(nprocs, weights):
    tot = sum(w for _, w in weights)
    if nprocs < len(weights): return {c: list(range(nprocs)) for c, _ in weights}
    out = {}; lo = 0; acc = 0
    for i, (c, w) in enumerate(weights):
        acc += w; hi = nprocs if i == len(weights) - 1 else max(lo + 1, round(acc * nprocs / tot))
        hi = min(hi, nprocs - (len(weights) - 1 - i)); out[c] = list(range(lo, hi)); lo = hi
    return out


def sharded_worker(mod, classify, weights, rank, nprocs, tier, seed, budget):
    """generic_worker over the cases of this rank's JIT class (deterministic: every process enumerates the same stream and keeps its share)"""
    import types, random
    from rtc import core
    ranks = class_ranks(nprocs, weights)
    def mine(stream):
        cnt = collections.Counter()
        for case in stream:
            cl = classify(case); rs = ranks[cl]; i = cnt[cl]; cnt[cl] += 1
            if rs[i % len(rs)] == rank: yield case
    own = random.Random(seed * 1000003 + rank)
    def my_random(rnd, t):
        for _ in range(500):
            c = mod.random_case(own, t)
            if rank in ranks[classify(c)]: return c
        return c
    shim = types.SimpleNamespace(PROP=mod.PROP, install=mod.install, check_case=mod.check_case, nontrivial=mod.nontrivial, cases=lambda t, s: mine(mod.cases(t, s)),
                                 extra_cases=lambda t, s: list(mine(mod.extra_cases(t, s))), random_case=my_random)
    return core.generic_worker(shim, 0, 1, tier, seed, budget)


def worker(rank, nprocs, tier, seed, budget):
    import sys
    return sharded_worker(sys.modules[__name__], _class, _CLASS_WEIGHTS, rank, nprocs, tier, seed, budget)


# ----------------------------------------------------------------------------- sidecar contracts on the real functions
def install(sess):
    def pre_gbr(group_key, values, target, reduce_func, indexer=None, check_in_bounds=True):
        n = len(group_key)
        if len(values) != n: return f"len(values)={len(values)} != len(group_key)={n}"
        if n and int(np.max(group_key)) >= len(target): return "group key >= len(target)"
        if indexer is not None and len(indexer) and int(np.min(indexer)) < -n: return "position < -n (numba would read out of bounds)"
        if indexer is not None and not check_in_bounds and len(indexer) and int(np.max(indexer)) >= n: return "unchecked position >= n"
    sess.wrap("groupby_lib.groupby.numba", "_group_by_reduce", requires=pre_gbr)

    def post_resolve(out, self, mask):
        group_key, first, mask_chunks = out
        if not self.key_is_chunked: return None
        chunks = group_key.chunks
        if len(mask_chunks) < len(chunks): return f"{len(chunks)} key chunks but only {len(mask_chunks)} mask chunks"
        for c, mc in zip(chunks, mask_chunks):
            if mc is not None and len(mc) != len(c): return f"mask chunk of length {len(mc)} for a key chunk of length {len(c)}"
        if isinstance(mask, slice):
            lens = [len(c) for c in self._group_ikey.chunks]; off = np.concatenate([[0], np.cumsum(lens)]); n = int(off[-1]); rows = range(n)[mask]
            if sum(len(c) for c in chunks) != len(rows): return f"slice selects {len(rows)} rows, key chunks hold {sum(len(c) for c in chunks)}"
            for i, c in enumerate(chunks):
                if len(c) == 0: continue
                j = first + i
                if j >= len(lens): return f"non-empty key chunk {i} has no original chunk {j} (first_chunk_in={first})"
                want = [r for r in rows if off[j] <= r < off[j + 1]]
                orig = self._group_ikey.chunks[j].to_pylist()
                if c.to_pylist() != [orig[r - off[j]] for r in want]: return f"key chunk {i} is not the part of original chunk {j} inside the slice (first_chunk_in={first}): the pointer of chunk {j} would be applied to other rows"
        return None
    sess.wrap("groupby_lib.groupby.core", "GroupBy._resolve_mask_argument_into_chunks", ensures=post_resolve)


LEVEL_TEXT = "Modular: the kernels' postconditions are stated over the selected subsequence and proved (P tier, L-filter); the mask plumbing between the public methods and the kernels (boolean -> nonzero, slice -> views, positions -> boolean for chunked keys, per-chunk mask split, first chunk inside a slice, observed labels under a mask, mask[indexer] for group-sorted output) is pandas/pyarrow glue and is decided by a run-time relational contract taken from the property statement: the masked call equals the same call on the filtered inputs, for every selection of a bounded-exhaustive input space and every spelling of the selection (bounded, not proved). ROUND 3: the 'first chunk inside a slice' (_find_first_chunk_in_slice) and the per-global-code counts under a mask on chunked keys (count_ikey, which decides the observed labels) are deductive (P tier) - count_ikey under ASSUMED contracts of its two glue callees, listed in the evidence."
