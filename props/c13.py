"""C13 — a GroupBy object can be reused: results are history-independent.

B (bounded, the only tier): the class as a data structure against an abstract view.
   view(gb)        = (label of every row [chunk-local codes resolved through _group_key_pointers; None = null key], set of labels, sort flag)
   well_formed(gb) = representation fields tie together (codes contiguous ndarray or pyarrow ChunkedArray of ints; pointer tables only with chunked codes, one per chunk,
                     covering every local code and pointing into the labels; without pointer tables every code in [-1, ngroups); row count constant; `_index_is_sorted` only
                     with sorted labels) and every FILLED cache (ikey_count, key_count, _labels_argsort, _group_sort_indexer, groups, has_null_keys, _group_key_lengths,
                     _chunk_offsets, _group_first_sort_key) equals its recomputation from view(gb). Only `__dict__` is inspected: the checker never fills a cache itself.
   contract of EVERY operation of the alphabet, started from whatever state the earlier operations left:
       requires well_formed(old)      (= the ensures of the previous step / of the constructor)
       ensures  result == result of the same call on a freshly built GroupBy (values, index, labels, order; dtype as a separate clause; an exception counts as a result)
                view(new) == view(old)                                          [frame]
                well_formed(new)
   An operation started from a state that an EARLIER operation of the sequence already broke (view moved / invariant lost - reported at that operation) owes nothing: its result is not compared.
   History independence for sequences of any length follows from the per-operation contract by induction over the history; what is bounded is the set of inputs and the
   set of states each operation is started from: every operation after every history of <= 1 (quick) / <= 2 (thorough) operations of the history alphabet.
   Copy constructor: `copy:<op>` runs <op> on GroupBy(gb) and must equal <op> on a fresh object; `rebind` continues the sequence on GroupBy(gb).
   Class-level form: `cls:<op>` = GroupBy.<op>(raw keys, ...) must equal GroupBy(raw keys).<op>(...).
Sidecar contracts on the real functions: GroupBy._unify_group_key_chunks (the re-layout keeps every row's logical group, drops the pointer tables, honours keep_chunked),
GroupBy.__init__ (well_formed), GroupBy._build_group_sorted_indexer_numba (kernel precondition: the group counts add up to the rows it will place).
"""
import io, json, contextlib, itertools
import numpy as np, pandas as pd
from . import common as C

PROP = "C13"; LEVEL = "exploration"; P_TIER = True
ASSUMPTIONS = ["the reference of every comparison is the same call on a GroupBy freshly built from the same keys in the same way (same container, same chunking threshold)",
               "floating results compared with relative tolerance 1e-12 (the driven values are dyadic rationals, so sums are exact in every evaluation order)",
               "exceptions are compared by type", "pandas / pyarrow / polars comparison helpers behave as documented",
               "BOUNDED: everything here is checked only within the stated scope"]
REQUIRED_CONTRACTS = {"core.GroupBy._unify_group_key_chunks": 1, "core.GroupBy.__init__": 1, "core.GroupBy._build_group_sorted_indexer_numba": 1}
EXPLANATION = ("Bounded only (object state is pandas/pyarrow). Per-operation contract (result == fresh result, abstract view unchanged, class invariant kept) evaluated on the real class for every operation of a "
               "62-operation alphabet started from every state reachable by <= 1 (quick) / <= 2 (thorough) earlier operations of a history alphabet, on a designed set of key arrays covering the representation modes "
               "{contiguous; chunked with pointer tables; chunked unified in place; concatenated}, null placement and first-appearance orders; copy constructor and class-level call forms as operations.")
BUDGET = {"quick": 90, "thorough": 500}
EXHAUSTIVE_WHEN_COMPLETE = False          # the key arrays are a designed set, not a complete small scope
CATS = ["c", "a", "b", "unused"]
CACHES = ("ikey_count", "key_count", "_labels_argsort", "_group_sort_indexer", "groups", "has_null_keys", "_group_key_lengths", "_chunk_offsets", "_group_first_sort_key")

# ----------------------------------------------------------------------------- designed key arrays (<= 6 rows)
# kind: np float contiguous | str | cat | two | pds (pandas Series key with a non-default index) | pa / pai (pyarrow ChunkedArray float / int) | thr / thri (numpy float / int with the chunking threshold lowered to 1)
KEYSPECS = [
    {"kind": "np", "keys": [2, 1, 2, None, 1, 3], "sort": True},
    {"kind": "np", "keys": [2, 1, 2, None, 1, 3], "sort": False},
    {"kind": "np", "keys": [None, 0, 0, 1], "sort": True},
    {"kind": "np", "keys": [1, 0], "sort": True},
    {"kind": "str", "keys": [1, 0, None, 1, 2, 0], "sort": True},
    {"kind": "cat", "keys": [1, None, 0, 1], "sort": True},
    {"kind": "two", "keys": [3, 0, None, 1, 0, 2], "sort": True},
    {"kind": "two", "keys": [3, 0, None, 1, 0, 2], "sort": False},
    {"kind": "pds", "keys": [2, 1, 2, None, 1, 3], "sort": True},
    {"kind": "pa", "keys": [2, 1, 2, None, 1, 3], "splits": [3, 3], "sort": True},          # null first in its chunk
    {"kind": "pa", "keys": [2, 1, 2, None, 1, 3], "splits": [3, 3], "sort": False},
    {"kind": "pa", "keys": [2, 1, 2, None, 1, 3], "splits": [2, 2, 2], "sort": True},        # null last in its chunk
    {"kind": "pa", "keys": [2, 1, 2, 1, 3, None], "splits": [3, 3], "sort": True},           # null in the last row
    {"kind": "pa", "keys": [2, 1, None, None, 3, 3], "splits": [2, 2, 2], "sort": True},     # a chunk of nulls only (empty pointer table)
    {"kind": "pa", "keys": [3, 2, 1, 0, 0, 1], "splits": [4, 2], "sort": True},              # no null; labels appear in descending order
    {"kind": "pa", "keys": [3, 2, 1, 0, 0, 1], "splits": [4, 2], "sort": False},
    {"kind": "pa", "keys": [1, 0, 1, 0, 1, 0], "splits": [5, 1], "sort": True},              # one-row chunk
    {"kind": "pa", "keys": [1, 2, 0, 2, 1], "splits": [2, 3], "sort": True},                 # sorted prefix kept as its own piece (uint32 codes)
    {"kind": "pai", "keys": [2, 0, 2, 1, 0], "splits": [3, 2], "sort": True},
    {"kind": "thr", "keys": [2, 1, 2, None, 1, 3], "sort": True},
    {"kind": "thr", "keys": [2, 1, 2, None, 1, 3], "sort": False},
    {"kind": "thr", "keys": [2, 1, None, None, 1, 2], "sort": True},
    {"kind": "thr", "keys": [1, 2, 3, 1, 2, 0], "sort": True},                               # sorted prefix piece + an empty chunk
    {"kind": "thr", "keys": [1, 1, 2, 3, 3, 4], "sort": True},                               # fully sorted: contiguous uint32 codes
    {"kind": "thr", "keys": [1, 0], "sort": True},                                           # more chunks than rows
    {"kind": "thri", "keys": [2, 0, 2, 1, 0, 0], "sort": True},
]
QUICK_KEYS = list(range(len(KEYSPECS)))


def _demean(a):
    return a - a.mean()


class Ctx:
    """keys object + the position-tagged values / masks every operation uses, all derived from the key spec"""
    def __init__(self, spec):
        self.spec = spec; ks = spec["keys"]; n = self.n = len(ks); kind = spec["kind"]
        self.index = pd.Index([(i * 7 + 3) % 4 + (10 if i % 3 == 0 else 0) for i in range(n)], name="row")
        self.v, _ = C.make_values("float", n, [i == 2 for i in range(n)])
        self.w = pd.Series(np.array([int(((i * 5) % 7) - 3 + 10 * (i % 2)) for i in range(n)], dtype=np.int64), index=self.index, name="w")
        self._m = np.array([i % 3 != 1 for i in range(n)]); self.s = slice(1, None); self.p = np.array([n - 1, 0], dtype=np.int64)
        self.t = np.arange(n, dtype=np.float64)

    # ONE boolean buffer serves every masked call of a history (callers do reuse a mask array): `m` refills it with the usual selection, `malt` with another one - in place,
    # same object - so that anything the grouping object remembered about the buffer's earlier content would show in the next call
    @property
    def m(self):
        self._m[:] = [i % 3 != 1 for i in range(self.n)]; return self._m
    @property
    def malt(self):
        self._m[:] = [i % 3 == 1 or i == 0 for i in range(self.n)]; return self._m

    def keys(self):
        import pyarrow as pa
        kind, ks = self.spec["kind"], self.spec["keys"]
        if kind in ("np", "thr", "pa", "pds"): a = np.array([np.nan if x is None else float(x) for x in ks])
        if kind in ("pai", "thri"): a = np.array([int(x) + 5 for x in ks], dtype=np.int64)
        if kind in ("np", "thr", "thri"): return a
        if kind == "pds": return pd.Series(a, index=self.index, name="k")
        if kind in ("pa", "pai"):
            b = np.cumsum([0] + list(self.spec["splits"])); return pa.chunked_array([a[b[i]:b[i + 1]] for i in range(len(b) - 1)])
        if kind == "str": return np.array([None if x is None else "abcd"[x] for x in ks], dtype=object)
        if kind == "cat": return pd.Categorical([None if x is None else "abc"[x] for x in ks], categories=CATS)
        if kind == "two": return [np.array([np.nan if x is None else float(x // 2) for x in ks]), np.array(["ev" if (x or 0) % 2 == 0 else "od" for x in ks], dtype=object)]
        raise ValueError(kind)

    def build(self):
        from groupby_lib.groupby import GroupBy
        return GroupBy(self.keys(), sort=self.spec["sort"])


# ----------------------------------------------------------------------------- the operation alphabet
# name -> (public method or attribute, args(X), kwargs(X));  method None = attribute / special
M = {
    "sum":      ("sum", lambda X: (X.v,), lambda X: {}),
    "sum_m":    ("sum", lambda X: (X.v,), lambda X: {"mask": X.m}),
    "sum_malt": ("sum", lambda X: (X.v,), lambda X: {"mask": X.malt}),
    "sum_s":    ("sum", lambda X: (X.w,), lambda X: {"mask": X.s}),
    "sum_p":    ("sum", lambda X: (X.v,), lambda X: {"mask": X.p}),
    "min_w":    ("min", lambda X: (X.w,), lambda X: {}),
    "first_m":  ("first", lambda X: (X.v,), lambda X: {"mask": X.m}),
    "mean":     ("mean", lambda X: (X.v,), lambda X: {}),
    "count":    ("count", lambda X: (X.v,), lambda X: {}),
    "var":      ("var", lambda X: (X.v,), lambda X: {}),
    "size":     ("size", lambda X: (), lambda X: {}),
    "size_m":   ("size", lambda X: (), lambda X: {"mask": X.m}),
    "agg":      ("agg", lambda X: (X.v, ["sum", "max"]), lambda X: {}),
    "sum_cols": ("sum", lambda X: ({"a": X.v, "b": X.w.to_numpy()},), lambda X: {}),
    "median":   ("median", lambda X: (X.w,), lambda X: {}),
    "sum_t":    ("sum", lambda X: (X.w,), lambda X: {"transform": True}),
    "min_tm":   ("min", lambda X: (X.v,), lambda X: {"mask": X.m, "transform": True}),
    "size_t":   ("size", lambda X: (), lambda X: {"transform": True}),
    "median_t": ("median", lambda X: (X.w,), lambda X: {"transform": True}),
    "head_k":   ("head", lambda X: (X.v, 1), lambda X: {"keep_input_index": True}),
    "tail_k":   ("tail", lambda X: (X.w, 2), lambda X: {"keep_input_index": True}),
    "nth_neg":  ("nth", lambda X: (X.w, -1), lambda X: {"keep_input_index": True}),
    "head":     ("head", lambda X: (X.v, 2), lambda X: {}),
    "cumsum":   ("cumsum", lambda X: (X.v,), lambda X: {}),
    "cumsum_m": ("cumsum", lambda X: (X.v,), lambda X: {"mask": X.m}),
    "cummax_w": ("cummax", lambda X: (X.w,), lambda X: {}),
    "cumcount": ("cumcount", lambda X: (), lambda X: {}),
    "rsum":     ("rolling_sum", lambda X: (X.v,), lambda X: {"window": 2, "min_periods": 1}),
    "shift":    ("shift", lambda X: (X.v,), lambda X: {}),
    "diff":     ("diff", lambda X: (X.w,), lambda X: {}),
    "apply":    ("apply", lambda X: (X.w, np.max), lambda X: {}),
    "apply_m":  ("apply", lambda X: (X.w, np.max), lambda X: {"mask": X.m}),
    "apply_t":  ("apply", lambda X: (X.w, np.max), lambda X: {"transform": True}),
    "apply_vec": ("apply", lambda X: (X.w, _demean), lambda X: {}),
    "ema":      ("ema", lambda X: (X.v,), lambda X: {"alpha": 0.5}),
    "ema_g":    ("ema", lambda X: (X.v,), lambda X: {"alpha": 0.5, "index_by_groups": True}),
    "nearby":   ("group_nearby_members", lambda X: (X.t, 1.5), lambda X: {}),
    # only ever the LAST operation of a sequence (they add nothing as history that the ones above do not)
    "last":     ("last", lambda X: (X.v,), lambda X: {}),
    "max_m":    ("max", lambda X: (X.w,), lambda X: {"mask": X.m}),
    "std":      ("std", lambda X: (X.v,), lambda X: {}),
    "size_s":   ("size", lambda X: (), lambda X: {"mask": X.s}),
    "quantile": ("quantile", lambda X: (X.w, [0.5]), lambda X: {}),
    "nth_k":    ("nth", lambda X: (X.v, 1), lambda X: {"keep_input_index": True}),
    "cummin":   ("cummin", lambda X: (X.v,), lambda X: {}),
    "cumcount_m": ("cumcount", lambda X: (), lambda X: {"mask": X.m}),
    "rmean":    ("rolling_mean", lambda X: (X.v,), lambda X: {"window": 2, "min_periods": 1}),
    "rmax":     ("rolling_max", lambda X: (X.v,), lambda X: {"window": 2, "min_periods": 1}),
    "rsum_g":   ("rolling_sum", lambda X: (X.v,), lambda X: {"window": 2, "min_periods": 1, "index_by_groups": True}),
    "ema_m":    ("ema", lambda X: (X.v,), lambda X: {"alpha": 0.5, "mask": X.m}),
    "ratio":    ("ratio", lambda X: (X.w, X.w + 1), lambda X: {}),
    "density":  ("density", lambda X: (), lambda X: {}),
}
ATTR = {"groups": "groups", "gsi": "_group_sort_indexer", "key_count": "key_count", "ikey_count": "ikey_count", "hnk": "has_null_keys", "info": None}
COPIES = ["copy:sum", "copy:head_k", "copy:groups", "copy:cumsum", "copy:sum_t", "rebind"]
# the HISTORY alphabet: what may come before the last operation. One or more representatives of every way an operation touches the object (re-layout to contiguous codes: transform,
# row selection, cumulative; in-place unification + indexer/count caches: groups, _group_sort_indexer, apply, median, ema(index_by_groups); count caches: key_count, masked reductions;
# label-order cache: every reduction; null-flag cache; lengths cache; copies) - operations that only differ in the value they compute are kept for the LAST position
FIRST = ["sum", "sum_m", "sum_malt", "sum_s", "sum_p", "size_m", "median", "sum_t", "min_tm", "median_t", "head_k", "cumsum", "cumsum_m", "apply", "apply_m", "apply_t", "ema", "ema_g", "nearby",
         "groups", "gsi", "key_count", "hnk", "info", "copy:sum", "copy:head_k", "copy:groups", "copy:sum_t", "rebind"]
LAST = list(M) + list(ATTR) + COPIES                                                      # every operation (62)
MUT = ["sum_t", "groups", "head_k", "key_count", "apply", "sum_m", "hnk", "rebind", "ema_g", "copy:sum_t"]      # one representative per kind of state change, for the 3-step sequences
CLS = [o for o in M]                                                                       # class-level call forms (every method operation)
SCOPE = {"quick": f"{len(KEYSPECS)} designed key arrays of <= 6 rows (contiguous float / str / categorical / two-key / pandas-indexed; pyarrow ChunkedArray keys in 10 chunkings incl. null first / last in its chunk, null in the last row, "
                  f"all-null chunk, one-row chunk, sorted-prefix piece, int keys; numpy keys with THRESHOLD_FOR_CHUNKED_FACTORIZE=1 incl. empty chunks, the fully sorted case and more chunks than rows; sort on/off) x "
                  f"[every single operation of {len(LAST)} (reductions with none / boolean / slice / positional masks, agg, dict of columns, transform=True, median, quantile, groups, _group_sort_indexer, key_count, ikey_count, has_null_keys, "
                  f"len/ngroups/result_index, head/tail/nth, cumsum/cummax/cummin/cumcount, rolling_sum/mean/max, shift, diff, apply (scalar, masked, transform, vector), ema (plain, masked, index_by_groups), group_nearby_members, ratio, density, "
                  f"5 copy-constructor forms GroupBy(gb).<op>, rebind gb = GroupBy(gb)) + every class-level form GroupBy.<op>(raw keys, ...) of the {len(CLS)} method operations "
                  f"+ every sequence of 2 operations: first from the {len(FIRST)}-operation history alphabet ({', '.join(FIRST)}), second any of the {len(LAST)}]; every operation of a sequence is checked. "
                  "The sequences are walked in a fixed pseudo-random order (state-changing first operations get more turns) and CUT BY THE TIME BUDGET when the machine is slow; plus seeded random sequences of 3..6 operations on random keys of 3..8 rows",
         "thorough": f"as quick + every sequence of 3 operations whose first two are taken from the {len(MUT)} state-changing representatives ({', '.join(MUT)}) and whose last is any of the {len(LAST)} operations"}
RULE = "a case = (key array spec, operation sequence); every operation of the sequence is checked; distinct = distinct canonical JSON; non-trivial = at least 2 operations, or a chunked representation, or a copy / class-level form"


def cases(tier, seed):
    from .c07 import permuted
    sorted_specs = [k for k in KEYSPECS if k["sort"]]
    def seqs(*alphabets, keys=KEYSPECS, prefix=""):
        for pick in permuted(list(alphabets) + [keys], seed): yield {"key": pick[-1], "ops": [prefix + o if i == len(pick) - 2 else o for i, o in enumerate(pick[:-1])]}
    rest = [o for o in FIRST if o not in MUT]
    streams = [seqs(LAST), seqs(CLS, keys=sorted_specs, prefix="cls:"), seqs(MUT, LAST), seqs(rest, LAST)]; weights = [2, 1, 4, 3]
    if tier == "thorough": streams.append(seqs(MUT, MUT, LAST)); weights.append(8)
    return C.roundrobin(*streams, weights=weights)


def random_case(rnd, tier):
    n = rnd.randint(3, 8); kind = rnd.choice(["np", "pa", "thr", "pa", "thr", "two", "str", "pai"])
    keys = [rnd.choice([None, 0, 1, 2, 3]) for _ in range(n)]
    if kind in ("pai", "thri"): keys = [k or 0 for k in keys]
    spec = {"kind": kind, "keys": keys, "sort": rnd.random() < 0.7}
    if kind in ("pa", "pai"):
        cuts = sorted(rnd.sample(range(1, n), rnd.randint(1, min(3, n - 1)))); b = [0] + cuts + [n]; spec["splits"] = [b[i + 1] - b[i] for i in range(len(b) - 1)]
    return {"key": spec, "ops": [rnd.choice(FIRST) for _ in range(rnd.randint(2, 5))] + [rnd.choice(LAST)]}


def nontrivial(case):
    return len(case["ops"]) >= 2 or case["key"]["kind"] in ("pa", "pai", "thr", "thri") or any(":" in o for o in case["ops"])


# ----------------------------------------------------------------------------- abstract view and class invariant (never touch a cached_property that is not filled)
def _chunks(gb):
    """-> (list of int64 arrays of RAW codes, is_chunked)"""
    import pyarrow as pa
    ik = gb._group_ikey
    if isinstance(ik, pa.ChunkedArray): return [np.asarray(c.to_numpy(zero_copy_only=False)).astype(np.int64) for c in ik.chunks], True
    return [np.asarray(ik).astype(np.int64)], False


def logical_codes(gb):
    """code into the label list for every row, chunk-local codes resolved through the pointer tables; -1 = null key, -2 = unresolvable"""
    chunks, chunked = _chunks(gb); ptr = gb._group_key_pointers
    if ptr is None: return np.concatenate(chunks) if chunks else np.empty(0, np.int64)
    out = []
    for i, c in enumerate(chunks):
        r = np.full(len(c), -1, dtype=np.int64)
        if i >= len(ptr): r[:] = -2
        else:
            p = np.asarray(ptr[i]); ok = c >= 0; bad = ok & (c >= len(p)); ok &= ~bad
            r[ok] = p[c[ok]]; r[bad] = -2
        out.append(r)
    return np.concatenate(out) if out else np.empty(0, np.int64)


def _label_list(gb):
    return [tuple(x) if isinstance(x, tuple) else x for x in gb._result_index.tolist()]


def view(gb):
    labels = _label_list(gb); codes = logical_codes(gb)
    rows = [str(labels[c]) if 0 <= c < len(labels) else (None if c == -1 else f"<code {c}>") for c in codes.tolist()]      # str: a NaN label must compare equal to itself
    return {"rows": rows, "labels": sorted(map(str, labels)), "sort": bool(gb._sort)}


def rep_mode(gb, was_chunked):
    import pyarrow as pa
    if isinstance(gb._group_ikey, pa.ChunkedArray): return "chunked with pointer tables" if gb._group_key_pointers is not None else "chunked, unified in place"
    return "concatenated" if was_chunked else "contiguous"


def well_formed(gb, n0=None):
    """-> list of (clause id, detail) that do NOT hold"""
    import pyarrow as pa
    bad = []; d = gb.__dict__
    try:
        ik = gb._group_ikey; ptr = gb._group_key_pointers; ng = len(gb._result_index)
        chunked = isinstance(ik, pa.ChunkedArray)
        if not chunked and not (isinstance(ik, np.ndarray) and ik.ndim == 1 and ik.dtype.kind in "iu"): bad.append(("codes are a 1-D integer ndarray or a pyarrow ChunkedArray", str(type(ik))))
        chunks, _ = _chunks(gb)
        if ptr is not None:
            if not chunked: bad.append(("pointer tables only with chunked codes", "pointers present, codes contiguous"))
            elif len(ptr) != len(chunks): bad.append(("one pointer table per chunk", f"{len(ptr)} tables, {len(chunks)} chunks"))
            else:
                for c, p in zip(chunks, ptr):
                    p = np.asarray(p)
                    if len(c) and (c.min() < -1 or c.max() >= len(p)): bad.append(("every chunk-local code is -1 or indexes its pointer table", f"codes {c.tolist()} table {p.tolist()}")); break
                    if len(p) and (p.min() < 0 or p.max() >= ng): bad.append(("pointer tables point into the label list", f"table {p.tolist()} ngroups {ng}")); break
        else:
            for c in chunks:
                if len(c) and (c.min() < -1 or c.max() >= ng): bad.append(("without pointer tables every code is in [-1, ngroups)", f"codes {c.tolist()} ngroups {ng}")); break
        n = sum(len(c) for c in chunks)
        if n0 is not None and n != n0: bad.append(("the number of rows is constant", f"{n} != {n0}"))
        if gb._index_is_sorted and not gb._result_index.is_monotonic_increasing: bad.append(("_index_is_sorted only with sorted labels", str(_label_list(gb))))
        codes = logical_codes(gb); labels = _label_list(gb)
        counts = np.bincount(codes[codes >= 0], minlength=ng) if ng else np.zeros(0, np.int64)
        # ---- filled caches
        if "ikey_count" in d and not (len(d["ikey_count"]) == ng and np.array_equal(np.asarray(d["ikey_count"]), counts)):
            bad.append(("cached ikey_count == rows per label of view(gb)", f"cached {np.asarray(d['ikey_count']).tolist()} recomputed {counts.tolist()}"))
        if "key_count" in d:
            kc = d["key_count"]
            if not (np.array_equal(kc.to_numpy(), counts) and _label_list_of(kc.index) == labels): bad.append(("cached key_count == rows per label of view(gb)", f"cached {kc.to_dict()} recomputed {dict(zip(map(str, labels), counts.tolist()))}"))
        if "has_null_keys" in d and bool(d["has_null_keys"]) != bool((codes == -1).any()): bad.append(("cached has_null_keys == (some row of view(gb) has no label)", f"cached {d['has_null_keys']} rows {codes.tolist()}"))
        if "_group_key_lengths" in d:
            gl = list(d["_group_key_lengths"])
            if sum(gl) != n or (chunked and gl != [len(c) for c in chunks]): bad.append(("cached _group_key_lengths == lengths of the code chunks (sum == number of rows)", f"cached {gl} chunks {[len(c) for c in chunks]}"))
            if "_chunk_offsets" in d and list(np.asarray(d["_chunk_offsets"])) != list(np.cumsum(gl[:-1])): bad.append(("cached _chunk_offsets == cumulated chunk lengths", str(d["_chunk_offsets"])))
        order = None
        if "_labels_argsort" in d:
            la = d["_labels_argsort"]
            if isinstance(la, slice): order = list(range(ng)) if la == slice(None) else None
            else:
                order = np.asarray(la).tolist()
                if sorted(order) != list(range(ng)): bad.append(("cached _labels_argsort is a permutation of the labels", str(order))); order = None
            if order is None and isinstance(la, slice): bad.append(("cached _labels_argsort is slice(None) or a permutation", str(la)))
        if order is not None:
            by_label = [np.flatnonzero(codes == g) for g in order]
            if "_group_sort_indexer" in d:
                exp = np.concatenate(by_label) if by_label else np.empty(0, np.int64)
                if not np.array_equal(np.asarray(d["_group_sort_indexer"]), exp): bad.append(("cached _group_sort_indexer == rows of view(gb) with a label, stably sorted by output label order", f"cached {np.asarray(d['_group_sort_indexer']).tolist()} recomputed {exp.tolist()}"))
            if "groups" in d:
                exp = {str(labels[g]): rows.tolist() for g, rows in zip(order, by_label) if len(rows)}
                got = {str(tuple(k) if isinstance(k, tuple) else k): np.asarray(v).tolist() for k, v in d["groups"].items()}
                if list(got.items()) != list(exp.items()): bad.append(("cached groups == {label: rows of view(gb) with that label}", f"cached {got} recomputed {exp}"))
            if "_group_first_sort_key" in d:
                exp = np.concatenate([r for r in by_label if len(r)]) if any(len(r) for r in by_label) else np.empty(0, np.int64)
                if not np.array_equal(np.asarray(d["_group_first_sort_key"]), exp): bad.append(("cached _group_first_sort_key == rows sorted by group", str(d["_group_first_sort_key"])))
    except Exception as ex:
        bad.append(("well_formed(gb) could be evaluated", f"{type(ex).__name__}: {ex}"[:200]))
    return bad


def _label_list_of(index):
    return [tuple(x) if isinstance(x, tuple) else x for x in index.tolist()]


# ----------------------------------------------------------------------------- running operations and comparing results
def run_op(op, gb, X):
    """-> (outcome, gb to continue with). outcome = ("ok", result) | ("exc", exception type name)"""
    from groupby_lib.groupby import GroupBy
    nxt = gb
    try:
        with contextlib.redirect_stdout(io.StringIO()):
            if op == "rebind":
                nxt = GroupBy(gb); return ("ok", None), nxt
            form, _, name = op.rpartition(":")
            if form == "copy": target = GroupBy(gb)
            elif form == "cls": target = None
            else: target = gb
            if name in ATTR:
                if name == "info": return ("ok", (len(target), target.ngroups, [str(x) for x in target.result_index.tolist()], [str(x) for x in target.result_index.names])), nxt
                return ("ok", getattr(target, ATTR[name])), nxt
            meth, fa, fk = M[name]
            if form == "cls":
                # the class-level form with the caller's OWN key array: callers keep one key buffer and update it in place between calls, so the call is made twice on
                # the same array object - first holding other keys (result ignored), then refilled in place with these keys: nothing may be remembered per key OBJECT
                k = X.keys()
                if isinstance(k, np.ndarray) and k.dtype.kind in "fi" and len(k) >= 2:
                    want = k.copy(); k[:] = want[::-1]
                    try: getattr(GroupBy, meth)(k, *fa(X), **fk(X))
                    except Exception: pass
                    k[:] = want
                return ("ok", getattr(GroupBy, meth)(k, *fa(X), **fk(X))), nxt
            return ("ok", getattr(target, meth)(*fa(X), **fk(X))), nxt
    except Exception as ex:
        return ("exc", type(ex).__name__, str(ex)[:120]), nxt


def _arr_eq(a, b):
    a = np.asarray(a); b = np.asarray(b)
    if a.shape != b.shape: return False
    if a.dtype.kind in "fc" or b.dtype.kind in "fc":
        try: return bool(np.allclose(a.astype(float), b.astype(float), rtol=1e-12, atol=0, equal_nan=True))
        except Exception: return False
    if a.dtype.kind in "mM" or b.dtype.kind in "mM":
        if a.dtype.kind != b.dtype.kind: return False
        return bool(np.array_equal(a.astype("int64"), b.astype("int64")))          # same unit is part of the dtype clause
    if a.dtype == object or b.dtype == object:
        return len(a) == len(b) and all((C.is_null(x) and C.is_null(y)) or x == y for x, y in zip(a.tolist(), b.tolist()))
    return bool(np.array_equal(a, b))


def _index_eq(a, b):
    if a.nlevels != b.nlevels or len(a) != len(b): return False
    if list(a.names) != list(b.names): return False
    return _label_list_of(a) == _label_list_of(b) or bool(a.equals(b))


def compare(a, b):
    """-> (same values/labels/order, same dtypes)"""
    import polars as pl
    if isinstance(a, (bool, np.bool_)) and isinstance(b, (bool, np.bool_)): return bool(a) == bool(b), True
    if isinstance(a, pd.Series) and isinstance(b, pd.Series):
        return _index_eq(a.index, b.index) and a.name == b.name and _arr_eq(a.to_numpy(), b.to_numpy()), a.dtype == b.dtype and a.index.dtype == b.index.dtype
    if isinstance(a, pd.DataFrame) and isinstance(b, pd.DataFrame):
        if not (_index_eq(a.index, b.index) and list(a.columns) == list(b.columns)): return False, True
        return all(_arr_eq(a[c].to_numpy(), b[c].to_numpy()) for c in a.columns), list(a.dtypes) == list(b.dtypes) and a.index.dtype == b.index.dtype
    if isinstance(a, (pl.Series, pl.DataFrame)) and type(a) is type(b): return bool(a.equals(b)), True
    if isinstance(a, np.ndarray) and isinstance(b, np.ndarray): return _arr_eq(a, b), a.dtype == b.dtype
    if isinstance(a, dict) and isinstance(b, dict):
        if [str(k) for k in a] != [str(k) for k in b]: return False, True
        return all(_arr_eq(x, y) for x, y in zip(a.values(), b.values())), all(np.asarray(x).dtype == np.asarray(y).dtype for x, y in zip(a.values(), b.values()))
    if type(a) is not type(b): return False, True
    if isinstance(a, (tuple, list)):
        if len(a) != len(b): return False, True
        rs = [compare(x, y) for x, y in zip(a, b)]; return all(r[0] for r in rs), all(r[1] for r in rs)
    try: return bool(a == b), True
    except Exception: return False, True


def same_outcome(got, ref):
    if got[0] != ref[0]: return False, True
    if got[0] == "exc": return got[1] == ref[1], True
    return compare(got[1], ref[1])


def _show(o):
    if o[0] == "exc": return f"raises {o[1]}: {o[2]}"
    r = o[1]
    try:
        if isinstance(r, pd.Series): return f"Series({dict(zip(map(str, r.index.tolist()), r.tolist()))}, dtype={r.dtype})"[:400]
        if isinstance(r, pd.DataFrame): return f"DataFrame({r.to_dict('list')}, index={r.index.tolist()})"[:400]
        if isinstance(r, dict): return str({str(k): np.asarray(v).tolist() for k, v in r.items()})[:400]
        if isinstance(r, np.ndarray): return f"{r.tolist()} {r.dtype}"[:400]
    except Exception: pass
    return str(r)[:400]


_FRESH = {}
def fresh(spec, op, X):
    """the same call on a freshly built GroupBy (memoised per process: it depends on (spec, op) only)"""
    name = op.rpartition(":")[2]
    key = (json.dumps(spec, sort_keys=True), name)
    if key not in _FRESH:
        if len(_FRESH) > 6000: _FRESH.clear()
        try:
            with contextlib.redirect_stdout(io.StringIO()): g = X.build()
            _FRESH[key] = run_op(name, g, X)[0]
        except Exception as ex:
            _FRESH[key] = ("exc", "construction:" + type(ex).__name__, str(ex)[:120])
    return _FRESH[key]


def _fn(op):
    name = op.rpartition(":")[2]; form = op.rpartition(":")[0]
    if op == "rebind": return "GroupBy.__init__(GroupBy)"
    target = ("GroupBy." + (M[name][0] if name in M else (ATTR[name] or "result_index")))
    return target + (" via GroupBy(gb)" if form == "copy" else " in class-level form" if form == "cls" else "")


def check_case(sess, case):
    from .c07 import lowered_threshold
    spec = case["key"]; X = Ctx(spec); calls = 0
    with lowered_threshold(spec["kind"] in ("thr", "thri")):
        try:
            with contextlib.redirect_stdout(io.StringIO()): gb = X.build()
        except Exception:
            return 0                                    # keys the library cannot group at all (loud): no object whose history could matter
        import pyarrow as pa
        was_chunked = isinstance(gb._group_ikey, pa.ChunkedArray); n0 = X.n
        view0 = view(gb); bad0 = well_formed(gb, n0)
        for cid, det in bad0: sess.record("post", "GroupBy.__init__", "well_formed(gb) after construction: " + cid, det, dict(case, ops=[]))
        before = {cid for cid, _ in bad0}
        for i, op in enumerate(case["ops"]):
            sess.current_case = dict(case, ops=case["ops"][:i + 1])
            mode = rep_mode(gb, was_chunked); filled = sorted(k for k in gb.__dict__ if k in CACHES)
            old = view(gb); fn = _fn(op); calls += 1
            got, nxt = run_op(op, gb, X)
            where = {"started from": mode, "filled caches": filled, "history": case["ops"][:i]}
            # requires well_formed(old) and view(old) == view of the keys: an operation started from a state an EARLIER operation already broke (reported there) owes nothing
            if op != "rebind" and not before and old == view0:
                ref = fresh(spec, op, X)
                ok, dt = same_outcome(got, ref)
                if not ok: sess.record("post", fn, "result == result of the same call on a freshly built GroupBy (values, labels, index, order; exceptions by type)", dict(where, got=_show(got), fresh=_show(ref)))
                elif not dt: sess.record("post", fn, "result dtype == dtype of the same call on a freshly built GroupBy", dict(where, got=_show(got), fresh=_show(ref)))
            after = set()
            for g_, who in (((gb, ""), (nxt, " (the copy)")) if nxt is not gb else ((gb, ""),)):
                new = view(g_); moved = new != old
                if moved: sess.record("frame", fn, "view(gb) = (label of every row, label set, sort flag) is unchanged by the call" + who, dict(where, before=str(old["rows"]), after=str(new["rows"]), labels_before=str(old["labels"]), labels_after=str(new["labels"])))
                for cid, det in well_formed(g_, n0):
                    if g_ is nxt: after.add(cid)
                    if cid not in before and not (moved and cid.startswith("cached ")):      # a cache that disagrees with a view this very call moved is the frame violation again
                        sess.record("post", fn, "well_formed(gb) after the call: " + cid + who, dict(where, detail=det))
            gb = nxt; before = after
    return calls


# ----------------------------------------------------------------------------- sidecar contracts
def wrap_unify(sess):
    import pyarrow as pa
    name = "core.GroupBy._unify_group_key_chunks"
    def snap(self, keep_chunked=False):
        return dict(view(self), chunked=isinstance(self._group_ikey, pa.ChunkedArray), pointers=self._group_key_pointers is not None)
    def post(out, old, self, keep_chunked=False):
        if old is None: return "view(gb) could be taken before the call"
        new = view(self); st = {"keep_chunked": keep_chunked, "chunked before": old["chunked"], "pointer tables before": old["pointers"]}
        if new["rows"] != old["rows"]: sess.record("post", name, "the re-layout keeps the logical group of every row (a null key stays null)", dict(st, before=str(old["rows"]), after=str(new["rows"])))
        if self._group_key_pointers is not None: sess.record("post", name, "the pointer tables are dropped by the re-layout", st)
        chunked = isinstance(self._group_ikey, pa.ChunkedArray)
        if keep_chunked and not chunked and old["chunked"]: sess.record("post", name, "keep_chunked=True keeps the codes chunked", st)
        if not keep_chunked and chunked: sess.record("post", name, "keep_chunked=False leaves contiguous codes", st)
    sess.wrap("groupby_lib.groupby.core", "GroupBy._unify_group_key_chunks", snapshot=snap, ensures=post)


def install(sess):
    from groupby_lib.groupby.core import GroupBy
    wrap_unify(sess)
    def snap_init(self, group_keys=None, *a, **k):
        return {cid for cid, _ in well_formed(group_keys)} if isinstance(group_keys, GroupBy) else set()
    def post_init(out, old, self, group_keys=None, *a, **k):
        for cid, det in well_formed(self):
            if cid not in (old or ()): sess.record("post", "core.GroupBy.__init__", "well_formed(gb) after construction: " + cid, det)
        if isinstance(group_keys, GroupBy) and view(self) != view(group_keys): sess.record("post", "core.GroupBy.__init__", "GroupBy(gb) has the view of gb", {"copy": str(view(self)), "original": str(view(group_keys))})
    sess.wrap("groupby_lib.groupby.core", "GroupBy.__init__", snapshot=snap_init, ensures=post_init)
    def pre_indexer(group_key_list, group_counts, key_map=None, mask=None):
        for arr in group_key_list:
            a = np.asarray(arr)
            if len(a) and int(a.max()) >= len(group_counts): return "every code < len(group_counts) (the kernel would write out of bounds)"
        per = np.zeros(len(group_counts), dtype=np.int64); i = 0
        for arr in group_key_list:
            a = np.asarray(arr).astype(np.int64); sel = a >= 0
            if mask is not None: sel = sel & np.asarray(mask)[i:i + len(a)]
            k = a[sel]; k = np.asarray(key_map)[k] if key_map is not None else k
            per += np.bincount(k, minlength=len(per)); i += len(a)
        if not np.array_equal(per, np.asarray(group_counts)):
            sess.record("pre", "core.GroupBy._build_group_sorted_indexer_numba", "group_counts[g] == number of rows the kernel places into group g (otherwise it writes outside its block / past the end of the indexer)",
                        {"group_counts": np.asarray(group_counts).tolist(), "rows per group": per.tolist()})
    sess.wrap("groupby_lib.groupby.core", "GroupBy._build_group_sorted_indexer_numba", requires=pre_indexer)


LEVEL_TEXT = 'Bounded only (object state is pandas/pyarrow). Per-operation contract (result == fresh result, abstract view unchanged, class invariant kept) evaluated on the real class for every operation of a 62-operation alphabet started from every state reachable by <= 1 (quick) / <= 2 (thorough) earlier operations of a history alphabet, on a designed set of key arrays covering the representation modes {contiguous; chunked with pointer tables; chunked unified in place; concatenated}, null placement and first-appearance orders; copy constructor and class-level call forms as operations. ROUND 3: a deductive part (P tier) decides one piece of the statement: the loop of _unify_group_key_chunks (local codes -> global codes through the pointer tables, null keys stay -1; loop extracted mechanically), count_ikey (the count cache) and _find_first_chunk_in_slice are proved to compute functions of the logical codes, the pointer tables and the mask alone - ASSUMED callee contracts listed in the evidence. The histories themselves remain bounded.'
