"""C14 — margins and cross-tabulation totals equal the aggregate of what they summarise.

B only (exploration; nothing beyond the kernels is provable: add_row_margin / crosstab are pure pandas reshaping).
Run-time contract, taken clause by clause from the statement, on the public results of
  GroupBy.{sum,count,size,min,max,mean}(..., margins=True | [levels])   (-> _apply_gb_reduction -> _add_margins -> add_row_margin)
  crosstab(index, columns, values, aggfunc, mask, margins in {False, True, "row", "column"})
 (m1) every ordinary row (no 'All' in its label) is unchanged: same label set and same values as the call without margins
 (m2) every expected 'All' combination is there: for every non-empty subset S of the requested levels and every observed label
      combination, the label with 'All' at S; its value == the same aggregation over ALL selected rows (non-null key) that agree with it on
      the remaining keys (sum/count/size add up, min/max extremes, mean = total sum / total count)
 (m3) restricted to the requested levels: no 'All' at a level that was not requested; no 'All' row that summarises nothing unless it
      carries the aggregation of nothing; no duplicated label
 (x1) crosstab cell (r, c) == aggregation over the selected rows with that row-key and column-key; every observed pair has a cell
 (x2) a cell whose combination is absent is null
 (x3) 'All' rows / columns (only on the requested axis) == the one-way aggregations (a partial 'All' on a two-key axis == aggregation by the rest)
Oracle: pure-Python regrouping with common.reduce_rows (NOT pandas). Row/column ORDER of the result is not part of the statement and is not checked.
"""
import itertools, io, contextlib
import numpy as np, pandas as pd
from . import common as C

PROP = "C14"; LEVEL = "exploration"; P_TIER = False
OPS = ["sum", "count", "size", "min", "max", "mean"]
ALL = "All"
SCOPE = {"quick": "GroupBy margins, every case running its reductions x margins in {True, every non-empty proper subset of the levels, the full list for sum/mean} against the call without margins: "
                  "1 key float labels over {null,a,b,c}: every sequence n<=3 (n<=2: float values x every null pattern x {no mask, every boolean mask, one positional} x sort alternating, + int values; n=3: 2 of 4 (value class, null pattern, mask, sort) variants in rotation); "
                  "1 key str/int/categorical(with an unused category): every sequence n<=3, one variant in rotation; 2 keys (kinds float+str, str+int, cat+float in rotation) over a palette of 7 sparse label pairs incl. a null in either key: every sequence n<=2 (2 variants), "
                  "every multiset n=3 (1 variant), every set of 4 and 5 different rows (1 variant, half of the reductions); 3 keys (float+str+int, int+cat+float) over a palette of 6 sparse triples: every sequence n<=2 (half of the reductions), every multiset n=3 (a third); "
                  "variants carry in rotation: two value columns with complementary nulls, observed_only=False; timedelta/datetime values on 1 and 2 keys n<=2 x every null pattern; 10 designed cases (mean-of-means trap, sparse 3-key grid, ...). "
                  "crosstab x margins {False,True,'row','column'}: 1x1 keys over 6 sparse pairs: every sequence n<=2 (float values x {sum,count,min,max,mean}, size, float with nulls and a mask), every multiset n=3 and set of 4 different rows (one of those); "
                  "2x1 and 1x2 keys: every sequence n<=2 (one variant, half of the aggfuncs); 2x2 keys: every multiset n<=2; seeded random cases up to 12 rows in the remaining time",
         "thorough": "as quick with: 1 key float n<=5 (full product n<=3, all 4 variants n=4), other kinds n<=4 (all variants n<=3); 2 keys every sequence n<=3 (all 4 variants) and every multiset n<=5 forward and reversed; 3 keys every sequence n<=3 (2 variants, all reductions), multisets n=4; "
                     "crosstab 1x1 every sequence n<=3 (5 variants incl. int values and masked size) and multisets n<=5; 2x1/1x2 multisets n<=4; 2x2 sequences n<=2, multisets n=3; random cases up to 24 rows"}
RULE = "a case = (keys per level, key kinds, value class, value-null pattern, mask, sort) for GroupBy margins (each case runs every reduction x every margins setting) or (row keys, column keys, value class, null pattern, mask) for crosstab (every aggfunc x margins setting); distinct = distinct canonical JSON; non-trivial = at least two observed labels at some level, or a null key, or a null value, or a mask"
ASSUMPTIONS = ["pandas Index/MultiIndex label access (iteration over .index / .columns, .iloc) behaves as documented", "numpy boolean/slice/fancy indexing",
               "A-real: float totals compared with relative tolerance 1e-9 (ordinary rows must be exactly the values of the call without margins); A-int64: no overflow",
               "rows whose key is null in any level belong to no group and are summarised by no 'All' row (they are in no ordinary row either)",
               "row / column ORDER of the result with margins is not claimed by the statement and is not checked",
               "BOUNDED: everything in this property is checked only within the stated scope"]
REQUIRED_CONTRACTS = {"core.add_row_margin": 1, "core.crosstab": 1}
EXPLANATION = ("Bounded only. add_row_margin re-aggregates the per-group result over the other levels and re-indexes it on the cartesian grid of labels + 'All'; crosstab unstacks the multi-key aggregate. Both are pandas reshaping "
               "code with no kernel of their own; the run-time postcondition (ordinary rows unchanged, every 'All' combination == aggregation over the selected rows it summarises, restricted to the requested levels, cells/absent cells/margins of the cross-tab) "
               "is evaluated against a pure-Python regrouping of the selected rows over a bounded-exhaustive space of sparse label combinations, nulls, masks, reductions and margin-level subsets.")
BUDGET = {"quick": 75, "thorough": 500}


# ----------------------------------------------------------------------------- materialisation
def make_key(kind, col):
    """one key level: col = list of label indices (None = null) -> (array-like, logical labels with None for null)"""
    if kind == "float": return np.array([np.nan if x is None else float(x) for x in col]), [None if x is None else float(x) for x in col]
    if kind == "str": return np.array([None if x is None else "abc"[x] for x in col], dtype=object), [None if x is None else "abc"[x] for x in col]
    if kind == "int": return np.array([0 if x is None else x + 5 for x in col], dtype=np.int64), [0 if x is None else x + 5 for x in col]      # no null: None is the ordinary label 0
    if kind == "cat":
        labs = [None if x is None else "abc"[x] for x in col]
        return pd.Categorical(labs, categories=["c", "a", "b", "unused"]), labs
    raise ValueError(kind)


def _py(x):
    if isinstance(x, np.generic): return x.item()
    return x


def _labels(index):
    """pandas Index / MultiIndex -> list of tuples of python labels"""
    out = []
    for x in index:
        out.append(tuple(_py(e) for e in x) if isinstance(x, tuple) else (_py(x),))
    return out


def _val_ok(got, exp, vkind, op, exact=False):
    if vkind == "bool" and exp is None: exp = False
    if C.is_null(exp): return C.same(got, exp)
    if C.is_null(got): return False
    if op == "mean" and vkind in ("datetime", "timedelta"):
        try:
            gv = pd.Timestamp(got).value if vkind == "datetime" else pd.Timedelta(got).value
            return abs(gv - exp.value) <= max(2, abs(exp.value) * 2.0 ** -50)
        except Exception: return False
    return C.same(got, exp, rtol=0.0 if exact else 1e-9)


def _same_cell(a, b, temporal_mean=False):
    """ordinary row unchanged: both null or equal as values (an int count may come back as a float of the same value).
    A temporal mean is a float64 quotient sum/count: with margins the library rounds it to the nanosecond in another way than without
    (off by one ns), which is inside the resolution C01 grants the mean itself - not counted as a change"""
    if C.is_null(a) or C.is_null(b): return C.is_null(a) and C.is_null(b)
    try:
        if temporal_mean:
            x, y = (pd.Timestamp(a).value, pd.Timestamp(b).value) if isinstance(b, (pd.Timestamp, np.datetime64)) else (pd.Timedelta(a).value, pd.Timedelta(b).value)
            return abs(x - y) <= max(2, abs(y) * 2.0 ** -50)
        return bool(a == b)
    except Exception: return False


def _agg(op, vals, rows): return C.reduce_rows(op, [vals[r] if vals is not None else 1 for r in rows])


def _requested(margins, nlev):
    if margins is True: return list(range(nlev))
    if not margins: return []
    return sorted(set(margins))


def expected_margins(op, labs_per_level, vals, rows, levels):
    """-> {label tuple (with 'All'): expected value} for every subset S of `levels` (incl. the empty one = ordinary rows)"""
    nlev = len(labs_per_level)
    rows = [r for r in rows if all(l[r] is not None for l in labs_per_level)]
    exp = {}
    for k in range(0, len(levels) + 1):
        for S in itertools.combinations(levels, k):
            groups = {}
            for r in rows:
                lab = tuple(ALL if i in S else labs_per_level[i][r] for i in range(nlev))
                groups.setdefault(lab, []).append(r)
            for lab, rs in groups.items(): exp[lab] = _agg(op, vals, rs)
    return exp, rows


# ----------------------------------------------------------------------------- cases
# a margins call costs 4 ms (1 key), 15-40 ms (2 keys), 25-130 ms (3 keys), up to 260 ms (2x2 crosstab): the margin step is a function of the
# per-group result, so the enumeration is dense in the STRUCTURE (which label combinations are observed, in which order) and thinner in masks / null patterns
PAL2 = [(0, 0), (0, 1), (1, 0), (2, 1), (None, 0), (1, None), (1, 1)]             # sparse: (2,0) never occurs, (1,1) last so that small prefixes stay sparse
PAL3 = [(0, 0, 0), (0, 1, 1), (1, 0, 1), (1, 1, 0), (None, 0, 0), (0, 0, 1)]
KK1 = ("float", "str", "int", "cat"); KK2 = (("float", "str"), ("str", "int"), ("cat", "float")); KK3 = (("float", "str", "int"), ("int", "cat", "float"))
NULLSENS = ["min", "count", "mean", "sum"]; CHEAP = ["sum", "size", "max", "mean"]


def _nullpats(vkind, n, full):
    if not C.nullable(vkind): return [[False] * n]
    if n <= full: return [list(p) for p in itertools.product([False, True], repeat=n)]
    pats = [[False] * n, [True] + [False] * (n - 1), [False] * (n - 1) + [True], [i % 2 == 0 for i in range(n)], [i % 2 == 1 for i in range(n)], [True] * n]
    return [list(p) for p in dict.fromkeys(map(tuple, pats))]


def _masks(n, full):
    out = [None]
    if n == 0: return out
    if n <= full: out += [("bool", list(m)) for m in itertools.product([False, True], repeat=n)][:-1]
    else: out += [("bool", [False] + [True] * (n - 1)), ("bool", [True] * (n - 1) + [False]), ("bool", [i % 2 == 0 for i in range(n)]), ("bool", [False] * n)]
    out += [("slice", [1, None, None])]
    if n >= 2: out += [("pos", [n - 1, 0])]
    return out


def _lean(n):
    """the four (value class, null pattern, mask, sort, reductions) variants run on a key structure when the full product is too dear"""
    no = [False] * n; alt = [i % 2 == 0 for i in range(n)]
    out = [("float", no, None, True, OPS), ("float", alt, None, False, OPS)]
    if n >= 2: out += [("int", no, ("bool", [False] + [True] * (n - 1)), True, CHEAP), ("float", [True] + [False] * (n - 1), ("bool", [True] * (n - 1) + [False]), False, NULLSENS)]
    return out


EXTRAS = [{}, {}, {"observed_only": False}, {"two": True}, {}, {"two": True, "observed_only": False}, {}]      # taken in rotation over the structure counter


def _rot(i, n, k, ops_cycle=None):
    """k of the lean variants, taken in rotation over the structure counter i (so that neighbouring structures get different ones)"""
    vs = _lean(n); vs = [vs[(i + j) % len(vs)] for j in range(min(k, len(vs)))]
    if ops_cycle: vs = [(v[0], v[1], v[2], v[3], ops_cycle[(i + j) % len(ops_cycle)]) for j, v in enumerate(vs)]
    return vs


def _rich(i, n, both_sorts):
    """full product: float values x every null pattern x {no mask, every boolean mask, one positional} x sort (alternating unless both_sorts), plus the int variant"""
    out = []; c = i
    for pat in _nullpats("float", n, 3):
        for mask in [None] + [("bool", list(m)) for m in itertools.product([False, True], repeat=n)][:-1] + ([("pos", [n - 1, 0])] if n >= 2 else []):
            c += 1
            for sort in ((True, False) if both_sorts else (c % 2 == 0,)): out.append(("float", pat, mask, sort, OPS))
    return out + [v for v in _lean(n) if v[0] == "int"]


def _seqs(palette, nseq, nmulti, both=False, nmin=1, distinct_from=99):
    """every sequence up to nseq rows, then every multiset (forward and, if both, reversed) up to nmulti rows; only lengths >= nmin;
    from distinct_from rows on only multisets of pairwise different palette rows"""
    for n in range(nmin, nseq + 1):
        yield from itertools.product(palette, repeat=n)
    for n in range(max(nseq + 1, nmin), nmulti + 1):
        for ms in (itertools.combinations if n >= distinct_from else itertools.combinations_with_replacement)(palette, n):
            yield ms
            if both and ms[::-1] != ms: yield ms[::-1]


def _gb_stream(kks, structures, plan, all_kk=False):
    """kks: key-kind tuples, one per structure in rotation (all_kk: every kind for every structure); plan(i, n) -> variants"""
    for i, rowsq in enumerate(structures):
        n = len(rowsq)
        for kk in (kks if all_kk else [kks[i % len(kks)]]):
            keys = [[r[j] for r in rowsq] for j in range(len(kk))]
            for j, (vkind, pat, mask, sort, ops) in enumerate(plan(i, n)):
                yield dict({"t": "gb", "keys": keys, "kk": list(kk), "vkind": vkind, "nullpat": pat, "mask": mask, "sort": sort, "ops": list(ops)}, **EXTRAS[(i + 3 * j) % len(EXTRAS)])


def _temporal_stream(kk, structures):
    for rowsq in structures:
        n = len(rowsq); keys = [[r[j] for r in rowsq] for j in range(len(kk))]
        for vkind in ("timedelta", "datetime"):
            for pat in _nullpats(vkind, n, 2):
                yield {"t": "gb", "keys": keys, "kk": list(kk), "vkind": vkind, "nullpat": pat, "mask": None, "sort": True, "ops": ["min", "max", "mean", "count"] + (["sum"] if vkind == "timedelta" else [])}


CT11 = [((0,), (0,)), ((0,), (1,)), ((1,), (0,)), ((2,), (1,)), ((None,), (0,)), ((1,), (None,))]
CT21 = [((0, 0), (0,)), ((0, 1), (1,)), ((1, 0), (0,)), ((0, 0), (1,)), ((None, 1), (0,)), ((1, 1), (None,))]
CT12 = [(c, r) for r, c in CT21]
CT22 = [((0, 0), (0, 0)), ((0, 1), (1, 1)), ((1, 0), (0, 0)), ((0, 0), (1, 0)), ((None, 1), (0, None))]
CT_OPS = ["sum", "count", "min", "max", "mean"]


def _ct_stream(rkk, ckk, structures, plan):
    """plan(i, n) -> (how many of the five variants, taken in rotation; ops cycle or None)"""
    for i, sq in enumerate(structures):
        n = len(sq); rk = [[p[0][j] for p in sq] for j in range(len(rkk))]; ck = [[p[1][j] for p in sq] for j in range(len(ckk))]
        no = [False] * n
        var = [("float", no, None, CT_OPS), (None, no, None, ["size"]), ("float", [j % 2 == 0 for j in range(n)], ("bool", [j != 0 for j in range(n)]) if n > 1 else None, CT_OPS),
               ("int", no, ("bool", [j % 2 == 0 for j in range(n)]), ["sum", "min", "mean"]), (None, no, ("bool", [j != n - 1 for j in range(n)]), ["size"])]
        k, ops_cycle = plan(i, n)
        for j in range(k):
            vkind, pat, mask, ops = var[(i + j) % len(var)] if k < len(var) else var[j]
            if ops_cycle and vkind: ops = ops_cycle[(i + j) % len(ops_cycle)]
            yield {"t": "ct", "rk": rk, "ck": ck, "rkk": list(rkk), "ckk": list(ckk), "vkind": vkind, "nullpat": pat, "mask": mask, "ops": list(ops)}


def cases(tier, seed):
    big = tier == "thorough"
    one = lambda syms, N, n0=1: itertools.chain.from_iterable(itertools.product([(s,) for s in syms], repeat=n) for n in range(n0, N + 1))
    half = [["sum", "min", "mean"], ["count", "size", "max"]]; third = [["sum", "mean"], ["min", "count"], ["size", "max"]]; cthalf = [["sum", "mean", "min"], ["count", "max"]]
    sym = [None, 0, 1, 2]
    if not big:
        S = [  # (stream, weight)
            (_gb_stream([("float",)], one(sym, 3, 0), lambda i, n: _rich(i, n, False) if n <= 2 else _rot(i, n, 2)), 6),
            (_gb_stream([(k,) for k in KK1[1:]], one(sym, 3), lambda i, n: _rot(i, n, 1), all_kk=True), 3),
            (_gb_stream(KK2, _seqs(PAL2, 2, 5, distinct_from=4), lambda i, n: _rot(i, n, 2) if n <= 2 else (_rot(i, n, 1) if n == 3 else _rot(i, n, 1, half))), 2),
            (_gb_stream(KK3, _seqs(PAL3, 2, 3), lambda i, n: _rot(i, n, 1, half if n <= 2 else third)), 1),
            (_temporal_stream(("float",), one([None, 0, 1], 2)), 1),
            (_temporal_stream(("float", "str"), _seqs(PAL2[:4], 1, 2)), 1),
            (_ct_stream(("float",), ("str",), _seqs(CT11, 2, 4, distinct_from=4), lambda i, n: (3, None) if n <= 2 else (1, None)), 2),
            (_ct_stream(("str", "int"), ("float",), _seqs(CT21, 2, 2), lambda i, n: (1, cthalf)), 1),
            (_ct_stream(("int",), ("str", "float"), _seqs(CT12, 2, 2), lambda i, n: (1, cthalf)), 1),
            (_ct_stream(("float", "str"), ("str", "float"), _seqs(CT22, 1, 2), lambda i, n: (1, cthalf)), 1),
        ]
    else:
        S = [
            (_gb_stream([("float",)], one(sym, 5, 0), lambda i, n: _rich(i, n, n <= 2) if n <= 3 else _rot(i, n, 4 if n == 4 else 1)), 6),
            (_gb_stream([(k,) for k in KK1[1:]], one(sym, 4), lambda i, n: _rot(i, n, 4 if n <= 3 else 1), all_kk=True), 3),
            (_gb_stream(KK2, _seqs(PAL2, 3, 5, both=True), lambda i, n: _rot(i, n, 4 if n <= 3 else (2 if n == 4 else 1))), 2),
            (_gb_stream(KK3, _seqs(PAL3, 3, 4), lambda i, n: _rot(i, n, 2 if n <= 3 else 1)), 1),
            (_temporal_stream(("float",), one([None, 0, 1], 3)), 1),
            (_temporal_stream(("float", "str"), _seqs(PAL2[:5], 2, 3)), 1),
            (_ct_stream(("float",), ("str",), _seqs(CT11, 3, 5), lambda i, n: (5, None) if n <= 3 else (2, None)), 2),
            (_ct_stream(("str", "int"), ("float",), _seqs(CT21, 2, 4), lambda i, n: (3, None) if n <= 2 else (1, None)), 1),
            (_ct_stream(("int",), ("str", "float"), _seqs(CT12, 2, 4), lambda i, n: (3, None) if n <= 2 else (1, None)), 1),
            (_ct_stream(("float", "str"), ("str", "float"), _seqs(CT22, 2, 3), lambda i, n: (3, None) if n <= 2 else (1, cthalf)), 1),
        ]
    return C.roundrobin(*[s for s, _ in S], weights=[w for _, w in S])


def extra_cases(tier, seed):
    """designed cases that the time cap must never cut: the mean-of-means trap (groups of different sizes), a sparse 3-key grid with a null key and null values,
    int values with a masked-out group reported as unobserved (observed_only=False), temporal values with an all-null group, a sparse 2x2-key cross-tab"""
    f = lambda rows, kk, **kw: dict({"t": "gb", "keys": [[r[j] for r in rows] for j in range(len(kk))], "kk": list(kk), "vkind": "float", "nullpat": [False] * len(rows), "mask": None, "sort": True, "ops": OPS}, **kw)
    yield f([(0, 0), (0, 0), (0, 0), (0, 1), (1, 0)], ("float", "str"))
    yield f([(0, 0), (0, 0), (0, 0), (0, 1), (1, 0)], ("str", "int"), sort=False, nullpat=[False, True, False, False, True], two=True)
    yield f(PAL3, ("float", "str", "int"), nullpat=[i % 2 == 1 for i in range(len(PAL3))], ops=["sum", "mean", "min"])
    yield f(PAL3[::-1], ("int", "cat", "float"), sort=False, ops=["count", "size", "max"])
    yield f([(0,), (1,)], ("float",), vkind="int", mask=("bool", [False, True]), observed_only=False)
    yield f([(0, 0), (1, 1), (1, 0)], ("cat", "float"), vkind="int", mask=("bool", [True, False, True]), observed_only=False, ops=["min", "max", "sum", "mean"])
    yield f([(0,), (0,), (1,)], ("cat",), two=True, nullpat=[True, False, False])
    yield f([(0,), (0,), (1,)], ("float",), vkind="datetime", ops=["min", "max", "mean", "count"])
    yield f([(0, 0), (0, 1), (1, 0)], ("float", "str"), vkind="timedelta", nullpat=[False, True, False], ops=["min", "max", "mean", "count", "sum"])
    sq = CT22[:4] + CT22[:2]
    yield {"t": "ct", "rk": [[p[0][j] for p in sq] for j in range(2)], "ck": [[p[1][j] for p in sq] for j in range(2)], "rkk": ["float", "str"], "ckk": ["str", "float"], "vkind": "float",
           "nullpat": [i == 1 for i in range(len(sq))], "mask": None, "ops": ["mean", "min", "count"]}


def random_case(rnd, tier):
    n = rnd.randint(5, 24 if tier == "thorough" else 12); pat = [rnd.random() < 0.3 for _ in range(n)]
    mask = rnd.choice([None, None, ("bool", [rnd.random() < 0.6 for _ in range(n)]), ("slice", [rnd.randrange(0, n), None, None])])
    if rnd.random() < 0.6:
        nk = rnd.choice([1, 2, 2, 3]); kk = [rnd.choice(["float", "str", "int", "cat"]) for _ in range(nk)]
        keys = [[rnd.choice([None, 0, 1, 2] if i == 0 else [None, 0, 0, 1, 1]) for _ in range(n)] for i in range(nk)]
        return {"t": "gb", "keys": keys, "kk": kk, "vkind": rnd.choice(["float", "float", "int"]), "nullpat": pat, "mask": mask, "sort": rnd.random() < 0.5}
    nr, nc = rnd.choice([(1, 1), (1, 1), (2, 1), (1, 2), (2, 2)])
    return {"t": "ct", "rk": [[rnd.choice([None, 0, 1, 2]) for _ in range(n)] for _ in range(nr)], "ck": [[rnd.choice([None, 0, 1, 1]) for _ in range(n)] for _ in range(nc)],
            "rkk": [rnd.choice(["float", "str", "int"]) for _ in range(nr)], "ckk": [rnd.choice(["float", "str", "int"]) for _ in range(nc)],
            "vkind": rnd.choice(["float", "float", None, "int"]), "nullpat": pat, "mask": mask}


def nontrivial(case):
    cols = case["keys"] if case["t"] == "gb" else case["rk"] + case["ck"]
    return any(len({x for x in c if x is not None}) >= 2 for c in cols) or any(None in c for c in cols) or any(case["nullpat"]) or case["mask"] is not None


# ----------------------------------------------------------------------------- checks
def _margin_settings(nlev, op):
    """True and every non-empty proper subset of the levels; the full list of levels (== True two lines into _add_margins) only for sum and mean"""
    out = [True]
    for k in range(1, nlev): out += [list(S) for S in itertools.combinations(range(nlev), k)]
    if op in ("sum", "mean"): out.append(list(range(nlev)))
    return out


def _series_map(res):
    """Series -> ({label tuple: value}, duplicated labels)"""
    labs = _labels(res.index); vals = list(res.array) if hasattr(res, "array") else list(res)
    m, dup = {}, []
    for l, v in zip(labs, vals):
        if l in m: dup.append(l)
        m[l] = v
    return m, dup


def _cl(clause, tag):
    """clause with a tag right after its (id): known findings match on clause prefixes"""
    return clause if not tag else clause.replace(") ", f") {tag} ", 1)


def _check_gb(sess, case):
    from groupby_lib.groupby import GroupBy
    kk = case["kk"]; nlev = len(kk); n = len(case["keys"][0]); vkind = case["vkind"]
    made = [make_key(kind, col) for kind, col in zip(kk, case["keys"])]
    karg = made[0][0] if nlev == 1 else [m[0] for m in made]; labs = [m[1] for m in made]
    v, vals = C.make_values(vkind, n, case["nullpat"]); rows = C.selection_rows(case["mask"], n); m = C.np_mask(case["mask"]); calls = 0
    two = bool(case.get("two")); obs = case.get("observed_only", True); kw = {} if obs else {"observed_only": False}
    if two:      # two value columns with complementary null patterns: the margin step then works on a DataFrame
        v2, vals2 = C.make_values(vkind, n, [not x for x in case["nullpat"]]); varg = {"p": v, "q": v2}; columns = [("p", vals), ("q", vals2)]
    else: varg = v; columns = [(None, vals)]
    with contextlib.redirect_stdout(io.StringIO()):
        try: gb = GroupBy(karg, sort=case["sort"])
        except Exception as ex:
            sess.record("raises", "GroupBy.__init__", f"valid keys must not fail: {type(ex).__name__}", str(ex)[:200]); return 0
    for op in ([case["op"]] if "op" in case else case.get("ops", OPS)):
        if vkind == "datetime" and op == "sum": continue
        if two and op == "size": continue
        call = (lambda mg: gb.size(mask=m, margins=mg, **kw)) if op == "size" else (lambda mg: getattr(gb, op)(varg, mask=m, margins=mg, **kw))
        fn = f"GroupBy.{op}"; tag = "" if obs else "[observed_only=False]"        # the non-default path is reported apart (the smallest case per clause is kept)
        sess.current_case = dict(case, op=op, margins=False); calls += 1
        try:
            with contextlib.redirect_stdout(io.StringIO()): base = call(False)
            base_maps = [_series_map(base[name] if two else base)[0] for name, _ in columns]
        except Exception as ex:
            sess.record("raises", fn, f"call without margins must not fail: {type(ex).__name__}", str(ex)[:200]); continue
        for mg in ([case["margins"]] if case.get("margins") else _margin_settings(nlev, op)):
            c = dict(case, op=op, margins=mg); sess.current_case = c; calls += 1
            levels = _requested(mg, nlev)
            try:
                with contextlib.redirect_stdout(io.StringIO()): got = call(mg)
                got_maps = [_series_map(got[name] if two else got) for name, _ in columns]
            except Exception as ex:
                sess.record("raises", fn, f"margins on valid inputs must not fail: {type(ex).__name__}", str(ex)[:300]); continue
            for (name, cvals), (got_map, dup), base_map in zip(columns, got_maps, base_maps):
                exp, _ = expected_margins(op, labs, None if op == "size" else cvals, rows, levels)
                if dup: sess.record("post", fn, _cl("(m3) no duplicated label in the result with margins", tag), {"duplicated": str(dup[:4])})
                if any(len(l) != nlev for l in got_map): sess.record("post", fn, _cl("(m1) result keeps one index level per key", tag), {"got": str(list(got_map)[:4])}); continue
                # (m1) ordinary rows unchanged
                ordinary = {l: x for l, x in got_map.items() if ALL not in l}
                if set(ordinary) != set(base_map):
                    sess.record("post", fn, _cl("(m1) ordinary rows unchanged: same labels as the call without margins", tag), {"got": str(sorted(map(str, ordinary))), "without_margins": str(sorted(map(str, base_map)))})
                bad = [(l, ordinary[l], base_map[l]) for l in ordinary if l in base_map and not _same_cell(ordinary[l], base_map[l], op == "mean" and vkind in ("datetime", "timedelta"))]
                if bad: sess.record("post", fn, _cl("(m1) ordinary rows unchanged: same values as the call without margins", tag), {"mismatch": [(str(a), str(b), str(c_)) for a, b, c_ in bad][:4]})
                # (m2) every expected 'All' combination, with the aggregate of the selected rows it summarises
                exp_all = {l: x for l, x in exp.items() if ALL in l}
                missing = [l for l in exp_all if l not in got_map]
                if missing: sess.record("post", fn, _cl("(m2) every 'All' combination of the requested levels is present", tag), {"missing": str(missing[:6]), "got": str(list(got_map))[:300]})
                bad = [(l, got_map[l], e) for l, e in exp_all.items() if l in got_map and not _val_ok(got_map[l], e, vkind, op)]
                if bad:
                    kind = "grand total" if nlev == 1 else "aggregation grouped by the remaining keys"
                    sess.record("post", fn, _cl(f"(m2) 'All' row == {kind} over the selected rows it summarises", tag), {"mismatch": [(str(a), str(b), str(c_)) for a, b, c_ in bad][:4]})
                # (m3) restricted to the requested levels
                stray = [l for l in got_map if any(x == ALL and i not in levels for i, x in enumerate(l))]
                if stray: sess.record("post", fn, _cl("(m3) 'All' only at the requested levels", tag), {"stray": str(stray[:6]), "requested": str(levels)})
                empty = [(l, got_map[l]) for l in got_map if ALL in l and l not in exp_all and l not in stray and not _val_ok(got_map[l], _agg(op, None if op == "size" else cvals, []), vkind, op)]
                if empty: sess.record("post", fn, _cl("(m3) an 'All' row that summarises no selected row carries the aggregation of nothing", tag), {"rows": [(str(a), str(b)) for a, b in empty][:4]})
    return calls


def _check_ct(sess, case):
    from groupby_lib.groupby.core import crosstab
    rkk, ckk = case["rkk"], case["ckk"]; nr, nc = len(rkk), len(ckk); n = len(case["rk"][0]); vkind = case["vkind"]
    rmade = [make_key(kind, col) for kind, col in zip(rkk, case["rk"])]; cmade = [make_key(kind, col) for kind, col in zip(ckk, case["ck"])]
    rarg = rmade[0][0] if nr == 1 else [m[0] for m in rmade]; carg = cmade[0][0] if nc == 1 else [m[0] for m in cmade]
    labs = [m[1] for m in rmade] + [m[1] for m in cmade]
    if vkind is None: v, vals, ops = None, None, ["size"]
    else:
        v, vals = C.make_values(vkind, n, case["nullpat"]); ops = ["sum", "count", "min", "max", "mean"]
    rows = [r for r in C.selection_rows(case["mask"], n) if all(l[r] is not None for l in labs)]; m = C.np_mask(case["mask"]); calls = 0
    for op in ([case["op"]] if "op" in case else case.get("ops", ops)):
        for mg in ([case["margins"]] if "margins" in case else [False, True, "row", "column"]):
            c = dict(case, op=op, margins=mg); sess.current_case = c; calls += 1
            try:
                with contextlib.redirect_stdout(io.StringIO()):
                    tab = crosstab(rarg, carg, v, aggfunc=op if v is not None else "sum", mask=m, margins=mg)
                rl = _labels(tab.index); cl = _labels(tab.columns); arr = [[tab.iloc[i, j] for j in range(len(cl))] for i in range(len(rl))]
            except Exception as ex:
                sess.record("raises", "core.crosstab", f"valid inputs must not fail: {type(ex).__name__}", str(ex)[:300]); continue
            if any(len(l) != nr for l in rl) or any(len(l) != nc for l in cl):
                sess.record("post", "core.crosstab", "(x1) one index level per row key and one column level per column key", {"index": str(rl[:3]), "columns": str(cl[:3])}); continue
            if len(set(rl)) != len(rl) or len(set(cl)) != len(cl): sess.record("post", "core.crosstab", "(x1) no duplicated row / column label", {"index": str(rl), "columns": str(cl)})
            cells = {(r, cc): arr[i][j] for i, r in enumerate(rl) for j, cc in enumerate(cl)}
            row_m = mg in (True, "row"); col_m = mg in (True, "column")
            stray = [r for r in rl if ALL in r and not row_m] + [cc for cc in cl if ALL in cc and not col_m]
            if stray: sess.record("post", "core.crosstab", "(x3) 'All' only on the requested axis", {"stray": str(stray[:4]), "margins": str(mg)})
            def sel(lab): return [r for r in rows if all(x == ALL or labs[i][r] == x for i, x in enumerate(lab))]
            # (x1) every observed pair has a cell
            observed = {(tuple(labs[i][r] for i in range(nr)), tuple(labs[nr + i][r] for i in range(nc))) for r in rows}
            need = set(observed)
            if row_m: need |= {((ALL,) * nr, cc) for _, cc in observed}
            if col_m: need |= {(r, (ALL,) * nc) for r, _ in observed}
            if row_m and col_m and observed: need.add(((ALL,) * nr, (ALL,) * nc))
            missing = [k for k in need if k not in cells]
            if missing:
                what = "(x1) every observed (row key, column key) pair has a cell" if all(ALL not in a + b for a, b in missing) else "(x3) the requested 'All' row / column is present"
                sess.record("post", "core.crosstab", what, {"missing": str(missing[:4]), "index": str(rl), "columns": str(cl)})
            bad = {"x1": [], "x2": [], "x3": []}
            for (r, cc), g in cells.items():
                rs = sel(r + cc); is_m = ALL in r + cc
                if not rs:
                    # an absent combination is null; an 'All' cell that summarises no selected row may also carry the aggregation of nothing (size/count/sum 0)
                    if not C.is_null(g) and not (is_m and _val_ok(g, _agg(op, vals, []), vkind, op)): bad["x3" if is_m else "x2"].append((r, cc, g, None))
                    continue
                e = _agg(op, vals, rs)
                if not _val_ok(g, e, vkind, op): bad["x3" if is_m else "x1"].append((r, cc, g, e))
            for key, clause in (("x1", "(x1) cell == aggregation over the selected rows with that row key and column key"), ("x2", "(x2) absent combination is null"),
                                ("x3", "(x3) 'All' row / column == one-way aggregation over the selected rows it summarises (null when it summarises none)")):
                if bad[key]: sess.record("post", "core.crosstab", clause, {"mismatch": [tuple(map(str, b)) for b in bad[key]][:4]})
    return calls


def check_case(sess, case):
    return _check_gb(sess, case) if case["t"] == "gb" else _check_ct(sess, case)


def install(sess):
    """sidecar contracts on the reshaping functions: frame of add_row_margin (the per-group result handed in is not modified) and its label postcondition"""
    def snap(data, agg_func="sum", levels=None):
        return (list(data.index), data.to_numpy().copy())
    def post_arm(out, old, data, agg_func="sum", levels=None):
        idx, arr = old
        if list(data.index) != idx: return "frame: add_row_margin must not change the index of its input"
        now = data.to_numpy()
        if now.shape != arr.shape or not all(_same_cell(a, b) for a, b in zip(now.ravel().tolist(), arr.ravel().tolist())): return "frame: add_row_margin must not change the values of its input"
        if out.index.nlevels != data.index.nlevels: return "result keeps the number of index levels"
    sess.wrap("groupby_lib.groupby.core", "add_row_margin", ensures=post_arm, snapshot=snap)
    sess.wrap("groupby_lib.groupby.core", "crosstab")
