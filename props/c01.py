"""C01 — group reductions equal the per-group definition (public API).

P/L (unbounded): ScalarFuncs.* = step functions, _group_by_reduce = per-group fold (both indexer modes), L-char (fold = definition), L-filter.
B (bounded): run-time contract on the public reductions GroupBy.size/count/sum/mean/min/max/first/last:
   ensures  labels == labels with at least one selected row (sorted, or first-appearance order with sort=False)
            and per label value == reduction of the non-null values in the selected rows of that label; all-null group -> neutral
 + kernel-precondition monitors on _group_by_reduce / _apply_group_method_single_chunk (the `requires` the proofs rest on).
Oracle: executable specification written from the property statement (props/common.py), not pandas.
"""
import itertools, io, contextlib
import numpy as np, pandas as pd
from . import common as C

PROP = "C01"; LEVEL = "other"; P_TIER = True
OPS = ["size", "count", "sum", "mean", "min", "max", "first", "last"]
SCOPE = {"quick": "keys over {null,a,b,c} of kinds float/str/int/categorical/two-key, n<=3 exhaustive (n=4 for float keys x float values) x value classes {float,int,datetime,timedelta,bool} x every value-null pattern x masks {none, every boolean, slices incl. negative bounds, positions incl. repeats} x sort on/off x 8 reductions; seeded random cases up to 24 rows",
         "thorough": "as quick with n<=4 for every kind (n<=5 float/float), random cases up to 64 rows; designed cases with 2/3/4 worker threads forced (groups absent or all-null in the first blocks)"}
RULE = "a case = (keys, key kind, value class, value-null pattern, mask, sort); distinct = distinct canonical JSON; non-trivial = at least two labels, or a null key, or a mask, or a null value"
ASSUMPTIONS = ["pandas Series/Index/MultiIndex construction and sorting behave as documented", "numpy boolean/slice/fancy indexing",
               "A-real: float sums compared with relative tolerance 1e-9; A-int64 (sums of 64-bit values do not overflow)",
               "BOUNDED: the pandas glue between the public methods and the proved kernels is checked only within the stated scope"]
REQUIRED_CONTRACTS = {"numba._group_by_reduce": 1, "numba._apply_group_method_single_chunk": 1}
EXPLANATION = ("Modular: the per-group fold is proved for the kernels (_group_by_reduce with ScalarFuncs.*, unbounded, from the real source); the chain GroupBy.<op> -> _apply_gb_reduction -> "
               "_apply_gb_func_across_chunked_group_keys -> group_<op> -> _group_func_wrap is pandas glue and is decided by a run-time postcondition taken from the property statement over a bounded-exhaustive scope (bounded, not proved).")
BUDGET = {"quick": 50, "thorough": 500}
KEY_KINDS = ("float", "str", "int", "cat", "two")


def make_keys(kkind, keys):
    """-> (object to pass as group key, list of logical labels (None = null key))"""
    if kkind == "float": return np.array([np.nan if x is None else float(x) for x in keys]), [None if x is None else float(x) for x in keys]
    if kkind == "str": return np.array([None if x is None else "abc"[x] for x in keys], dtype=object), [None if x is None else "abc"[x] for x in keys]
    if kkind == "int": return np.array([0 if x is None else x + 5 for x in keys], dtype=np.int64), [0 if x is None else x + 5 for x in keys]
    if kkind == "cat":
        labs = [None if x is None else "abc"[x] for x in keys]
        return pd.Categorical(labs, categories=["c", "a", "b", "unused"]), labs
    if kkind == "two":      # two keys: first = x // 2 as float (null when x is None), second = parity as str; a null in EITHER makes the row null
        k1 = np.array([np.nan if x is None else float(x // 2) for x in keys]); k2 = np.array(["ev" if (x or 0) % 2 == 0 else "od" for x in keys], dtype=object)
        return [k1, k2], [None if x is None else (float(x // 2), "ev" if x % 2 == 0 else "od") for x in keys]
    raise ValueError(kkind)


def label_order(kkind, labs, sort):
    present = list(dict.fromkeys(x for x in labs if x is not None))
    if kkind == "cat": return [c for c in ["c", "a", "b", "unused"] if c in present]
    return sorted(present) if sort else present


def cases(tier, seed):
    big = tier == "thorough"
    def gen(kkind, vkind, N):
        for n in range(0 if kkind == "float" and vkind == "float" else 1, N + 1):
            alphabet = [None, 0, 1, 2]
            for keys in itertools.product(alphabet, repeat=n):
                for pat in C.null_patterns(vkind, n):
                    kinds = ("none", "bool", "slice", "pos") if n <= 3 else ("none", "bool")
                    for mask in C.masks_for(n, kinds, pos_len=2):
                        if mask is not None and mask[0] == "slice" and n >= 3 and (mask[1][0] not in (None, 1, -2, -n - 1) or mask[1][1] not in (None, -1, 2, n + 1)): continue
                        for sort in (True, False):
                            yield {"keys": list(keys), "kkind": kkind, "vkind": vkind, "nullpat": list(pat), "mask": mask, "sort": sort}
    streams = [gen("float", "float", 5 if big else 4)]
    for kkind, vkind in [("str", "float"), ("int", "float"), ("float", "int"), ("cat", "float"), ("two", "float"), ("float", "datetime"), ("str", "bool"), ("float", "timedelta"), ("two", "int"), ("float", "intarrow")]:
        streams.append(gen(kkind, vkind, 4 if big else 3))
    return C.roundrobin(*streams)


def extra_cases(tier, seed):
    """designed cases, run before the enumeration: the multi-threaded dispatch of the public reductions (block-wise partial results merged per group). The number of worker
    threads is a function of the row count (1 + rows // 1e6, at most 4); the harness reaches it at small sizes by overriding the read-only property GroupBy._max_threads_for_numba
    from outside for the duration of one call (no source change) - the merged result must still be the per-group definition, in particular for groups that have no row, or only
    null values, in the first block(s)."""
    yield from _allnull_cases()
    seqs = [[0, 0, 0, 1, 1, 2], [2, 2, 1, 1, 0, 0, 0], [0, 0, 0, 0, 1, 2, 1, 2], [None, 0, 0, 1, None, 1, 2, 2, 2], [1, 1, 1, 1, 1, 1, 0]]
    for keys in seqs:
        n = len(keys)
        for vkind in ("float", "int", "datetime", "bool", "timedelta"):
            pats = [[False] * n, [i < n // 2 for i in range(n)], [i % 2 == 0 for i in range(n)]] if vkind != "bool" else [[False] * n]
            for pat in pats:
                for mask in (None, ("bool", [i != 1 for i in range(n)]), ("bool", [i >= n // 2 for i in range(n)])):
                    for threads in (2, 3, 4):
                        for kkind in (("float", "two") if threads == 2 else ("float",)):
                            yield {"keys": keys, "kkind": kkind, "vkind": vkind, "nullpat": pat, "mask": mask, "sort": True, "threads": threads}


def _allnull_cases():
    """a group whose values are ALL null (every nullable value class, incl. integers in a nullable (Arrow-backed) container) next to ordinary groups: it keeps its label and reports the neutral result"""
    for keys, pat in (([0, 1, 0, 1, 2], [True, False, True, False, False]), ([1, 0, 1, 2, 2], [False, True, False, True, True])):
        for vkind in ("float", "intarrow", "datetime", "timedelta"):
            for kkind in ("float", "str"):
                for mask in (None, ("bool", [True, True, True, True, False])):
                    yield {"keys": keys, "kkind": kkind, "vkind": vkind, "nullpat": pat, "mask": mask, "sort": True}


def random_case(rnd, tier):
    n = rnd.randint(5, 64 if tier == "thorough" else 24)
    return {"keys": [rnd.choice([None, 0, 1, 2]) for _ in range(n)], "kkind": rnd.choice(KEY_KINDS), "vkind": rnd.choice(["float", "float", "int", "datetime"]),
            "nullpat": [rnd.random() < 0.3 for _ in range(n)], "sort": rnd.random() < 0.5,
            "mask": rnd.choice([None, ("bool", [rnd.random() < 0.6 for _ in range(n)]), ("slice", [rnd.randrange(-n, n), None, None]), ("pos", [rnd.randrange(0, n) for _ in range(rnd.randint(0, n))])])}


def nontrivial(case):
    ks = [k for k in case["keys"] if k is not None]
    return len(set(ks)) >= 2 or (None in case["keys"] and case["kkind"] != "int") or case["mask"] is not None or any(case["nullpat"])


def check_case(sess, case, ops=None):
    from groupby_lib.groupby import GroupBy
    kkind, vkind = case["kkind"], case["vkind"]; n = len(case["keys"])
    k, labs = make_keys(kkind, case["keys"])
    if vkind == "intarrow":          # signed integers with nulls: a pandas Series backed by an Arrow int64 array (a NumPy integer array cannot hold a null)
        import pyarrow as pa
        vals = [None if case["nullpat"][i] else int(((i * 5) % 7) - 3 + 10 * (i % 2)) for i in range(n)]
        v = pd.Series(pd.array(vals, dtype=pd.ArrowDtype(pa.int64())))
    else: v, vals = C.make_values(vkind, n, case["nullpat"])
    rows = C.selection_rows(case["mask"], n); m = C.np_mask(case["mask"]); calls = 0
    for op in ([case["op"]] if "op" in case else (ops or OPS)):
        if vkind == "datetime" and op == "sum": continue
        calls += 1
        c = dict(case, op=op); sess.current_case = c
        exp = {lab: C.reduce_rows(op, [vals[r] for r in rows if labs[r] == lab]) for lab in dict.fromkeys(labs[r] for r in rows if labs[r] is not None)}
        saved_prop = GroupBy.__dict__.get("_max_threads_for_numba")
        try:
            with contextlib.redirect_stdout(io.StringIO()):
                gb = GroupBy(k, sort=case["sort"])
                if case.get("threads"): GroupBy._max_threads_for_numba = property(lambda self, t=case["threads"]: t)
                got = gb.size(mask=m) if op == "size" else getattr(gb, op)(v, mask=m)
        except Exception as ex:
            GroupBy._max_threads_for_numba = saved_prop
            sess.record("raises", f"GroupBy.{op}", f"aligned inputs must not be rejected / must not fail: {type(ex).__name__}", str(ex)[:200]); continue
        GroupBy._max_threads_for_numba = saved_prop
        got_labels = [tuple(x) if isinstance(x, tuple) else x for x in got.index]
        exp_labels = [l for l in label_order(kkind, labs, case["sort"]) if l in exp]
        if got_labels != exp_labels:
            sess.record("post", f"GroupBy.{op}", "labels == labels with a selected row, in the requested order", {"got": str(got_labels), "expected": str(exp_labels)}); continue
        bad = []
        for l in exp:
            g, e = got[l], exp[l]
            if vkind == "bool" and e is None: e = False
            if op == "mean" and vkind in ("datetime", "timedelta") and e is not None and not C.is_null(g):
                gv, evv = (pd.Timestamp(g).value if vkind == "datetime" else pd.Timedelta(g).value), e.value
                if abs(gv - evv) <= max(2, abs(evv) * 2.0 ** -50): continue
            if not C.same(g, e): bad.append((l, g, e))
        if bad: sess.record("post", f"GroupBy.{op}", "value == reduction of the non-null values in the selected rows of the label", {"mismatch": [(str(a), str(b), str(c_)) for a, b, c_ in bad][:4]})
    return calls


def install(sess):
    """sidecar contracts on the real functions of the chain"""
    from .c04 import install as kernel_monitors
    kernel_monitors(sess)
