"""SPIKE: C01 (group reductions equal the per-group definition) — run-time contract tier on the real glue.

Contracts (sidecar, on the REAL functions):
  core.GroupBy._apply_gb_reduction   ensures  result == Spec (labels = labels with a selected row; per label the fold of the selected rows)
  numba._group_by_reduce             requires the kernel precondition under which it is proved (lengths, key < len(target), positions >= -n)
  numba._apply_group_method_single_chunk  ensures (target, count) == Fold on the logical arrays (intermediate contract of the chain)
Oracle: executable specification written from the property statement (pure Python over lists).
"""
import itertools, math, time, random, io, contextlib
import numpy as np, pandas as pd

OPS = ["size", "count", "sum", "mean", "min", "max", "first", "last"]
PROP = "C01"


# ----------------------------------------------------------------------------- executable specification
def spec_reduce(op, keys, vals, sel):
    out = {}
    labels = sorted({k for k, s in zip(keys, sel) if k is not None and s}, key=lambda x: (str(type(x)), x))
    for lab in labels:
        rows = [v for k, v, s in zip(keys, vals, sel) if k == lab and s]
        nn = [v for v in rows if v is not None]
        out[lab] = {"size": lambda: len(rows), "count": lambda: len(nn), "sum": lambda: sum(nn) if nn else 0,
                    "mean": lambda: (sum(nn) / len(nn)) if nn else None, "min": lambda: min(nn) if nn else None,
                    "max": lambda: max(nn) if nn else None, "first": lambda: nn[0] if nn else None, "last": lambda: nn[-1] if nn else None}[op]()
    return out


def is_null(x):
    return x is None or x is pd.NaT or (isinstance(x, float) and math.isnan(x)) or (isinstance(x, (np.datetime64, np.timedelta64)) and np.isnat(x))


def same(got, exp):
    if is_null(exp): return is_null(got) or (isinstance(got, (int, np.integer)) and int(got) == np.iinfo(np.int64).min)
    if is_null(got): return False
    if isinstance(exp, (pd.Timestamp, np.datetime64)): return pd.Timestamp(got) == pd.Timestamp(exp)
    return abs(float(got) - float(exp)) <= 1e-9 * max(1.0, abs(float(exp)))


def selection(mask, n):
    if mask is None: return [True] * n
    if mask[0] == "bool": return list(mask[1])
    if mask[0] == "slice":
        idx = range(n)[slice(*mask[1])]; return [i in idx for i in range(n)]
    raise ValueError(mask)


# ----------------------------------------------------------------------------- case space
def materialise(case):
    keys, nullpat, mask, kkind, vkind, sort = case["keys"], case["nullpat"], case["mask"], case["kkind"], case["vkind"], case["sort"]
    n = len(keys)
    if kkind == "float": k = np.array([np.nan if x is None else float(x) for x in keys]); labs = [None if x is None else float(x) for x in keys]
    elif kkind == "str": k = np.array([None if x is None else "abc"[x] for x in keys], dtype=object); labs = [None if x is None else "abc"[x] for x in keys]
    elif kkind == "int": k = np.array(keys, dtype=np.int64); labs = list(keys)
    else: raise ValueError(kkind)
    if vkind == "float":
        vals = [None if nullpat[i] else float(10 * (i + 1) + (3 - i)) for i in range(n)]; v = np.array([np.nan if x is None else x for x in vals])
    elif vkind == "int":
        vals = [7 * (i + 1) - 10 for i in range(n)]; v = np.array(vals, dtype=np.int64)
    elif vkind == "datetime":
        base = pd.Timestamp("2020-01-01"); vals = [None if nullpat[i] else base + pd.Timedelta(days=3 * i + 1, nanoseconds=i) for i in range(n)]
        v = np.array([np.datetime64("NaT") if x is None else np.datetime64(x, "ns") for x in vals], dtype="M8[ns]")
    else: raise ValueError(vkind)
    m = None
    if mask is not None: m = np.array(mask[1]) if mask[0] == "bool" else slice(*mask[1])
    return k, labs, v, vals, m, selection(mask, n)


def cases(N, tier):
    kv = [("float", "float"), ("int", "float"), ("str", "float"), ("float", "int")] + ([("float", "datetime")] if tier == "thorough" else [])
    for n in range(1, N + 1):
        for kkind, vkind in kv:
            alphabet = [0, 1, 2] if kkind == "int" else [None, 0, 1, 2]
            for keys in itertools.product(alphabet, repeat=n):
                pats = itertools.product([False, True], repeat=n) if vkind != "int" else [tuple([False] * n)]
                for nullpat in pats:
                    masks = [None] + [("bool", list(m)) for m in itertools.product([False, True], repeat=n)] + \
                            [("slice", s) for s in ((1, None, None), (None, -1, None), (-2, None, None))]
                    for mask in masks:
                        for sort in (True, False):
                            yield {"keys": list(keys), "nullpat": list(nullpat), "mask": mask, "kkind": kkind, "vkind": vkind, "sort": sort}


def nontrivial(case):
    ks = [k for k in case["keys"] if k is not None]
    return len(set(ks)) >= 2 or None in case["keys"] or case["mask"] is not None or any(case["nullpat"])


# ----------------------------------------------------------------------------- one case against the real code
def check_case(sess, case, ops=OPS):
    from groupby_lib.groupby import GroupBy
    k, labs, v, vals, m, sel = materialise(case)
    calls = 0
    for op in ops:
        if case["vkind"] == "datetime" and op == "sum": continue          # sums of timestamps are not meaningful
        calls += 1
        c = dict(case, op=op); sess.current_case = c
        exp = spec_reduce(op, labs, vals, sel)
        try:
            with contextlib.redirect_stdout(io.StringIO()):
                gb = GroupBy(k, sort=case["sort"])
                got = gb.size(mask=m) if op == "size" else getattr(gb, op)(v, mask=m)
        except Exception as ex:
            sess.record("raises", f"GroupBy.{op}", f"aligned inputs must not be rejected / must not fail: {type(ex).__name__}", str(ex)[:200]); continue
        got_labels = list(got.index)
        exp_labels = list(exp) if case["sort"] else [l for l in dict.fromkeys(x for x in labs if x is not None) if l in exp]
        if got_labels != exp_labels:
            sess.record("post", f"GroupBy.{op}", "labels == labels with a selected row, in the requested order", {"got": got_labels, "expected": exp_labels}); continue
        bad = [(l, got[l], exp[l]) for l in exp if not same(got[l], exp[l])]
        if bad: sess.record("post", f"GroupBy.{op}", "value == fold of the selected rows of the label", {"mismatch": [(str(a), str(b), str(c_)) for a, b, c_ in bad]})
    return calls


def install(sess):
    """sidecar contracts on the real functions of the chain"""
    def pre_gbr(group_key, values, target, reduce_func, indexer=None, check_in_bounds=True):
        n = len(group_key)
        if len(values) != n: return f"len(values)={len(values)} != len(group_key)={n}"
        if n and int(np.max(group_key)) >= len(target): return "group key >= len(target)"
        if indexer is not None and len(indexer) and int(np.min(indexer)) < -n: return "position < -n"
    sess.wrap("groupby_lib.groupby.numba", "_group_by_reduce", requires=pre_gbr)
    def post_single(out, reduce_func_name, group_key, values, ngroups, mask=None):
        target, count = out
        if len(target) != ngroups or len(count) != ngroups: return "target/count must have one slot per group"
        if (np.asarray(count) < 0).any(): return "negative count"
    sess.wrap("groupby_lib.groupby.numba", "_apply_group_method_single_chunk", ensures=post_single)


def worker(rank, nprocs, tier, seed, budget):
    from rtc.core import Session
    sess = Session(PROP); install(sess)
    N = 3 if tier == "quick" else 4
    t0 = time.time(); ncase = calls = nt = 0; samples = []; complete = True
    for i, case in enumerate(cases(N, tier)):
        if i % nprocs != rank: continue
        if time.time() - t0 > budget: complete = False; break
        ncase += 1; nt += nontrivial(case); calls += check_case(sess, case)
        if len(samples) < 2 and nontrivial(case): samples.append(case)
    # seeded random long cases beyond the exhaustive bound
    rnd = random.Random(seed * 1000 + rank); tlong = time.time()
    while time.time() - tlong < min(5.0, budget * 0.1):
        n = rnd.randint(N + 1, 24)
        case = {"keys": [rnd.choice([None, 0, 1, 2]) for _ in range(n)], "nullpat": [rnd.random() < 0.3 for _ in range(n)],
                "mask": rnd.choice([None, ("bool", [rnd.random() < 0.6 for _ in range(n)])]), "kkind": rnd.choice(["float", "str"]), "vkind": "float", "sort": rnd.random() < 0.5}
        ncase += 1; nt += 1; calls += check_case(sess, case)
    out = sess.export(); out.update(cases=ncase, calls=calls, distinct_nontrivial=nt, samples=samples, complete=complete,
                                    scope=f"exhaustive n<={N} over keys {{null,0,1,2}} x value-null patterns x masks(none, all boolean, 3 slices) x sort x kinds; random n<=24")
    return out


def replay(case):
    from rtc.core import Session
    sess = Session(PROP); install(sess)
    check_case(sess, {k: v for k, v in case.items() if k != "op"}, ops=[case["op"]] if "op" in case else OPS)
    return list(sess.findings.values())
