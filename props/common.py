"""Shared pieces of the bounded tier: executable specifications written from the property statements (pure Python over lists),
value/keys materialisation per dtype class, mask kinds, comparison of results, compositions of rows into blocks."""
import itertools, math
import numpy as np, pandas as pd

MIN_INT = np.iinfo(np.int64).min


# ----------------------------------------------------------------------------- nulls and comparison
def is_null(x):
    if x is None or x is pd.NaT: return True
    if isinstance(x, (float, np.floating)): return math.isnan(x)
    if isinstance(x, (np.datetime64, np.timedelta64)): return bool(np.isnat(x))
    try: return bool(pd.isna(x))
    except Exception: return False


def same(got, exp, rtol=1e-9, int_null=True):
    """exp is a spec value (None = null). got is what the library returned."""
    if is_null(exp):
        return is_null(got) or (int_null and isinstance(got, (int, np.integer)) and not isinstance(got, (bool, np.bool_)) and int(got) == MIN_INT)
    if is_null(got): return False
    if isinstance(got, (pd.Timedelta, np.timedelta64)) and isinstance(exp, (int, float)) and not isinstance(exp, bool): return pd.Timedelta(got).value == exp   # empty temporal sum: 0
    if isinstance(exp, (pd.Timestamp, np.datetime64)): return pd.Timestamp(got) == pd.Timestamp(exp)
    if isinstance(exp, (pd.Timedelta, np.timedelta64)): return pd.Timedelta(got) == pd.Timedelta(exp)
    if isinstance(exp, (bool, np.bool_)): return bool(got) == bool(exp)
    if isinstance(exp, (int, np.integer)) and isinstance(got, (int, np.integer)): return int(got) == int(exp)
    try: return abs(float(got) - float(exp)) <= rtol * max(1.0, abs(float(exp)))
    except Exception: return got == exp


# ----------------------------------------------------------------------------- value classes (position-tagged so that a misplaced row is visible)
VALUE_CLASSES = ("float", "int", "intnull", "bool", "datetime", "timedelta", "float32", "int32", "uint")

def make_values(vkind, n, nullpat=None):
    """-> (numpy array, list of logical values with None for null). nullpat[i] True = null (ignored for never-null classes)"""
    nullpat = nullpat or [False] * n
    if vkind in ("float", "float32"):
        vals = [None if nullpat[i] else float(((i * 7) % 5) * 1.5 - 2.0 + i * 0.25) for i in range(n)]
        return np.array([np.nan if x is None else x for x in vals], dtype=np.float64 if vkind == "float" else np.float32), vals
    if vkind in ("int", "int32"):
        vals = [int(((i * 5) % 7) - 3 + 10 * (i % 2)) for i in range(n)]
        return np.array(vals, dtype=np.int64 if vkind == "int" else np.int32), vals
    if vkind == "uint":
        vals = [int(((i * 5) % 7) + 1) for i in range(n)]
        return np.array(vals, dtype=np.uint64), vals
    if vkind == "intnull":       # int64 with the library's integer null (what temporal values become)
        vals = [None if nullpat[i] else int(((i * 5) % 7) - 3 + 2 ** 53 + 1) for i in range(n)]
        return np.array([MIN_INT if x is None else x for x in vals], dtype=np.int64), vals
    if vkind == "bool":
        vals = [bool((i * 3 + 1) % 2) if i % 3 else bool(i % 2) for i in range(n)]
        return np.array(vals, dtype=bool), vals
    if vkind == "datetime":
        # 1971: already beyond 2^53 ns (float64 would lose the nanoseconds) while the int64 SUM of up to ~290 such stamps still fits
        # (A-int64: sums/means of many modern timestamps overflow 64 bits - outside every property's claim, see DESIGN "observations")
        base = pd.Timestamp("1971-03-01")
        vals = [None if nullpat[i] else base + pd.Timedelta(days=(i * 5) % 7, nanoseconds=i + 1) for i in range(n)]
        return np.array([np.datetime64("NaT") if x is None else np.datetime64(x.value, "ns") for x in vals], dtype="M8[ns]"), vals
    if vkind == "timedelta":
        vals = [None if nullpat[i] else pd.Timedelta(hours=(i * 5) % 7 - 3, nanoseconds=i + 1) for i in range(n)]
        return np.array([np.timedelta64("NaT") if x is None else np.timedelta64(x.value, "ns") for x in vals], dtype="m8[ns]"), vals
    raise ValueError(vkind)


def nullable(vkind): return vkind in ("float", "float32", "intnull", "intarrow", "datetime", "timedelta")


def null_patterns(vkind, n):
    if not nullable(vkind): return [tuple([False] * n)]
    return list(itertools.product([False, True], repeat=n))


# ----------------------------------------------------------------------------- masks
def masks_for(n, kinds=("none", "bool", "slice", "pos"), pos_len=2):
    out = []
    if "none" in kinds: out.append(None)
    if "bool" in kinds: out += [("bool", list(m)) for m in itertools.product([False, True], repeat=n)]
    if "slice" in kinds:
        bounds = [None] + list(range(-n - 1, n + 2))
        seen = set()
        for a in bounds:
            for b in bounds:
                idx = tuple(range(n)[slice(a, b)])
                if (idx in seen) and not (a is not None and a < 0) and not (b is not None and b < 0): continue
                seen.add(idx); out.append(("slice", [a, b, None]))
    if "pos" in kinds and n:
        for L in range(0, pos_len + 1):
            out += [("pos", list(p)) for p in itertools.product(range(-n, n), repeat=L)]
    return out


def selection_rows(mask, n):
    """-> list of selected row positions, in selection order (array-indexing semantics: repeats count, negatives wrap)"""
    if mask is None: return list(range(n))
    if mask[0] == "bool": return [i for i, m in enumerate(mask[1]) if m]
    if mask[0] == "slice": return list(range(n)[slice(*mask[1])])
    if mask[0] == "pos": return [p if p >= 0 else p + n for p in mask[1]]
    raise ValueError(mask)


def np_mask(mask):
    if mask is None: return None
    if mask[0] == "bool": return np.array(mask[1], dtype=bool)
    if mask[0] == "slice": return slice(*mask[1])
    if mask[0] == "pos": return np.array(mask[1], dtype=np.int64)
    raise ValueError(mask)


# ----------------------------------------------------------------------------- specification of the reductions (from the statement of C01/C04)
def reduce_rows(op, rows):
    """rows: the values (None = null) of the selected rows of one group, in row order"""
    nn = [v for v in rows if v is not None]
    if op == "size": return len(rows)
    if op == "count": return len(nn)
    if op == "sum": return sum(nn[1:], nn[0]) if nn else 0
    if op == "sum_squares": return sum(float(v) ** 2 for v in nn) if nn else 0
    if op == "mean":
        if not nn: return None
        if isinstance(nn[0], pd.Timestamp): return pd.Timestamp(sum(v.value for v in nn) // len(nn)) if True else None
        if isinstance(nn[0], pd.Timedelta): return pd.Timedelta(sum(v.value for v in nn) // len(nn))
        return sum(nn) / len(nn)
    if op == "min": return min(nn) if nn else None
    if op == "max": return max(nn) if nn else None
    if op == "first": return nn[0] if nn else None
    if op == "last": return nn[-1] if nn else None
    raise ValueError(op)


def spec_group_reduce(op, codes, vals, rows_selected, ngroups):
    """per group code k in [0, ngroups): reduction over the selected rows with code k; negative codes ignored"""
    return [reduce_rows(op, [vals[r] for r in rows_selected if codes[r] == k]) for k in range(ngroups)]


def compositions(n, max_parts):
    """all ways to cut n rows into 1..max_parts consecutive blocks, as lists of block lengths (blocks may NOT be empty)"""
    out = []
    for parts in range(1, max_parts + 1):
        for cuts in itertools.combinations(range(1, n), parts - 1):
            b = [0] + list(cuts) + [n]; out.append([b[i + 1] - b[i] for i in range(parts)])
    return out


def roundrobin(*gens, weights=None):
    """interleave several case streams so that a time cap cuts all of them evenly instead of starving the later ones;
    weights[i] = how many cases stream i contributes per round (cheap streams get more)"""
    its = [(iter(g), (weights[i] if weights else 1)) for i, g in enumerate(gens)]
    while its:
        nxt = []
        for it, w in its:
            alive = True
            for _ in range(w):
                try: yield next(it)
                except StopIteration: alive = False; break
            if alive: nxt.append((it, w))
        its = nxt
