"""C17 - the pandas-style facade (obj.groupby_fast(...)) agrees with the core engine and with pandas.

S (structural, holds for all inputs because it is a statement about the text of groupby_lib/groupby/api.py, parsed with `ast`,
   never imported): for every public method of every *GroupBy* / *GroupByRolling* class of api.py
     delegates-values     every call into the core engine (self._grouper.<m>(...), self._groupby_obj._grouper.<m>(...), getattr(...)(...))
                          whose core method takes `values` receives self._values_to_group (never self._obj), after resolving simple
                          local assignments and the trivial properties (grouper/groups/ngroups)
     same-name            the core method called has the name of the facade method (documented mappings: rolling m -> rolling_<m>,
                          rolling agg(method_name) -> getattr(grouper, f"rolling_{method_name}"), agg -> same-named facade method |
                          core agg | core apply for callables)
     passes-arguments     every parameter of the facade method reaches every delegating call whose callee accepts it, unchanged
                          (keyword p=p, or positionally), parameters the core does not have are noted
     positional-binding   positional arguments bind to the core parameter of the same name; a *args never spills into a named core parameter
     no-values            size / cumcount: the core method takes no values, so nothing that is the grouped object may be passed
                          (a values object in the first slot would be read as the mask)
     positional-index     __iter__ applies the core's row POSITIONS with .iloc/.take, never .loc
     + constructors (rolling(), __getitem__), the rolling window state, the decorators' wrappers, _values_to_group.
B (bounded run-time contracts, not a proof): after install_groupby_fast(), on small Series/DataFrames
     facade result == GroupBy(keys).<method>(selected value columns)   for every facade method, with and without [] selection
     labels and numbers == obj.groupby(...) in pandas                  for sum/mean/min/max/count/size/std/var/first/last and, at rows
                                                                        holding a non-null value, cumsum/cummin/cummax/cumcount/rolling
     key columns are not aggregated, [] is honoured, cumcount counts from 0 whatever the values and keeps the index,
     iteration yields each label once with exactly that group's rows for any index.
Oracles: the core engine on keys/values built here from the case (not through the facade), pandas where the statement names it,
and direct specifications (cumcount, iteration, expected value columns).
"""
import ast, os, io, contextlib, itertools, random, math
import numpy as np, pandas as pd
from . import common as C

PROP = "C17"; LEVEL = "exploration"; P_TIER = False

# =====================================================================================================================
#                                                    S tier
# =====================================================================================================================
GROUPER_EXPRS = {"self._grouper", "self._groupby_obj._grouper", "self.grouper", "self._groupby_obj.grouper"}
VALUES_OK = {"self._values_to_group", "self._groupby_obj._values_to_group"}
VALUES_BAD = {"self._obj", "self._groupby_obj._obj"}
AGG_CORE_TARGETS = {"agg", "apply"}        # documented mapping of the facade's agg(): named facade method | core agg | core apply (callables)


def _sig(fn):
    a = fn.args
    pos = [x.arg for x in a.posonlyargs + a.args]
    return {"pos": pos[1:] if pos and pos[0] in ("self", "cls") else pos, "vararg": a.vararg.arg if a.vararg else None,
            "kwonly": [x.arg for x in a.kwonlyargs], "kwarg": a.kwarg.arg if a.kwarg else None}


def _decorator_names(fn):
    out = []
    for d in fn.decorator_list:
        d = d.func if isinstance(d, ast.Call) else d
        out.append(d.attr if isinstance(d, ast.Attribute) else getattr(d, "id", "?"))
    return out


def _core_signatures(path):
    """-> {method name: signature} of class GroupBy in core.py, {property names}"""
    tree = ast.parse(open(path).read()); sigs, props = {}, set()
    for cls in [n for n in tree.body if isinstance(n, ast.ClassDef) and n.name == "GroupBy"]:
        for n in cls.body:
            if isinstance(n, ast.FunctionDef):
                if {"property", "cached_property"} & set(_decorator_names(n)): props.add(n.name)
                else: sigs[n.name] = _sig(n)
            elif isinstance(n, ast.Assign) and isinstance(n.value, ast.Name) and n.value.id in sigs:
                for t in n.targets:
                    if isinstance(t, ast.Name): sigs[t.id] = sigs[n.value.id]
    return sigs, props


def _body_wo_doc(fn):
    b = fn.body
    return b[1:] if b and isinstance(b[0], ast.Expr) and isinstance(getattr(b[0], "value", None), ast.Constant) and isinstance(b[0].value.value, str) else b


class _Resolver:
    """tiny dataflow: names assigned exactly once (or always to the same text) by a simple `x = expr` are replaced by that expression;
    trivial properties of the class (`return self._grouper[.x]`) are unfolded"""
    def __init__(self, fn, aliases):
        cand = {}; bad = set()
        for n in ast.walk(fn):
            if isinstance(n, ast.Assign) and len(n.targets) == 1 and isinstance(n.targets[0], ast.Name): cand.setdefault(n.targets[0].id, []).append(n.value)
            elif isinstance(n, ast.AnnAssign) and isinstance(n.target, ast.Name) and n.value is not None: cand.setdefault(n.target.id, []).append(n.value)
            elif isinstance(n, (ast.AugAssign,)) and isinstance(n.target, ast.Name): bad.add(n.target.id)
            elif isinstance(n, (ast.For, ast.comprehension)):
                bad |= {x.id for x in ast.walk(n.target) if isinstance(x, ast.Name)}
            elif isinstance(n, ast.Assign):
                for t in n.targets: bad |= {x.id for x in ast.walk(t) if isinstance(x, ast.Name)}
            elif isinstance(n, (ast.With,)):
                for it in n.items:
                    if it.optional_vars is not None: bad |= {x.id for x in ast.walk(it.optional_vars) if isinstance(x, ast.Name)}
        params = set(_sig(fn)["pos"]) | set(_sig(fn)["kwonly"]) | {_sig(fn)["vararg"], _sig(fn)["kwarg"], "self", "cls"}
        self.env = {k: v[0] for k, v in cand.items() if k not in bad and k not in params and len({ast.unparse(x) for x in v}) == 1}
        self.aliases = aliases

    def node(self, e, depth=0):
        env, aliases, outer = self.env, self.aliases, self
        class T(ast.NodeTransformer):
            def visit_Name(self, n):
                if isinstance(n.ctx, ast.Load) and n.id in env and depth < 8: return outer.node(env[n.id], depth + 1)
                return n
            def visit_Attribute(self, n):
                n = self.generic_visit(n)
                if isinstance(n.value, ast.Name) and n.value.id == "self" and n.attr in aliases and depth < 8: return outer.node(aliases[n.attr], depth + 1)
                return n
        import copy
        return T().visit(copy.deepcopy(e))

    def text(self, e): return ast.unparse(self.node(e))


def _class_aliases(cls):
    """properties whose whole body is `return self._grouper` or `return self._grouper.<attr>`"""
    out = {}
    for n in cls.body:
        if isinstance(n, ast.FunctionDef) and {"property", "cached_property"} & set(_decorator_names(n)):
            b = _body_wo_doc(n)
            if len(b) == 1 and isinstance(b[0], ast.Return) and b[0].value is not None:
                t = ast.unparse(b[0].value)
                if t == "self._grouper" or (t.startswith("self._grouper.") and t.count(".") == 2): out[n.name] = b[0].value
    return out


def _mentions(R, e, targets):
    """does the (resolved) expression contain one of the target expressions as a sub-expression?"""
    r = R.node(e)
    return sorted({ast.unparse(x) for x in ast.walk(r) if isinstance(x, (ast.Attribute, ast.Name)) and ast.unparse(x) in targets})


def _dyn_name(R, e, params):
    """name expression of a getattr(): -> (kind, prefix, param) with kind in const|param|fparam|other"""
    e = R.node(e)
    if isinstance(e, ast.Constant) and isinstance(e.value, str): return ("const", e.value, None)
    if isinstance(e, ast.Name) and e.id in params: return ("param", "", e.id)
    if isinstance(e, ast.BinOp) and isinstance(e.op, ast.Add) and isinstance(e.left, ast.Constant) and isinstance(e.left.value, str) and isinstance(e.right, ast.Name) and e.right.id in params:
        return ("fparam", e.left.value, e.right.id)
    if isinstance(e, ast.JoinedStr):
        pre = ""; vals = list(e.values)
        while vals and isinstance(vals[0], ast.Constant): pre += str(vals.pop(0).value)
        if len(vals) == 1 and isinstance(vals[0], ast.FormattedValue) and isinstance(vals[0].value, ast.Name) and vals[0].value.id in params: return ("fparam", pre, vals[0].value.id)
    return ("other", ast.unparse(e), None)


def _delegations(fn, R, facade_methods, params):
    """-> (calls, reads): calls = [{kind: core|self, name|dyn, node}], reads = [core attribute names read without being called]"""
    calls, reads, funcs = [], [], set()
    def getattr_target(c):
        if isinstance(c, ast.Call) and isinstance(c.func, ast.Name) and c.func.id == "getattr" and len(c.args) >= 2:
            who = R.text(c.args[0])
            if who in GROUPER_EXPRS: return "core", _dyn_name(R, c.args[1], params)
            if who == "self": return "self", _dyn_name(R, c.args[1], params)
        return None
    for n in ast.walk(fn):
        if not isinstance(n, ast.Call): continue
        f = n.func
        if isinstance(f, ast.Attribute):
            who = R.text(f.value)
            if who in GROUPER_EXPRS: calls.append({"kind": "core", "name": f.attr, "node": n}); funcs.add(id(f)); continue
            if who == "self" and f.attr in facade_methods and not f.attr.startswith("_"): calls.append({"kind": "self", "name": f.attr, "node": n}); funcs.add(id(f)); continue
        tgt = getattr_target(R.node(f)) if not isinstance(f, ast.Attribute) else None
        if tgt is not None: calls.append({"kind": tgt[0], "dyn": tgt[1], "node": n})
    for n in ast.walk(fn):
        if isinstance(n, ast.Attribute) and id(n) not in funcs:
            if R.text(n.value) in GROUPER_EXPRS and not (isinstance(n.value, ast.Name)): reads.append(n.attr)
            elif isinstance(n.value, ast.Name) and n.value.id == "self" and n.attr in R.aliases:
                t = ast.unparse(R.aliases[n.attr])
                if t.count(".") == 2: reads.append(t.rsplit(".", 1)[1])
    return calls, reads


def _keywords(R, call):
    """keywords of a call with `**local` unfolded when the local is a dict(...) / {...} literal -> [ast.keyword]"""
    out = []
    for k in call.keywords:
        if k.arg is None:
            v = R.node(k.value)
            if isinstance(v, ast.Call) and isinstance(v.func, ast.Name) and v.func.id == "dict" and not v.args and all(x.arg for x in v.keywords): out += list(v.keywords); continue
            if isinstance(v, ast.Dict) and all(isinstance(x, ast.Constant) and isinstance(x.value, str) for x in v.keys): out += [ast.keyword(arg=x.value, value=y) for x, y in zip(v.keys, v.values)]; continue
        out.append(k)
    return out


def _bind(call, sig):
    """bind the positional arguments of a call node to a core signature -> ([(core param or '*', arg node)], problems)"""
    bound, problems = [], []
    pos = list(sig["pos"])
    for i, a in enumerate(call.args):
        if isinstance(a, ast.Starred):
            if i < len(pos): problems.append(f"*{ast.unparse(a.value)} starts filling the named core parameter `{pos[i]}`" + ("" if sig["vararg"] else " (core has no *args)"))
            elif not sig["vararg"]: problems.append(f"*{ast.unparse(a.value)} but the core method has no *args")
            bound.append(("*", a)); break
        if i < len(pos): bound.append((pos[i], a))
        elif sig["vararg"]: bound.append(("*", a))
        else: problems.append(f"too many positional arguments for core signature {pos}")
    return bound, problems


def _method_obligations(cname, fn, R, core_sigs, core_props, facade_methods, is_rolling, init_attr_params):
    """obligations of one public facade method"""
    rows = []; q = f"api.py::{cname}.{fn.name}"
    def row(kind, ok, detail): rows.append({"name": f"{q}::{kind}", "tier": "S", "ok": bool(ok), "detail": detail, "case": None})
    sig = _sig(fn); params = [p for p in sig["pos"] + sig["kwonly"]]; allp = set(params) | {sig["vararg"], sig["kwarg"]} - {None}
    is_prop = bool({"property", "cached_property"} & set(_decorator_names(fn)))
    calls, reads = _delegations(fn, R, facade_methods, allp)

    # ---- __iter__: positions from the core's `groups`, applied positionally
    if fn.name == "__iter__":
        row("iterates-core-groups", "groups" in reads, f"core attributes read: {sorted(set(reads))} (expected the core's group -> row positions mapping `groups`)")
        good, bad = [], []
        for n in ast.walk(fn):
            if isinstance(n, ast.Subscript):
                v = n.value
                if isinstance(v, ast.Attribute) and v.attr in ("iloc", "loc", "at", "iat") and R.text(v.value) in VALUES_OK | VALUES_BAD:
                    (good if v.attr in ("iloc", "iat") else bad).append(f"{ast.unparse(n)} (line {n.lineno})")
                elif R.text(v) in VALUES_OK | VALUES_BAD: bad.append(f"{ast.unparse(n)} (line {n.lineno}: label-based [] on the object)")
            if isinstance(n, ast.Call) and isinstance(n.func, ast.Attribute) and n.func.attr == "take" and R.text(n.func.value) in VALUES_OK | VALUES_BAD: good.append(ast.unparse(n))
        row("positional-index", bool(good) and not bad, f"the core's `groups` holds row POSITIONS: they must be applied with .iloc/.take; positional: {good}; label-based: {bad}")
        return rows
    # ---- attribute-style delegation (properties: groups, ngroups, grouper)
    if is_prop:
        b = _body_wo_doc(fn); ret = R.text(b[-1].value) if b and isinstance(b[-1], ast.Return) and b[-1].value is not None else None
        if fn.name == "grouper": row("returns-engine", ret == "self._grouper", f"returns {ret}; expected self._grouper")
        else: row("same-name", ret in {f"{g}.{fn.name}" for g in GROUPER_EXPRS} and fn.name in core_props | set(core_sigs), f"returns {ret}; expected the core attribute self._grouper.{fn.name}")
        return rows
    # ---- constructors of rolling objects (rolling())
    ctor = [n for n in ast.walk(fn) if isinstance(n, ast.Call) and isinstance(n.func, ast.Name) and n.func.id.endswith("Rolling")]
    if ctor and not calls:
        for c in ctor[:1]:
            passed = {R.text(a) for a in c.args} | {R.text(k.value) for k in c.keywords}
            missing = [p for p in ["self"] + params if p not in passed]
            bad_kw = [k.arg for k in c.keywords if k.arg is not None and R.text(k.value) in params and k.arg != R.text(k.value)]
            row("passes-arguments", not missing and not bad_kw, f"{ast.unparse(c)}: not passed: {missing}; passed under another name: {bad_kw}")
        return rows
    if not calls:
        row("delegates", False, f"public facade method makes no call into the core engine (self._grouper.*) and no call to another facade method")
        return rows

    core_calls = [c for c in calls if c["kind"] == "core"]; public_facade = {k: v for k, v in facade_methods.items() if not k.startswith("_")}
    def callee_names(c):
        """possible core/facade method names of a delegating call"""
        if "name" in c: return [c["name"]]
        kind, pre, p = c["dyn"]
        if kind == "const": return [pre]
        pool = core_sigs if c["kind"] == "core" else public_facade
        if kind == "param": return sorted(pool)
        if kind == "fparam": return sorted(m for m in pool if m.startswith(pre))
        return []
    def callee_sigs(c):
        pool = core_sigs if c["kind"] == "core" else public_facade
        return [pool[m] for m in callee_names(c) if m in pool]

    # ---- (1) values
    takes_values = lambda c: any(s["pos"][:1] == ["values"] for s in callee_sigs(c))
    vcalls = [c for c in core_calls if takes_values(c)]; nvcalls = [c for c in core_calls if not takes_values(c)]
    if vcalls:
        bad = []
        for c in vcalls:
            n = c["node"]; kw = {k.arg: k.value for k in _keywords(R, n) if k.arg}
            first = n.args[0] if n.args and not isinstance(n.args[0], ast.Starred) else kw.get("values")
            t = R.text(first) if first is not None else None
            if t not in VALUES_OK: bad.append(f"line {n.lineno}: values argument is `{t}`")
        row("delegates-values", not bad, "every core call that takes values must receive self._values_to_group (the selected, non-key columns), never self._obj" + (": " + "; ".join(bad) if bad else f" ({len(vcalls)} call(s))"))
    if nvcalls:
        bad = []
        for c in nvcalls:
            n = c["node"]
            for a in list(n.args) + [k.value for k in _keywords(R, n)]:
                m = _mentions(R, a.value if isinstance(a, ast.Starred) else a, VALUES_OK | VALUES_BAD)
                if m: bad.append(f"line {n.lineno}: {ast.unparse(n)} passes {m}")
        row("no-values", not bad, f"core {sorted({x for c in nvcalls for x in callee_names(c)})[:4]} take no values (first parameter is the mask): the grouped object must not be passed" + (": " + "; ".join(bad) if bad else ""))
    # facade self-calls must not smuggle the raw object either
    # ---- (2) same name
    bad = []
    for c in calls:
        n = c["node"]
        if "name" in c:
            if c["kind"] == "core":
                want = {f"rolling_{fn.name}"} if is_rolling else ({fn.name} | (AGG_CORE_TARGETS if fn.name in ("agg", "aggregate") else set()))
                if c["name"] not in want: bad.append(f"line {n.lineno}: calls core `{c['name']}`, expected {sorted(want)}")
                elif c["name"] not in core_sigs: bad.append(f"line {n.lineno}: core GroupBy has no method `{c['name']}`")
            else:   # facade self call: name must be carried as a constant first argument equal to this method's name (rolling sum -> self.agg("sum"))
                a0 = R.node(n.args[0]) if n.args else None
                if not (isinstance(a0, ast.Constant) and a0.value == fn.name): bad.append(f"line {n.lineno}: self.{c['name']}({ast.unparse(a0) if a0 is not None else ''}...) does not name `{fn.name}`")
        else:
            kind, pre, p = c["dyn"]
            if kind == "const":
                want = f"rolling_{fn.name}" if (is_rolling and c["kind"] == "core") else fn.name
                if pre != want: bad.append(f"line {n.lineno}: getattr(..., {pre!r}), expected {want!r}")
            elif kind == "fparam":
                if not (is_rolling and pre == "rolling_" and c["kind"] == "core"): bad.append(f"line {n.lineno}: dynamic core name f'{pre}{{{p}}}' is not the documented rolling_<method_name> mapping")
            elif kind == "param":
                if not (fn.name in ("agg", "aggregate") and c["kind"] == "self"): bad.append(f"line {n.lineno}: dynamic method name from parameter `{p}` outside agg()")
            else: bad.append(f"line {n.lineno}: cannot resolve the delegated method name `{pre}`")
    row("same-name", not bad, "the core method called is the one the facade method is named after" + (": " + "; ".join(bad) if bad else f" ({len(calls)} delegating call(s))"))
    # ---- (3) every parameter of the facade method reaches every delegating call that accepts it, unchanged
    bad, notes = [], []
    name_params = {c["dyn"][2] for c in calls if "dyn" in c and c["dyn"][2]}
    for p in params + [x for x in (sig["vararg"], sig["kwarg"]) if x]:
        if p in name_params: continue                       # consumed as the delegated method's name
        accepted_somewhere = False
        for c in calls:
            n = c["node"]; sigs_ = callee_sigs(c)
            if p == sig["vararg"]: accepts = any(s["vararg"] for s in sigs_) or not sigs_
            elif p == sig["kwarg"]: accepts = any(s["kwarg"] for s in sigs_) or not sigs_
            else: accepts = any(p in s["pos"] + s["kwonly"] for s in sigs_)
            how = None
            for a in n.args:
                if isinstance(a, ast.Starred):
                    if p == sig["vararg"] and R.text(a.value) == p: how = "star"
                elif R.text(a) == p: how = "pos"
            for k in _keywords(R, n):
                t = R.text(k.value)
                if k.arg is None:
                    if p == sig["kwarg"] and t == p: how = "dstar"
                elif t == p: how = "kw" if k.arg == p else f"renamed:{k.arg}"
                elif k.arg == p: how = f"changed:{t}"
            if how and how.startswith("renamed") and not accepts: how = "pos"     # e.g. func -> agg_func=func: a rename the core dictates
            if how and (how.startswith("changed") or how.startswith("renamed")): bad.append(f"line {n.lineno}: `{p}` is passed as {how}")
            elif how is None and accepts:
                if p in _none_guarded(fn, n): continue       # the call sits under `if <p> is None:` - leaving the argument out passes the same value (the default None)
                bad.append(f"line {n.lineno}: `{p}` is accepted by the callee but not passed in {ast.unparse(n.func)}(...)")
            accepted_somewhere |= bool(how) or accepts
        if not accepted_somewhere: notes.append(p)
    row("passes-arguments", not bad, "the caller's arguments reach the delegated call unchanged" + (": " + "; ".join(bad) if bad else "") +
        (f"; accepted by the facade but the core method has no such parameter (not forwarded): {notes}" if notes else ""))
    # ---- (4) positional binding against the core signature
    bad = []
    for c in core_calls:
        if "name" not in c or c["name"] not in core_sigs: continue
        n = c["node"]; s = core_sigs[c["name"]]; bound, problems = _bind(n, s); bad += [f"line {n.lineno}: {x}" for x in problems]
        for cp, a in bound:
            t = R.text(a.value if isinstance(a, ast.Starred) else a)
            if cp != "*" and t in params and t != cp and t in s["pos"] + s["kwonly"]: bad.append(f"line {n.lineno}: facade parameter `{t}` lands in core parameter `{cp}`")
            if cp != "*" and cp != "values" and t in VALUES_OK | VALUES_BAD: bad.append(f"line {n.lineno}: the grouped object lands in core parameter `{cp}`")
        for k in _keywords(R, n):
            if k.arg is not None and k.arg not in s["pos"] + s["kwonly"] and not s["kwarg"]: bad.append(f"line {n.lineno}: keyword `{k.arg}` is not a parameter of core `{c['name']}`")
    if core_calls and any("name" in c for c in core_calls):
        row("positional-binding", not bad, "positional arguments bind to the intended core parameters" + (": " + "; ".join(bad) if bad else ""))
    # ---- (5) rolling window state: window / min_periods come from what __init__ stored
    if is_rolling and core_calls:
        bad = []
        for c in core_calls:
            n = c["node"]; kw = {k.arg: R.text(k.value) for k in _keywords(R, n) if k.arg}
            want = sorted({p for s in callee_sigs(c) for p in s["pos"] + s["kwonly"]} & set(init_attr_params.get("__params__", [])))
            for p in want:
                src = kw.get(p)
                attr = src.split(".", 1)[1] if src and src.startswith("self.") else None
                if attr is None or p not in init_attr_params.get(attr, set()): bad.append(f"line {n.lineno}: core parameter `{p}` receives `{src}`, expected the attribute __init__ stored `{p}` in")
        row("passes-window", not bad, "window / min_periods given to rolling() reach the core call through the attributes __init__ stored them in" + (": " + "; ".join(bad) if bad else ""))
    return rows


def _none_guarded(fn, call):
    """parameters known to be None at `call`: names p such that the call lies in the body of an enclosing `if p is None:` (or the else of `if p is not None:`)"""
    out = set()
    def walk(stmts, known):
        for st in stmts:
            if any(x is call for x in ast.walk(st)):
                if isinstance(st, ast.If) and isinstance(st.test, ast.Compare) and len(st.test.ops) == 1 and isinstance(st.test.left, ast.Name) \
                        and isinstance(st.test.comparators[0], ast.Constant) and st.test.comparators[0].value is None:
                    nm = st.test.left.id
                    in_body = any(x is call for b in st.body for x in ast.walk(b))
                    if isinstance(st.test.ops[0], ast.Is) and in_body: known = known | {nm}
                    if isinstance(st.test.ops[0], ast.IsNot) and not in_body: known = known | {nm}
                    walk(st.body if in_body else st.orelse, known); return
                for fld in ("body", "orelse", "finalbody"):
                    sub = getattr(st, fld, None)
                    if isinstance(sub, list) and any(x is call for b in sub for x in ast.walk(b)): walk(sub, known); return
                out.update(known); return
    walk(fn.body, set())
    return out


def static_obligations(repo, tier):
    path = os.path.join(repo, "groupby_lib", "groupby", "api.py")
    tree = ast.parse(open(path).read())
    core_sigs, core_props = _core_signatures(os.path.join(repo, "groupby_lib", "groupby", "core.py"))
    classes = {n.name: n for n in tree.body if isinstance(n, ast.ClassDef)}
    def mro(cname, seen=()):
        out = [cname]
        for b in classes[cname].bases:
            bn = b.id if isinstance(b, ast.Name) else None
            if bn in classes and bn not in seen: out += mro(bn, seen + (cname,))
        return out
    rows = []
    def row(name, ok, detail): rows.append({"name": name, "tier": "S", "ok": bool(ok), "detail": detail, "case": None})
    facade = [c for c in classes if "GroupBy" in c]
    row("api.py::facade-classes", {"BaseGroupBy", "BaseGroupByRolling"} <= set(facade), f"classes found: {sorted(facade)}")
    used_decorators = {}
    for cname in facade:
        cls = classes[cname]; is_rolling = any("Rolling" in m for m in mro(cname))
        aliases = {}
        for m in reversed(mro(cname)): aliases.update(_class_aliases(classes[m]))
        facade_methods = {}
        for m in reversed(mro(cname)):
            for n in classes[m].body:
                if isinstance(n, ast.FunctionDef) and not ({"property", "cached_property"} & set(_decorator_names(n))): facade_methods[n.name] = _sig(n)
        # what __init__ stores (rolling window state)
        init_attr_params = {}
        for m in mro(cname):
            ini = next((n for n in classes[m].body if isinstance(n, ast.FunctionDef) and n.name == "__init__"), None)
            if ini is not None:
                ps = set(_sig(ini)["pos"]); init_attr_params["__params__"] = sorted(ps)
                for n in ast.walk(ini):
                    if isinstance(n, ast.Assign) and len(n.targets) == 1 and isinstance(n.targets[0], ast.Attribute) and isinstance(n.targets[0].value, ast.Name) and n.targets[0].value.id == "self":
                        init_attr_params[n.targets[0].attr] = {x.id for x in ast.walk(n.value) if isinstance(x, ast.Name)} & ps
                break
        for fn in cls.body:
            if not isinstance(fn, ast.FunctionDef): continue
            decs = _decorator_names(fn)
            for d in decs:
                if d not in ("property", "cached_property", "abstractmethod", "classmethod", "staticmethod", "wraps"): used_decorators.setdefault(d, []).append((cname, fn))
            R = _Resolver(fn, aliases if fn.name not in aliases else {k: v for k, v in aliases.items() if k != fn.name})
            if fn.name == "__init__" and is_rolling:
                ps = _sig(fn)["pos"]; stored = set().union(*[v for k, v in init_attr_params.items() if k != "__params__"]) if len(init_attr_params) > 1 else set()
                row(f"api.py::{cname}.__init__::stores-arguments", set(ps) <= stored, f"parameters {ps}; stored on self: {sorted(stored)}")
                # a given (non-None) argument is stored UNCHANGED: the stored expression is evaluated (the real expression, compiled from the AST) for every
                # combination of small argument values incl. None and 0; only None may be replaced by a default
                import itertools as _it
                bad = []; dom = (None, 0, 1, 2, 3)
                for n in ast.walk(fn):
                    if not (isinstance(n, ast.Assign) and len(n.targets) == 1 and isinstance(n.targets[0], ast.Attribute) and isinstance(n.targets[0].value, ast.Name) and n.targets[0].value.id == "self"): continue
                    names = {x.id for x in ast.walk(n.value) if isinstance(x, ast.Name)}; own = n.targets[0].attr.lstrip("_")
                    if own not in ps or not names or not names <= set(ps): continue
                    code = compile(ast.Expression(n.value), "<init>", "eval"); used = sorted(names)
                    for combo in _it.product(dom, repeat=len(used)):
                        env = dict(zip(used, combo))
                        if env[own] is None: continue
                        try: val = eval(code, {"__builtins__": {}}, env)
                        except Exception as ex: val = f"raises {type(ex).__name__}"
                        if val is not env[own] and val != env[own] or type(val) is not type(env[own]):
                            bad.append(f"self.{n.targets[0].attr} = {ast.unparse(n.value)} stores {val!r} for {env}"); break
                row(f"api.py::{cname}.__init__::stores-unchanged", not bad, "every given argument (incl. 0) is stored unchanged; only None is defaulted" + (": " + "; ".join(bad) if bad else ""))
                continue
            if fn.name == "__getitem__":
                ctor = [n for n in ast.walk(fn) if isinstance(n, ast.Call) and isinstance(n.func, ast.Name) and n.func.id in classes]
                badg = [ast.unparse(c)[:80] for c in ctor if "self._grouper" not in {R.text(a) for a in c.args} | {R.text(k.value) for k in c.keywords}]
                row(f"api.py::{cname}.__getitem__::same-grouper", ctor and not badg, f"{len(ctor)} constructor call(s); without self._grouper: {badg}")
                p = (_sig(fn)["pos"] or ["key"])[0]
                bads = [ast.unparse(c)[:80] for c in ctor if not any(p in {x.id for x in ast.walk(R.node(a)) if isinstance(x, ast.Name)} for a in list(c.args) + [k.value for k in c.keywords])]
                row(f"api.py::{cname}.__getitem__::selection-recorded", ctor and not bads, f"every sub-object is built from the selection `{p}`; without it: {bads}")
                continue
            if fn.name == "_values_to_group" and "abstractmethod" not in decs:
                b = _body_wo_doc(fn); ret = R.node(b[-1].value) if b and isinstance(b[-1], ast.Return) and b[-1].value is not None else None
                t = ast.unparse(ret) if ret is not None else None
                if "DataFrame" in cname:
                    row(f"api.py::{cname}._values_to_group::selected-columns", ret is not None and t not in VALUES_BAD and "self.value_columns" in {ast.unparse(x) for x in ast.walk(ret)},
                        f"returns `{(t or '')[:100]}`; expected an expression over self.value_columns (the selected, non-key columns), not the whole object")
                else:
                    row(f"api.py::{cname}._values_to_group::is-the-series", t == "self._obj", f"returns `{t}`; a Series group-by has exactly one values object")
                continue
            if fn.name.startswith("_") and fn.name != "__iter__": continue
            if {"classmethod", "staticmethod"} & set(decs): continue
            rows += _method_obligations(cname, fn, R, core_sigs, core_props, facade_methods, is_rolling, init_attr_params)
    # decorators wrapped around facade methods must forward everything
    top = {n.name: n for n in tree.body if isinstance(n, ast.FunctionDef)}
    for d, uses in sorted(used_decorators.items()):
        if d not in top: row(f"api.py::decorator.{d}::forwards", False, "decorator is not defined in api.py (cannot see whether it forwards the arguments)"); continue
        inner = [n for n in ast.walk(top[d]) if isinstance(n, ast.FunctionDef) and n is not top[d] and any(isinstance(c, ast.Call) and isinstance(c.func, ast.Name) and c.func.id == "func" for c in ast.walk(n)) and not any(isinstance(x, ast.FunctionDef) and x is not n for x in ast.walk(n))]
        ok = bool(inner); det = []
        for w in inner:
            s = _sig(w); wp = (["self"] if [a.arg for a in w.args.args][:1] == ["self"] else []) + s["pos"]
            for c in [c for c in ast.walk(w) if isinstance(c, ast.Call) and isinstance(c.func, ast.Name) and c.func.id == "func"]:
                passed = [ast.unparse(a) for a in c.args] + [("**" + ast.unparse(k.value)) if k.arg is None else f"{k.arg}={ast.unparse(k.value)}" for k in c.keywords]
                want = wp + ([f"*{s['vararg']}"] if s["vararg"] else []) + ([f"**{s['kwarg']}"] if s["kwarg"] else [])
                if passed != want: ok = False; det.append(f"wrapper({', '.join(want)}) calls func({', '.join(passed)})")
            if not any(isinstance(r, ast.Return) and isinstance(r.value, ast.Call) and getattr(r.value.func, "id", None) == "func" for r in ast.walk(w)): ok = False; det.append("wrapper does not return func(...)")
            if not s["vararg"] or not s["kwarg"]:
                narrow = [f"{c}.{f.name}" for c, f in uses if set(_sig(f)["pos"] + _sig(f)["kwonly"]) - set(s["pos"])]
                if narrow: ok = False; det.append(f"wrapper takes only {wp} but decorates methods with more parameters: {narrow}")
        row(f"api.py::decorator.{d}::forwards", ok, f"used on {len(uses)} method(s); " + ("; ".join(det) if det else "wrapper returns func(<all its own parameters>)"))
    return rows


# =====================================================================================================================
#                                                    B tier
# =====================================================================================================================
SCOPE = {"quick": "Series/DataFrames with 1..4 rows (designed cases and random cases up to 6). (1) configuration sweep: every (object kind, key specification, index kind, [] selection, method group) "
                  "combination with seeded data draws (n=3 and n=4; the full reduction group once, at n=4): key specifications column / [column] / two columns / array / Series / column+array / "
                  "array+array / Series+array / level name / level number / two levels / index-level name in by (first and second level) / column+level / array+level / named flat index; index kinds "
                  "default, reversed, duplicate labels, strings, gapped integers, MultiIndex; selections none, 'a', ['a'], ['b','a'], attribute access .b; key labels float(with NaN)/str(with None)/int; "
                  "values float64 with NaN, int64, and (Series) datetime64[ns] with NaT. (2) data sweep on rotating non-default configurations: every key sequence over {null,0,1} x every value "
                  "pattern over {negative,zero,positive,null} for n<=3 for the cumulative group, and for the rolling and pandas-comparable reduction groups n<=2 plus at n=3 the patterns with a null or "
                  "without a zero. (3) seeded random cases. Methods: sum mean min max count size std var(ddof 0/1) first last median quantile agg(name|callable) apply nth head tail cumsum cummin "
                  "cummax cumcount ema rolling(2,1)/(2)/(3,2)/(2,0).sum/mean/min/max/agg, mask/margins/ddof/q/halflife/index_by_groups passed through, iteration, groups, ngroups. "
                  "S tier: every public method of the six facade classes of api.py (115 obligations on the pinned text)",
         "thorough": "as quick with the data sweep complete up to n<=4 (all key sequences x all value patterns) for the three groups, four data draws per configuration (n=2..5), random cases up to 10 rows"}
RULE = ("a case = (object kind, rows, index kind, key specification, key label kind, key sequence(s), value pattern, [] selection, method group); distinct = distinct canonical JSON; "
        "non-trivial = at least two rows and (two labels or a null key or a null/zero/negative value or a non-default index or a selection)")
ASSUMPTIONS = ["pandas groupby (sort=True, dropna=True defaults) is the reference the property names for the null-skipping operations; its results are compared as labels + numbers (rtol 1e-9), not dtypes or index names",
               "the core engine GroupBy is the reference for 'what the core grouping returns' (its own correctness is C01-C16); it is called on keys and value columns built from the case, not through the facade",
               "the library's integer null (-2^63) in an int64 result counts as null when compared with a pandas NaN",
               "S tier: the text of api.py/core.py is what gets imported (no monkeypatching of the facade classes elsewhere)",
               "BOUNDED: the facade's by/level resolution, __getitem__, __iter__ and the agreement with pandas are checked only within the stated scope"]
REQUIRED_CONTRACTS = {"api.DataFrameGroupBy._from_by_keys": 1, "api.SeriesGroupBy._from_by_keys": 1, "api.DataFrameGroupBy.__getitem__": 1, "oracle.core": 1, "oracle.pandas": 1, "oracle.spec": 1}
EXPLANATION = ("Delegation is a statement about program text and is decided structurally (S) on the AST of the real api.py for every public facade method: values argument, method name, "
               "argument pass-through. What the text cannot show - resolution of by/level into key arrays and value columns, [] selection, iteration over positions, agreement of numbers "
               "and labels with pandas - is decided by run-time contracts on the real facade over a bounded scope (bounded, not proved).")
BUDGET = {"quick": 90, "thorough": 500}

B_INT = [-3, 0, 7, -12, 5, 9, -1, 4, 11, -6, 2, 8]
INDEX_KINDS = ("default", "reversed", "dup", "str", "gap", "multi")
FRAME_SPECS_FREE = ("col", "collist", "cols", "arr", "series", "col+arr", "arr+arr", "series_colname")            # any index kind; series_colname: a key Series that merely CARRIES the name of a value column (df["b"] // 10)
FRAME_SPECS_LEVEL = ("level", "levelnum", "levels", "by_levelname", "by_levelname1", "col+level", "arr+level", "flatlevel", "by_flatname")   # the index carries the keys
SERIES_SPECS_FREE = ("arr", "series", "arr+arr", "series+arr")
SERIES_SPECS_LEVEL = ("level", "levelnum", "levels", "arr+level", "flatlevel")
SELECTIONS = (None, "a", ["a"], ["b", "a"], "attr:b")
MGROUPS = ("reduce", "cum", "roll", "select")
TWO_KEY = {"cols", "col+arr", "arr+arr", "levels", "col+level", "arr+level", "series+arr"}


def _mask_for(n): return np.array([i != 1 for i in range(n)], dtype=bool)


def _labels(kind, codes):
    if kind == "float": return [None if c is None else float(c) + 0.5 for c in codes]
    if kind == "str": return [None if c is None else "pqr"[c] for c in codes]
    if kind == "int": return [9 if c is None else 5 - c for c in codes]          # no null among ints; descending labels so that code order != label order
    if kind == "int2": return [None if c is None else 10 + c for c in codes]
    raise ValueError(kind)


def _arr(kind, labs):
    if kind == "float": return np.array([np.nan if x is None else x for x in labs], dtype=float)
    if kind == "str": return np.array(labs, dtype=object)
    if kind == "int": return np.array(labs, dtype=np.int64)
    if kind == "int2": return np.array([np.nan if x is None else x for x in labs], dtype=float) if None in labs else np.array(labs, dtype=np.int64)
    raise ValueError(kind)


def _index(kind, n):
    if kind == "default": return pd.RangeIndex(n)
    if kind == "reversed": return pd.Index([n - 1 - i for i in range(n)])
    if kind == "dup": return pd.Index([i // 2 for i in range(n)])
    if kind == "str": return pd.Index([f"r{(n - i) % 10}{i}" for i in range(n)])
    if kind == "gap": return pd.Index([10 * (n - i) for i in range(n)])
    if kind == "multi": return pd.MultiIndex.from_arrays([["y" if i % 2 else "x" for i in range(n)], [(n - 1 - i) // 2 for i in range(n)]], names=["m0", "m1"])
    raise ValueError(kind)


def _a_values(vpat): return [{"-": -(i + 1) * 1.5, "0": 0.0, "+": (i + 1) * 2.25, "x": np.nan}[ch] for i, ch in enumerate(vpat)]


class World:
    """everything a case denotes, built from the case alone (never through the facade)"""
    def __init__(self, case):
        self.case = case; n = self.n = case["n"]; spec = self.spec = case["keyspec"]; kk = case["kkind"]
        k1 = list(case["keys"]); k2 = list(case.get("keys2") or [i % 2 for i in range(n)])
        self.two = spec in TWO_KEY
        lab1 = _labels(kk, k1); lab2 = _labels("int2", k2)
        a1, a2 = _arr(kk, lab1), _arr("int2", lab2)
        if spec in ("levelnum", "by_levelname1"): lab2, a2 = lab1, a1                          # level=1 -> the keys live in the second level
        levelish = spec in FRAME_SPECS_LEVEL or spec in SERIES_SPECS_LEVEL
        if spec in ("flatlevel", "by_flatname"): idx = pd.Index(a1, name="l0")
        elif spec in ("levelnum", "by_levelname1"): idx = pd.MultiIndex.from_arrays([[f"u{i % 2}" for i in range(n)], a2], names=["l0", "l1"])
        elif levelish: idx = pd.MultiIndex.from_arrays([a1, a2], names=["l0", "l1"])
        else: idx = _index(case["index"], n)
        self.index = idx
        a = _a_values(case["vpat"]); b = B_INT[:n]
        usecol1 = spec in ("col", "collist", "cols", "col+arr", "col+level"); usecol2 = spec == "cols"
        if case["obj"] == "frame":
            cols = {"a": np.array(a, dtype=float)}
            if usecol1: cols["k"] = a1
            cols["b"] = np.array(b, dtype=np.int64)
            if usecol2: cols["k2"] = a2
            self.obj = pd.DataFrame(cols, index=idx)
            self.keycols = [c for c in ("k", "k2") if c in cols]
            self.vcols = [c for c in self.obj.columns if c not in self.keycols]
        else:
            sc = case.get("scol", "a")
            if sc == "d":      # datetime64[ns] beyond 2^53 ns, NaT where the pattern says null
                base = pd.Timestamp("1971-03-01").value
                data = np.array([np.datetime64("NaT") if ch == "x" else np.datetime64(base + ((i * 5) % 7) * 86_400_000_000_000 + i + 1, "ns") for i, ch in enumerate(case["vpat"])], dtype="M8[ns]")
            else: data = np.array(a, dtype=float) if sc == "a" else np.array(b, dtype=np.int64)
            self.obj = pd.Series(data, index=idx, name=sc)
            self.keycols = []; self.vcols = None
        obj = self.obj
        ser = lambda: pd.Series(a1, index=idx, name="ks")
        lv = lambda arr, name: pd.Index(arr, name=name)
        # facade arguments | core keys (built here) | pandas arguments (pandas refuses by+level together: the equivalent list form is used) | positional pandas keys (rolling)
        if spec == "col": fa, ck, pa = dict(by="k"), [obj["k"]], dict(by="k")
        elif spec == "collist": fa, ck, pa = dict(by=["k"]), [obj["k"]], dict(by=["k"])
        elif spec == "cols": fa, ck, pa = dict(by=["k", "k2"]), [obj["k"], obj["k2"]], dict(by=["k", "k2"])
        elif spec == "arr": fa, ck, pa = dict(by=a1), [a1], dict(by=a1)
        elif spec == "series": fa, ck, pa = dict(by=ser()), [ser()], dict(by=ser())
        elif spec == "series_colname":
            nk = lambda: pd.Series(a1, index=idx, name="b")      # not the column: the column "b" stays a value column (pandas and the core aggregate it)
            fa, ck, pa = dict(by=nk()), [nk()], dict(by=nk())
        elif spec == "col+arr": fa, ck, pa = dict(by=["k", a2]), [obj["k"], a2], dict(by=["k", a2])
        elif spec == "arr+arr": fa, ck, pa = dict(by=[a1, a2]), [a1, a2], dict(by=[a1, a2])
        elif spec == "series+arr": fa, ck, pa = dict(by=[ser(), a2]), [ser(), a2], dict(by=[ser(), a2])
        elif spec in ("level", "flatlevel"): fa, ck, pa = dict(level="l0"), [lv(a1, "l0")], dict(level="l0")
        elif spec == "levelnum": fa, ck, pa = dict(level=1), [lv(a2, "l1")], dict(level=1)
        elif spec == "levels": fa, ck, pa = dict(level=["l0", "l1"]), [lv(a1, "l0"), lv(a2, "l1")], dict(level=["l0", "l1"])
        elif spec in ("by_levelname", "by_flatname"): fa, ck, pa = dict(by="l0"), [lv(a1, "l0")], dict(by="l0")
        elif spec == "by_levelname1": fa, ck, pa = dict(by="l1"), [lv(a2, "l1")], dict(by="l1")
        elif spec == "col+level": fa, ck, pa = dict(by="k", level="l1"), [obj["k"], lv(a2, "l1")], dict(by=["k", lv(a2, "l1")])
        elif spec == "arr+level": fa, ck, pa = dict(by=a1, level="l1"), [a1, lv(a2, "l1")], dict(by=[a1, lv(a2, "l1")])
        else: raise ValueError(spec)
        self.fa, self.core_keys, self.pa = fa, ck, pa
        self.pos_keys = [("k" if (usecol1 and i == 0) else "k2" if (usecol2 and i == 1) else np.asarray(x)) for i, x in enumerate(ck)]     # for pandas on the position-indexed copy
        used1 = lab2 if spec in ("levelnum", "by_levelname1") else lab1
        self.labels = [(None if (x is None or y is None) else (x, y)) for x, y in zip(lab1, lab2)] if self.two else list(used1)
        self.sel = case.get("sel") if case["obj"] == "frame" else None

    # selected value columns as the statement means them
    def selected(self):
        s = self.sel
        if self.case["obj"] == "series": return self.obj
        if s is None: return self.obj[self.vcols]
        if isinstance(s, str): return self.obj[s.split(":")[-1]]
        return self.obj[list(s)]

    def facade(self):
        g = self.obj.groupby_fast(**self.fa); s = self.sel
        if s is None: return g
        if isinstance(s, str): return getattr(g, s[5:]) if s.startswith("attr:") else g[s]
        return g[list(s)]

    def pandas(self, positional=False):
        s = self.sel
        if positional:
            g = self.obj.reset_index(drop=True).groupby(by=list(self.pos_keys) if len(self.pos_keys) > 1 else self.pos_keys[0])
        else: g = self.obj.groupby(**self.pa)
        if s is None: return g
        if isinstance(s, str): return g[s.split(":")[-1]]
        return g[list(s)]


# ----------------------------------------------------------------------------- comparison helpers
def _isnull(x, int_null=True):
    if C.is_null(x): return True
    return int_null and isinstance(x, (int, np.integer)) and not isinstance(x, (bool, np.bool_)) and int(x) == C.MIN_INT


def _num_eq(f, p):
    fn, pn = _isnull(f), _isnull(p, False)
    if fn or pn: return fn and pn
    if isinstance(f, (pd.Timestamp, np.datetime64)) and isinstance(p, (pd.Timestamp, np.datetime64)):
        # pandas itself takes temporal cumulative extrema through float64 when a NaT is present (it returns ...00:00:00 for ...00:00:00.000000001):
        # agreement with pandas is required to float64 resolution of the instant; exactness of the library's own result is C12's clause
        fv, pv = pd.Timestamp(f).value, pd.Timestamp(p).value
        return abs(fv - pv) <= max(1, abs(pv) * 2.0 ** -50)
    if isinstance(f, (pd.Timedelta, np.timedelta64)) and isinstance(p, (pd.Timedelta, np.timedelta64)):
        fv, pv = pd.Timedelta(f).value, pd.Timedelta(p).value
        return abs(fv - pv) <= max(1, abs(pv) * 2.0 ** -50)
    try: return abs(float(f) - float(p)) <= 1e-9 * max(1.0, abs(float(p)))
    except Exception: return f == p


def _norm_label(x):
    if isinstance(x, tuple): return tuple(_norm_label(y) for y in x)
    return None if C.is_null(x) else x


def _canon(x):
    """labels as comparable/sortable text: 11 and 11.0 are the same label"""
    x = _norm_label(x)
    if isinstance(x, tuple): return "(" + ",".join(_canon(y) for y in x) + ")"
    if isinstance(x, (bool, np.bool_)): return repr(bool(x))
    if isinstance(x, (int, float, np.integer, np.floating)): return repr(float(x))
    return repr(x)


def _lab_list(index): return [_norm_label(x) for x in index]


def _eq_core(F, G):
    """facade result vs core result: the same object up to float noise (type, index, names, columns, dtypes, values)"""
    if isinstance(G, pd.DataFrame) != isinstance(F, pd.DataFrame) or isinstance(G, pd.Series) != isinstance(F, pd.Series):
        return f"type {type(F).__name__} vs core {type(G).__name__}"
    try:
        if isinstance(G, pd.DataFrame): pd.testing.assert_frame_equal(F, G, check_exact=False, rtol=1e-12, atol=0.0)
        elif isinstance(G, pd.Series): pd.testing.assert_series_equal(F, G, check_exact=False, rtol=1e-12, atol=0.0)
        elif isinstance(G, dict):
            if [_norm_label(k) for k in F] != [_norm_label(k) for k in G] or any(not np.array_equal(np.asarray(x), np.asarray(y)) for x, y in zip(F.values(), G.values())): return f"{F} vs core {G}"
        elif F != G: return f"{F} vs core {G}"
    except AssertionError as ex:
        return " ".join(str(ex).split())[:300]
    return None


def _cells(X):
    """-> {column label or None: 1-d array-like}"""
    if isinstance(X, pd.DataFrame): return {c: X[c] for c in X.columns}
    return {None: X}


def _cmp_reduction_pandas(F, P):
    if isinstance(P, pd.DataFrame) != isinstance(F, pd.DataFrame): return f"shape: facade {type(F).__name__} vs pandas {type(P).__name__}"
    fl, pl_ = _lab_list(F.index), _lab_list(P.index)
    if fl != pl_: return f"labels: facade {fl} vs pandas {pl_}"
    if isinstance(P, pd.DataFrame) and list(F.columns) != list(P.columns): return f"columns: facade {list(F.columns)} vs pandas {list(P.columns)}"
    fc, pc = _cells(F), _cells(P)
    for c in pc:
        fv, pv = list(fc[c].tolist() if hasattr(fc[c], "tolist") else fc[c]), list(pc[c].tolist())
        bad = [(fl[i], fv[i], pv[i]) for i in range(len(pv)) if not _num_eq(fv[i], pv[i])]
        if bad: return f"numbers (column {c}): (label, facade, pandas) {bad[:3]}"
    return None


def _cmp_transform_pandas(F, Pvals, vals, rows_ok, what="pandas"):
    """F: facade result (Series/DataFrame in the object's row order); Pvals: {col: list by position (None = pandas has no such row)}; vals: {col: input values};
    compared at rows that hold a non-null value (and that pandas kept)"""
    fc = _cells(F)
    if set(fc) != set(Pvals): return f"columns: facade {list(fc)} vs {what} {list(Pvals)}"
    for c, pv in Pvals.items():
        fv = fc[c].tolist()
        if len(fv) != len(pv): return f"length {len(fv)} vs {len(pv)}"
        # pandas quirk, not part of the agreement the property asks for: for DATETIMELIKE values pandas' groupby cummin/cummax do not skip NaT - once a group
        # has seen a NaT every later row of the group is NaT, although the row holds a value (numeric columns do skip NaN). The library's semantics there is
        # the one C08 states (extremum of the non-null values so far); such rows are left to C08.
        def pandas_nat_quirk(i): return isinstance(vals[c][i], (pd.Timestamp, pd.Timedelta, np.datetime64, np.timedelta64)) and C.is_null(pv[i]) and not C.is_null(fv[i])
        bad = [(i, fv[i], pv[i]) for i in range(len(pv)) if rows_ok[i] and pv[i] is not _ABSENT and not C.is_null(vals[c][i]) and not _num_eq(fv[i], pv[i]) and not pandas_nat_quirk(i)]
        if bad: return f"numbers (column {c}) at rows holding a non-null value: (row, facade, {what}) {bad[:3]}"
    return None


_ABSENT = object()


def _by_position(P, n, nkeys):
    """pandas groupby-rolling result (index = key levels + position) -> {col: list by position}"""
    pos = P.index.get_level_values(-1).tolist(); out = {}
    for c, s in _cells(P).items():
        lst = [_ABSENT] * n
        for p, v in zip(pos, s.tolist()): lst[p] = v
        out[c] = lst
    return out


# ----------------------------------------------------------------------------- the checks
def _run(f):
    try:
        with contextlib.redirect_stdout(io.StringIO()): return f(), None
    except Exception as ex: return None, ex


def _expected_columns(W):
    s = W.sel
    if W.case["obj"] == "series" or isinstance(s, str): return None
    return list(W.vcols) if s is None else list(s)


def _check_shape(sess, W, fn, F, per_row=None):
    """key columns are not aggregated; [] is honoured: the result's columns are exactly the selected value columns (a Series for a scalar selection)"""
    exp = _expected_columns(W)
    if exp is None:
        if isinstance(F, pd.DataFrame) and not (fn.endswith("quantile")):
            sess.record("post", fn, "column selection with [] is honoured by every method (a single selected column gives a Series)", {"got": f"DataFrame with columns {list(F.columns)}", "selected": str(W.sel)})
        elif isinstance(F, pd.Series) and W.case["obj"] == "frame" and F.name != W.sel.split(":")[-1] and not fn.endswith("size") and not fn.endswith("cumcount"):
            sess.record("post", fn, "column selection with [] is honoured by every method (a single selected column gives a Series)", {"got name": str(F.name), "selected": str(W.sel)})
        return
    if not isinstance(F, pd.DataFrame):
        if fn.endswith(("size", "cumcount", "ngroups", "groups")): return
        sess.record("post", fn, "column selection with [] is honoured by every method", {"got": type(F).__name__, "expected columns": str(exp)}); return
    cols = list(F.columns.get_level_values(0)) if isinstance(F.columns, pd.MultiIndex) else list(F.columns)
    keyc = [c for c in cols if c in W.keycols]
    if keyc: sess.record("post", fn, "columns used as keys are not aggregated", {"key columns in the result": keyc, "columns": str(cols)})
    elif list(dict.fromkeys(cols)) != exp: sess.record("post", fn, "column selection with [] is honoured by every method", {"got columns": str(cols), "expected": str(exp)})


def _one(sess, W, G, name, fcall, ccall, pcall=None, pkind=None, cls="BaseGroupBy", shape=True, args=None):
    """one facade method call + its oracles. fcall(g) on the facade object, ccall(gb, values) on the core engine, pcall(pg) on the pandas groupby"""
    fn = f"{cls}.{name}"
    F, fex = _run(lambda: fcall(W.facade_obj))
    Cr, cex = _run(lambda: ccall(G, W.selected()))
    sess.evals["oracle.core"] += 1
    if cex is not None: sess.evals[f"oracle.core.raised.{name}"] += 1      # the core itself rejects/fails on this input: nothing to agree with (other properties)
    else: sess.evals[f"compared.{fn}"] += 1
    if fex is not None:
        if cex is None: sess.record("raises", fn, f"the facade must return what the core engine returns for the selected value columns: raised {type(fex).__name__}", str(fex)[:200])
        return 1
    if cex is None:
        msg = _eq_core(F, Cr)
        if msg and args: sess.record("post", fn, "the caller's arguments are passed through: result == core GroupBy(keys).<method>(selected value columns, same arguments)", {"call": W.call_text, "arguments": args, "difference": msg})
        elif msg: sess.record("post", fn, "result == core GroupBy(keys).<method>(selected value columns)", {"call": W.call_text, "difference": msg})
    if shape: _check_shape(sess, W, fn, F)
    if pcall is None: return 1
    P, pex = _run(lambda: pcall(W.pandas(positional=(pkind == "roll"))))
    if pex is not None: sess.evals["oracle.pandas.raised"] += 1; return 1
    sess.evals["oracle.pandas"] += 1
    if pkind == "reduce":
        msg = _cmp_reduction_pandas(F, P)
        if msg: sess.record("post", fn, "labels and numbers == pandas obj.groupby(...).<method>()", {"call": W.call_text, "difference": msg})
        return 1
    # transforms: same row labels as the object, numbers at the rows holding a non-null value
    if not F.index.equals(W.obj.index):
        sess.record("post", fn, "row-shaped results keep the object's index (same labels as pandas)", {"call": W.call_text, "got": str(list(F.index))[:120], "expected": str(list(W.obj.index))[:120]}); return 1
    sel = W.selected(); vals = {c: s.tolist() for c, s in _cells(sel).items()}
    if pkind == "cum":
        Pv = {c: s.tolist() for c, s in _cells(P).items()}; rows_ok = [True] * W.n
    else:
        Pv = _by_position(P, W.n, len(W.core_keys)); rows_ok = [l is not None for l in W.labels]
    if isinstance(F, pd.Series) and isinstance(sel, pd.Series): vals = {None: sel.tolist()}; Pv = {None: list(Pv.values())[0]} if len(Pv) == 1 else Pv
    msg = _cmp_transform_pandas(F, Pv, vals, rows_ok)
    if msg: sess.record("post", fn, "labels and numbers == pandas obj.groupby(...).<method>() at rows holding a non-null value", {"call": W.call_text, "difference": msg})
    return 1


def _check_reduce(sess, W, G):
    n = W.n; m = _mask_for(n); calls = 0; o = lambda *a, **k: _one(sess, W, G, *a, **k)
    temporal = W.case.get("scol") == "d" and W.case["obj"] == "series"
    for op in (("min", "max", "count", "first", "last") if temporal else ("sum", "mean", "min", "max", "count", "first", "last", "std", "var")):
        calls += o(op, lambda g, op=op: getattr(g, op)(), lambda gb, v, op=op: getattr(gb, op)(v), lambda pg, op=op: getattr(pg, op)(), "reduce")
    calls += o("size", lambda g: g.size(), lambda gb, v: gb.size(), lambda pg: pg.size(), "reduce")
    if temporal:
        for op in ("min", "last", "count"):
            calls += o(op, lambda g, op=op: getattr(g, op)(mask=m), lambda gb, v, op=op: getattr(gb, op)(v, mask=m), args="mask")
        return calls
    for op in ("std", "var"):
        calls += o(op, lambda g, op=op: getattr(g, op)(ddof=0), lambda gb, v, op=op: getattr(gb, op)(v, ddof=0), lambda pg, op=op: getattr(pg, op)(ddof=0), "reduce", args="ddof=0")
    if W.case.get("light"): return calls        # data sweep: the operations pandas also offers, every key sequence x value pattern
    for op in ("sum", "mean", "max", "count", "first", "last", "var"):
        calls += o(op, lambda g, op=op: getattr(g, op)(mask=m), lambda gb, v, op=op: getattr(gb, op)(v, mask=m), args="mask")
    calls += o("size", lambda g: g.size(mask=m), lambda gb, v: gb.size(mask=m), args="mask")
    calls += o("sum", lambda g: g.sum(margins=True), lambda gb, v: gb.sum(v, margins=True), args="margins=True")
    calls += o("median", lambda g: g.median(), lambda gb, v: gb.median(v))
    calls += o("median", lambda g: g.median(mask=m), lambda gb, v: gb.median(v, mask=m), args="mask")
    calls += o("quantile", lambda g: g.quantile(q=[0.25, 0.75]), lambda gb, v: gb.quantile(v, q=[0.25, 0.75]), args="q")
    calls += o("agg", lambda g: g.agg("sum"), lambda gb, v: gb.agg(v, "sum"), lambda pg: pg.agg("sum"), "reduce")
    calls += o("agg", lambda g: g.agg("max", mask=m), lambda gb, v: gb.agg(v, "max", mask=m), args="func='max', mask")
    calls += o("agg", lambda g: g.aggregate("count"), lambda gb, v: gb.agg(v, "count"))
    calls += o("agg", lambda g: g.agg(np.nansum), lambda gb, v: gb.apply(v, np.nansum))          # callables go to the core's apply (documented dispatch of the facade's agg)
    calls += o("apply", lambda g: g.apply(np.nansum), lambda gb, v: gb.apply(v, np.nansum))
    calls += o("apply", lambda g: g.apply(np.nansum, m), lambda gb, v: gb.apply(v, np.nansum, m), args="mask")
    return calls


def _check_cum(sess, W, G):
    n = W.n; m = _mask_for(n); calls = 0; o = lambda *a, **k: _one(sess, W, G, *a, **k)
    temporal = W.case.get("scol") == "d" and W.case["obj"] == "series"
    for op in (("cummin", "cummax") if temporal else ("cumsum", "cummin", "cummax")):
        calls += o(op, lambda g, op=op: getattr(g, op)(), lambda gb, v, op=op: getattr(gb, op)(v), lambda pg, op=op: getattr(pg, op)(), "cum")
    if not temporal:
        calls += o("ema", lambda g: g.ema(alpha=0.5), lambda gb, v: gb.ema(v, alpha=0.5))
        calls += o("ema", lambda g: g.ema(halflife=2.0, mask=m), lambda gb, v: gb.ema(v, halflife=2.0, mask=m), args="halflife, mask")
    # cumcount: direct specification (numbers the rows of each group from 0, whatever the values; keeps the object's index), the core and pandas
    fn = "BaseGroupBy.cumcount"; calls += 1
    F, fex = _run(lambda: W.facade_obj.cumcount()); sess.evals["oracle.spec"] += 1
    if fex is not None:
        sess.record("raises", fn, f"cumcount numbers the rows of each group from 0 regardless of the values: raised {type(fex).__name__}", str(fex)[:200]); return calls
    seen = {}; exp = []
    for l in W.labels:
        if l is None: exp.append(None); continue
        exp.append(seen.get(l, 0)); seen[l] = seen.get(l, 0) + 1
    got = list(np.asarray(F).tolist()) if isinstance(F, pd.Series) else None
    if got is None or len(got) != n or any(e is not None and (C.is_null(g) or int(g) != e) for g, e in zip(got, exp)):
        sess.record("post", fn, "cumcount numbers the rows of each group from 0 regardless of the values", {"call": W.call_text, "got": str(got), "expected (None = row without a group)": str(exp)})
    elif not F.index.equals(W.obj.index):
        sess.record("post", fn, "cumcount keeps the object's index", {"call": W.call_text, "got": str(list(F.index))[:120], "expected": str(list(W.obj.index))[:120]})
    Cr, cex = _run(lambda: G.cumcount()); sess.evals["oracle.core"] += 1
    if cex is None and got is not None and list(np.asarray(Cr).tolist()) != got:
        sess.record("post", fn, "result == core GroupBy(keys).<method>(selected value columns)", {"call": W.call_text, "got": str(got), "core": str(list(np.asarray(Cr).tolist()))})
    P, pex = _run(lambda: W.pandas().cumcount())
    if pex is None and got is not None:
        sess.evals["oracle.pandas"] += 1; pv = P.tolist()
        bad = [(i, got[i], pv[i]) for i in range(n) if W.labels[i] is not None and not _num_eq(got[i], pv[i])]
        if bad: sess.record("post", fn, "labels and numbers == pandas obj.groupby(...).<method>() at rows holding a non-null value", {"call": W.call_text, "(row, facade, pandas)": str(bad[:3])})
    return calls


def _check_roll(sess, W, G):
    n = W.n; m = _mask_for(n); calls = 0
    o = lambda *a, **k: _one(sess, W, G, *a, cls="BaseGroupByRolling", **k)
    for (w, mp) in ((2, 1), (2, None), (3, 2), (2, 0)):
        if w > n + 1: continue
        for op in ("sum", "mean", "min", "max"):
            calls += o(op, lambda g, op=op: getattr(g.rolling(w, mp), op)(), lambda gb, v, op=op: getattr(gb, f"rolling_{op}")(v, window=w, min_periods=mp if mp is not None else w),
                       lambda pg, op=op: getattr(pg.rolling(w, mp), op)(), "roll")
    calls += o("agg", lambda g: g.rolling(2, 1).agg("sum"), lambda gb, v: gb.rolling_sum(v, window=2, min_periods=1))
    calls += o("sum", lambda g: g.rolling(2, 1).sum(mask=m), lambda gb, v: gb.rolling_sum(v, window=2, min_periods=1, mask=m), args="mask")
    calls += o("max", lambda g: g.rolling(window=2, min_periods=1).max(mask=m), lambda gb, v: gb.rolling_max(v, window=2, min_periods=1, mask=m), args="window=, min_periods=, mask")
    calls += o("mean", lambda g: g.rolling(2, 1).mean(index_by_groups=True), lambda gb, v: gb.rolling_mean(v, window=2, min_periods=1, index_by_groups=True), args="index_by_groups=True")
    return calls


def _check_select(sess, W, G):
    calls = 0; o = lambda *a, **k: _one(sess, W, G, *a, **k)
    calls += o("nth", lambda g: g.nth(0), lambda gb, v: gb.nth(v, 0))
    calls += o("nth", lambda g: g.nth(-1), lambda gb, v: gb.nth(v, -1))
    calls += o("head", lambda g: g.head(1), lambda gb, v: gb.head(v, 1))
    calls += o("head", lambda g: g.head(2), lambda gb, v: gb.head(v, 2))
    calls += o("tail", lambda g: g.tail(1), lambda gb, v: gb.tail(v, 1))
    calls += o("ngroups", lambda g: g.ngroups, lambda gb, v: gb.ngroups, shape=False)
    calls += o("groups", lambda g: g.groups, lambda gb, v: gb.groups, shape=False)
    # the labels a grouping has (spec): distinct non-null labels
    distinct = list(dict.fromkeys(l for l in W.labels if l is not None)); sess.evals["oracle.spec"] += 1
    ng, ex = _run(lambda: W.facade_obj.ngroups)
    if ex is None and ng != len(distinct): sess.record("post", "BaseGroupBy.ngroups", "ngroups == number of distinct non-null key labels", {"call": W.call_text, "got": ng, "expected": len(distinct)})
    # iteration: every label once, with exactly that group's rows, whatever the index
    fn = "BaseGroupBy.__iter__"; calls += 1
    pairs, ex = _run(lambda: [(k, sub) for k, sub in W.facade_obj])
    if ex is not None:
        sess.record("raises", fn, f"iteration yields every group label once with exactly that group's rows whatever the object's index: raised {type(ex).__name__}", str(ex)[:200]); return calls
    got_labels = [_norm_label(k) for k, _ in pairs]
    if sorted(map(_canon, got_labels)) != sorted(map(_canon, distinct)) or len(set(map(_canon, got_labels))) != len(got_labels):
        sess.record("post", fn, "iteration yields every group label once", {"call": W.call_text, "got": str(got_labels), "expected": str(distinct)}); return calls
    for k, sub in pairs:
        pos = [i for i, l in enumerate(W.labels) if l is not None and l == _norm_label(k)]
        whole = W.selected() if (isinstance(W.sel, str) and isinstance(sub, pd.Series)) else W.obj      # a scalar selection iterates over that column (as pandas does)
        want = whole.iloc[pos]
        bad = None
        if isinstance(want, pd.Series) != isinstance(sub, pd.Series): bad = f"type {type(sub).__name__}"
        elif len(sub) != len(pos) or not sub.index.equals(want.index): bad = f"rows {list(sub.index)} instead of {list(want.index)} (positions {pos})"
        else:
            subc, wc = _cells(sub), _cells(want)
            if not set(subc) <= set(wc): bad = f"columns {list(subc)}"
            elif isinstance(sub, pd.DataFrame) and not set(_expected_columns(W) or []) <= set(subc): bad = f"selected columns missing: {list(subc)}"
            else:
                for c in subc:
                    if any(not _num_eq(x, y) if not isinstance(y, str) else x != y for x, y in zip(subc[c].tolist(), wc[c].tolist())): bad = f"values of column {c}: {subc[c].tolist()} instead of {wc[c].tolist()}"
        if bad: sess.record("post", fn, "iteration yields each label with exactly that group's rows whatever the object's index", {"call": W.call_text, "label": str(k), "difference": bad}); break
    # pandas yields the same labels with the same rows
    pp, pex = _run(lambda: [(k, sub) for k, sub in W.pandas()])
    if pex is None:
        sess.evals["oracle.pandas"] += 1
        pl_ = [_norm_label(k[0] if isinstance(k, tuple) and len(k) == 1 else k) for k, _ in pp]
        if sorted(map(_canon, pl_)) != sorted(map(_canon, got_labels)): sess.record("post", fn, "iteration yields the labels pandas yields", {"call": W.call_text, "got": str(got_labels), "pandas": str(pl_)})
        else:
            pm = {_canon(l): sub for l, (_, sub) in zip(pl_, pp)}
            for k, sub in pairs:
                if list(pm[_canon(k)].index) != list(sub.index) and not (pm[_canon(k)].index.equals(sub.index)):
                    sess.record("post", fn, "iteration yields the rows pandas yields", {"call": W.call_text, "label": str(k), "got": str(list(sub.index)), "pandas": str(list(pm[_canon(k)].index))}); break
    return calls


def check_case(sess, case):
    from groupby_lib.groupby import GroupBy
    W = World(case)
    W.call_text = f"{case['obj']}.groupby_fast({', '.join(f'{k}=' + (repr(v) if isinstance(v, (str, int, list)) and not any(hasattr(x, 'shape') for x in (v if isinstance(v, list) else [v])) else '<array>') for k, v in W.fa.items())})" + ("" if W.sel is None else (f".{W.sel[5:]}" if isinstance(W.sel, str) and W.sel.startswith("attr:") else f"[{W.sel!r}]"))
    g, ex = _run(W.facade)
    if ex is not None:
        sess.record("raises", f"{'DataFrame' if case['obj'] == 'frame' else 'Series'}GroupBy._from_by_keys", f"keys given as column names, arrays, index levels or mixtures must be accepted: raised {type(ex).__name__}", {"call": W.call_text, "error": str(ex)[:200]}); return 1
    W.facade_obj = g
    G, ex = _run(lambda: GroupBy(W.core_keys if len(W.core_keys) > 1 else W.core_keys[0]))
    if ex is not None: return 1          # the core rejects these keys: nothing to compare with (other properties)
    mg = case["mgroup"]
    return 1 + {"reduce": _check_reduce, "cum": _check_cum, "roll": _check_roll, "select": _check_select}[mg](sess, W, G)


# ----------------------------------------------------------------------------- cases
def _data(rnd, n, kkind=None):
    return {"n": n, "keys": [rnd.choice([None, 0, 1, 0, 1, 2]) for _ in range(n)], "keys2": [rnd.choice([0, 1]) for _ in range(n)],
            "vpat": "".join(rnd.choice("-0+x") for _ in range(n)), "kkind": kkind or rnd.choice(["float", "str", "int"])}


def _configs():
    """every (object kind, key specification, index kind, selection)"""
    for obj, free, lev, sels in (("frame", FRAME_SPECS_FREE, FRAME_SPECS_LEVEL, SELECTIONS), ("series", SERIES_SPECS_FREE, SERIES_SPECS_LEVEL, (None,))):
        for spec in free:
            for ik in INDEX_KINDS:
                for sel in sels: yield {"obj": obj, "keyspec": spec, "index": ik, "sel": sel}
        for spec in lev:
            for sel in sels: yield {"obj": obj, "keyspec": spec, "index": "keys", "sel": sel}


def _scol(rnd, mg):
    r = rnd.random()
    return "a" if r < 0.6 else ("b" if r < 0.8 or mg == "roll" else "d")


def _sweep_configs(tier, seed):
    rnd = random.Random(seed * 7919 + 17); sizes = (3, 4) if tier == "quick" else (2, 3, 4, 5)
    kk = itertools.cycle(["float", "str", "int"])
    for cfg in _configs():
        for mg in MGROUPS:
            for n in sizes:
                if tier == "quick" and mg == "reduce" and n != 4: continue          # the full reduction group (37 calls) once per configuration
                c = dict(cfg); c.update(_data(rnd, n, next(kk))); c["mgroup"] = mg
                if c["obj"] == "series": c["scol"] = _scol(rnd, mg)
                yield c


def _sweep_data(tier, seed, mg):
    cfgs = [c for c in _configs() if c["index"] != "default"]; rnd = random.Random(seed * 104729 + len(mg)); rnd.shuffle(cfgs)
    N = 3 if tier == "quick" else 4; i = 0
    for n in range(1, N + 1):
        for keys in itertools.product([None, 0, 1], repeat=n):
            for vpat in itertools.product("-0+x", repeat=n):
                if mg != "cum" and n == N and tier == "quick" and "x" not in vpat and "0" in vpat: continue      # quick: at the largest size keep the patterns with a null, and those without a zero
                c = dict(cfgs[i % len(cfgs)]); i += 1
                c.update({"n": n, "keys": list(keys), "keys2": [j % 2 for j in range(n)], "vpat": "".join(vpat), "kkind": ("float", "str")[i % 2], "mgroup": mg})
                if mg == "reduce": c["light"] = True
                if c["obj"] == "series": c["scol"] = ("a", "a", "b", "d" if mg != "roll" else "a")[i % 4]
                yield c


def cases(tier, seed):
    return C.roundrobin(_sweep_configs(tier, seed), _sweep_data(tier, seed, "cum"), _sweep_data(tier, seed, "roll"), _sweep_data(tier, seed, "reduce"), weights=(2, 2, 1, 1))


def extra_cases(tier, seed):
    """designed cases (never cut by the time cap): the situations the statement singles out"""
    base = {"n": 4, "keys": [1, None, 0, 1], "keys2": [0, 1, 0, 1], "vpat": "+x-0", "kkind": "float"}
    for obj, spec, ik, sel in (("frame", "col", "reversed", None), ("frame", "col", "dup", "a"), ("frame", "col", "gap", ["b"]), ("frame", "cols", "str", ["b", "a"]), ("frame", "arr", "multi", None),
                               ("series", "arr", "reversed", None), ("series", "series", "dup", None), ("series", "level", "keys", None), ("frame", "col+level", "keys", "a"), ("frame", "by_levelname", "keys", None), ("frame", "by_levelname1", "keys", ["a"]),
                               ("series", "levelnum", "keys", None), ("series", "arr+level", "keys", None), ("frame", "levels", "keys", "attr:b")):
        for mg in MGROUPS:
            c = dict(base); c.update({"obj": obj, "keyspec": spec, "index": ik, "sel": sel, "mgroup": mg}); yield c
            c = dict(c); c.update({"vpat": "0-0+", "keys": [0, 0, 1, 0]}); yield c
            if obj == "series" and mg != "roll": c = dict(c); c.update({"scol": "d", "vpat": "+x++"}); yield c


    # the only inputs on which the core's nth/head/tail return at all on this tree (no group): the facade must hand a DataFrame result back unchanged
    yield {"obj": "frame", "keyspec": "arr+arr", "index": "dup", "sel": ["a"], "n": 2, "keys": [1, 1], "keys2": [None, None], "vpat": "0-", "kkind": "float", "mgroup": "select"}
    yield {"obj": "frame", "keyspec": "col+arr", "index": "gap", "sel": None, "n": 1, "keys": [None], "keys2": [1], "vpat": "+", "kkind": "str", "mgroup": "select"}


def random_case(rnd, tier):
    cfgs = random_case._cfgs = getattr(random_case, "_cfgs", None) or list(_configs())
    c = dict(rnd.choice(cfgs)); c.update(_data(rnd, rnd.randint(1, 6 if tier == "quick" else 10))); c["mgroup"] = rnd.choice(MGROUPS)
    if c["obj"] == "series": c["scol"] = _scol(rnd, c["mgroup"])
    if rnd.random() < 0.2: c["keys2"] = [rnd.choice([0, 1, None]) for _ in range(c["n"])]
    return c


def nontrivial(case):
    ks = [k for k in case["keys"] if k is not None]
    return case["n"] >= 2 and (len(set(ks)) >= 2 or None in case["keys"] or bool(set(case["vpat"]) & set("-0x")) or case["index"] != "default" or case.get("sel") is not None)


# ----------------------------------------------------------------------------- contracts on the real facade functions
def install(sess):
    """install the patch the way monkey_patch.install_groupby_fast does (its print is swallowed) and attach contracts to the real resolution functions"""
    from groupby_lib.groupby.monkey_patch import install_groupby_fast
    with contextlib.redirect_stdout(io.StringIO()): install_groupby_fast()

    def post_from_keys_df(out, cls, obj, by=None, level=None):
        if len(out._grouper) != len(obj): return f"the grouper has {len(out._grouper)} rows, the object {len(obj)}"
        bys = by if isinstance(by, list) else ([] if by is None else [by])
        keycols = [k for k in bys if isinstance(k, str) and k in obj.columns]
        wrong = [k for k in keycols if k in out.value_columns]
        if wrong: return f"columns used as keys are not aggregated: {wrong} are still value columns"
        exp = [c for c in obj.columns if c not in keycols]
        if list(out.value_columns) != exp: return f"value columns {list(out.value_columns)} != the non-key columns {exp}"
        nk = len(bys) + (len(level) if isinstance(level, (list, tuple)) else (0 if level is None else 1))
        if out._grouper.result_index.nlevels != nk: return f"{nk} keys were given, the grouper has {out._grouper.result_index.nlevels}"
    sess.wrap("groupby_lib.groupby.api", "DataFrameGroupBy._from_by_keys", ensures=post_from_keys_df)

    def post_from_keys_s(out, cls, obj, by=None, level=None):
        if len(out._grouper) != len(obj): return f"the grouper has {len(out._grouper)} rows, the object {len(obj)}"
        if out._values_to_group is not obj: return "a Series group-by groups the Series itself"
        bys = by if isinstance(by, list) else ([] if by is None else [by])
        nk = len(bys) + (len(level) if isinstance(level, (list, tuple)) else (0 if level is None else 1))
        if out._grouper.result_index.nlevels != nk: return f"{nk} keys were given, the grouper has {out._grouper.result_index.nlevels}"
    sess.wrap("groupby_lib.groupby.api", "SeriesGroupBy._from_by_keys", ensures=post_from_keys_s)

    def post_getitem(out, self, key):
        if out._grouper is not self._grouper: return "[] must keep the grouping (same engine object)"
        v = out._values_to_group
        if isinstance(key, list):
            if not isinstance(v, pd.DataFrame) or list(v.columns) != list(key): return f"[{key}] selects columns {list(getattr(v, 'columns', []))}"
        elif not isinstance(v, pd.Series) or v.name != key: return f"[{key!r}] selects {type(v).__name__} {getattr(v, 'name', None)!r}"
        if len(v) != len(self._obj) or not v.index.equals(self._obj.index): return "[] must keep all rows of the object"
    sess.wrap("groupby_lib.groupby.api", "DataFrameGroupBy.__getitem__", ensures=post_getitem)
