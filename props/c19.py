"""C19 — operations never modify their inputs and results do not alias them.

P (unbounded, maintained separately): `modifies` clauses of the kernels (only arrays allocated inside or the explicitly passed target/out).
B (bounded): frame conditions evaluated around the REAL public calls, for every operation x container kind x <= 4 rows:
   F1  old(bytes, dtype, shape, index, names of every buffer reachable from the arguments) == the same after GroupBy(keys) and after the call
       (numpy buffers byte-wise, pandas values + index + name, RangeIndex start/stop/step/name, Categorical codes + categories,
        Arrow/polars buffers byte-wise incl. validity bitmaps and dictionaries, recursively through list/dict/DataFrame collections)
   F2  the logical grouping (label of every row, label order, names) is the same after the call
   F3  no value buffer of the result shares memory (np.shares_memory on every pair) with a buffer cached in the GroupBy, with a raw ndarray of the caller, or - for results
       that are raw numpy arrays / dicts of arrays - with any buffer of the arguments. (A pandas result sharing memory with a pandas argument under pandas' copy-on-write
       protocol is not observable; pandas Index objects are immutable shared values, as in pandas' own groupby.)
   F4  edit the returned result in place the way a caller can (numpy: element writes; pandas: .iloc element assignment): arguments and grouping still unchanged
   F5  repeat the identical call: the result equals (values, dtype, index, names) a deep copy of the first result taken before the edit
"""
import copy, io, contextlib, warnings, itertools
import numpy as np, pandas as pd
from . import common as C

PROP = "C19"; LEVEL = "other"; P_TIER = True
SCOPE = {"quick": "54 operations (the GroupBy constructor, reductions, transform, agg, apply/median/quantile, cumulative, rolling, shift/diff, ema with and without times, head/tail/nth, group_nearby_members, ratio, density, subset_ratio with two masks, crosstab, value_counts, "
                  "the accessors groups/key_count/ikey_count/group_ikey/result_index, emas.ema, emas.ema_grouped, numba.group_sum/group_max/cumsum/rolling_sum/rolling_shift), 3 and 4 rows: "
                  "(a) 21 key containers {ndarray int / float-with-null / str / bool / 2-D, pandas Series / Series on a named index / Index / RangeIndex / zero-copy Series view / Categorical / arrow-backed Series, polars Series, pyarrow Array / ChunkedArray, "
                  "list / dict / pandas DataFrame / polars DataFrame of two keys, dict of one Index / RangeIndex} x 18 representative operations (one per family: after GroupBy(keys) an operation only sees the integer codes) x {ndarray values without mask, pandas values with ndarray mask}; "
                  "(b) every operation x 14 value containers {ndarray float / int / datetime / 2-D, pandas Series / zero-copy view / arrow-backed, polars Series, pyarrow Array / ChunkedArray, list / dict / pandas DataFrame / polars DataFrame of two} x masks {none, pandas} on ndarray keys, every operation x positional masks with positions counted from the end {int64, int32, pandas Index} on ndarray / categorical keys, "
                  "and x {ndarray, pandas Series, zero-copy view, DataFrame} with a pandas mask on keys with a named custom index; (c) Categorical / ChunkedArray / float-with-null keys x representative operations x masks {none, ndarray} on 3 rows",
         "thorough": "as quick with every operation (not only the representatives) for every key container, every value container on the indexed keys, and the full product key container x value container for 10 reduction / cumulative / rolling operations"}
RULE = "a case = (operation, key container, value container, mask container, rows); distinct = distinct canonical JSON; non-trivial = the operation returned (so that the aliasing / edit / repeat clauses were evaluated) - every case is"
ASSUMPTIONS = ["pandas Index objects are immutable shared values: a result index may be the very object of an input index (pandas' own groupby transforms do the same), so result indexes are neither edited nor renamed",
               "np.shares_memory is exact for the small buffers used", "pandas' copy-on-write (pandas 3) is trusted for memory shared between a pandas result and a pandas argument; read-only flags are respected (no forced writes)",
               "polars / Arrow results are immutable and only compared", "an operation that raises on a combination is only checked for F1/F2 (its failure is another property's business)",
               "BOUNDED: checked only within the stated scope"]
REQUIRED_CONTRACTS = {"c19.returned": 100, "c19.edited_elements": 100}
EXPLANATION = ("Frame conditions. The kernels' modifies-clauses are proved separately; that the pandas/polars/arrow glue hands them fresh arrays, never writes through the zero-copy conversions and never returns a cached or input buffer "
               "is decided by byte snapshots, np.shares_memory and edit-then-repeat sequences around the real public calls over a bounded scope.")
BUDGET = {"quick": 50, "thorough": 400}


# ----------------------------------------------------------------------------- snapshots
def _np_snap(a):
    a = np.asarray(a)
    if a.dtype == object: return ("obj", a.shape, repr(a.tolist()))
    return (str(a.dtype), a.shape, a.tobytes())


LOGICAL_ARROW = [False]      # results are compared logically (the bytes under a null slot of a fresh Arrow buffer are unspecified); arguments byte-wise

def _arrow_snap(a):
    import pyarrow as pa
    if LOGICAL_ARROW[0]: return ("arrow-logical", str(a.type), repr(a.to_pylist()))
    chunks = a.chunks if isinstance(a, pa.ChunkedArray) else [a]
    out = []
    for ch in chunks:
        out.append((str(ch.type), len(ch), ch.offset, ch.null_count, [None if b is None else b.to_pybytes() for b in ch.buffers()],
                    _arrow_snap(ch.dictionary) if isinstance(ch, pa.DictionaryArray) else None))
    return ("arrow", len(chunks), out)


def _ea_snap(ea):
    if isinstance(ea, pd.Categorical): return ("cat", _np_snap(ea.codes), snap(ea.categories), bool(ea.ordered))
    if hasattr(ea, "_pa_array"): return _arrow_snap(ea._pa_array)
    if hasattr(ea, "_mask") and hasattr(ea, "_data"): return ("masked", _np_snap(ea._data), _np_snap(ea._mask))
    return _np_snap(np.asarray(ea))


def snap(x):
    import polars as pl, pyarrow as pa
    if x is None or isinstance(x, (bool, int, float, str, slice, np.generic)): return ("scalar", repr(x))
    if isinstance(x, np.ndarray): return ("np", _np_snap(x))
    if isinstance(x, pd.RangeIndex): return ("range", x.start, x.stop, x.step, repr(x.name))
    if isinstance(x, pd.MultiIndex): return ("mi", [snap(l) for l in x.levels], [_np_snap(c) for c in x.codes], repr(list(x.names)))
    if isinstance(x, pd.Index): return ("index", str(x.dtype), _ea_snap(x.array), repr(x.name))
    if isinstance(x, pd.Series): return ("series", str(x.dtype), _ea_snap(x.array), repr(x.name), snap(x.index))
    if isinstance(x, pd.Categorical): return _ea_snap(x)
    if isinstance(x, pd.DataFrame): return ("df", repr(list(x.columns)), [snap(x.iloc[:, j]) for j in range(x.shape[1])], snap(x.index), repr(list(x.columns.names)))
    if isinstance(x, pl.Series): return ("pl", str(x.dtype), x.name, _arrow_snap(x.to_arrow()))
    if isinstance(x, pl.DataFrame): return ("pldf", list(x.columns), [snap(x[c]) for c in x.columns])
    if isinstance(x, (pa.Array, pa.ChunkedArray)): return _arrow_snap(x)
    if isinstance(x, dict): return ("dict", [(repr(k), snap(v)) for k, v in x.items()])
    if isinstance(x, (list, tuple)): return ("list", [snap(v) for v in x])
    return ("other", repr(x))


def _diff(a, b, path=""):
    """first place where two snapshots differ (human readable)"""
    if type(a) != type(b): return f"{path}: {str(a)[:80]} -> {str(b)[:80]}"
    if isinstance(a, (tuple, list)):
        if len(a) != len(b): return f"{path}: length {len(a)} -> {len(b)}"
        for i, (x, y) in enumerate(zip(a, b)):
            d = _diff(x, y, f"{path}/{a[0] if i and isinstance(a[0], str) else ''}{i}")
            if d: return d
        return None
    return None if a == b else f"{path}: {str(a)[:80]} -> {str(b)[:80]}"


# ----------------------------------------------------------------------------- buffers
def _arrow_bufs(a, label):
    import pyarrow as pa
    out = []
    for ch in (a.chunks if isinstance(a, pa.ChunkedArray) else [a]):
        for b in ch.buffers():
            if b is not None and b.size: out.append((label, np.frombuffer(b, dtype=np.uint8)))
        if isinstance(ch, pa.DictionaryArray): out += _arrow_bufs(ch.dictionary, label)
    return out


def _ea_bufs(ea, label):
    if isinstance(ea, pd.Categorical): return [(label, ea._ndarray)] + bufs(ea.categories, "index" if label == "index" else label + ".categories")
    if hasattr(ea, "_pa_array"): return _arrow_bufs(ea._pa_array, label)
    if hasattr(ea, "_mask") and hasattr(ea, "_data"): return [(label, ea._data), (label, ea._mask)]
    if hasattr(ea, "_ndarray"): return [(label, ea._ndarray)]
    return [(label, np.asarray(ea))]


def bufs(x, label="values"):
    """-> list of (kind, ndarray viewing the underlying memory); kind 'index' for index buffers"""
    import polars as pl, pyarrow as pa
    if isinstance(x, np.ndarray): return [(label, x)]
    if isinstance(x, pd.RangeIndex): return []
    if isinstance(x, pd.MultiIndex): return [b for l in x.levels for b in bufs(l, "index")] + [("index", np.asarray(c)) for c in x.codes]
    if isinstance(x, pd.Index): return _ea_bufs(x.array, "index")
    if isinstance(x, pd.Series): return _ea_bufs(x.array, label) + bufs(x.index)
    if isinstance(x, pd.Categorical): return _ea_bufs(x, label)
    if isinstance(x, pd.DataFrame): return [b for j in range(x.shape[1]) for b in _ea_bufs(x.iloc[:, j].array, label)] + bufs(x.index) + bufs(x.columns)
    if isinstance(x, pl.Series): return _arrow_bufs(x.to_arrow(), label)
    if isinstance(x, pl.DataFrame): return [b for c in x.columns for b in bufs(x[c], label)]
    if isinstance(x, (pa.Array, pa.ChunkedArray)): return _arrow_bufs(x, label)
    if isinstance(x, dict): return [b for v in x.values() for b in bufs(v, label)]
    if isinstance(x, (list, tuple)): return [b for v in x for b in bufs(v, label)]
    return []


def _shared(A, B):
    for la, a in A:
        for lb, b in B:
            if a.size and b.size and np.shares_memory(a, b): return la, lb, a, b
    return None


def _cache_bufs(gb):
    out = []
    for k, v in list(gb.__dict__.items()):
        for lab, b in bufs(v, "values"): out.append((f"{k}" + (".index" if lab == "index" else ""), b))
    return out


# ----------------------------------------------------------------------------- result edit / comparison
def _newval(old):
    if isinstance(old, (bool, np.bool_)): return not bool(old)
    if isinstance(old, (int, np.integer)): return int(old) + 3
    if isinstance(old, (float, np.floating)): return 7.5 if np.isnan(old) else float(old) * 2 + 1
    if isinstance(old, pd.Timestamp): return old + pd.Timedelta(1, "us")
    if isinstance(old, pd.Timedelta): return old + pd.Timedelta(1, "us")
    if old is pd.NaT: return None
    if isinstance(old, str): return "__edited__"
    return None


def edit(res):
    """edit the returned result in place the way a caller can: numpy arrays (also inside dicts/lists/tuples) by direct element writes when they are writeable,
    pandas objects through .iloc element assignment (pandas' copy-on-write decides whether that writes through); polars/Arrow results are immutable. -> number of elements written"""
    n = 0
    if isinstance(res, np.ndarray):
        if res.flags.writeable and res.size:
            try:
                if res.dtype.kind == "b": np.logical_not(res, out=res)
                elif res.dtype.kind in "iu": res += 3
                elif res.dtype.kind == "f": res[...] = np.where(np.isnan(res), 7.5, res * 2 + 1)
                elif res.dtype.kind in "mM": res.view("i8")[...] += 12345
                elif res.dtype.kind == "O": res[...] = "__edited__"
                else: return 0
                n += res.size
            except Exception: pass
    elif isinstance(res, pd.Series):
        for i in range(len(res)):
            v = _newval(res.iloc[i])
            if v is None: continue
            try: res.iloc[i] = v; n += 1
            except Exception: pass
    elif isinstance(res, pd.DataFrame):
        for j in range(res.shape[1]):
            for i in range(res.shape[0]):
                v = _newval(res.iloc[i, j])
                if v is None: continue
                try: res.iloc[i, j] = v; n += 1
                except Exception: pass
    elif isinstance(res, dict):
        for v in res.values(): n += edit(v)
    elif isinstance(res, (list, tuple)):
        for v in res: n += edit(v)
    return n


def rsnap(x):
    LOGICAL_ARROW[0] = True
    try: return snap(x)
    finally: LOGICAL_ARROW[0] = False


def same_result(a, b):
    return rsnap(a) == rsnap(b)


def grouping(gb):
    """logical content of the grouping: label of every row (None for a null key), label order, names"""
    try:
        import pyarrow as pa
        ik = gb.group_ikey
        ri = gb.result_index
        if isinstance(ik, pa.ChunkedArray):
            ptr = gb._group_key_pointers
            codes = []
            for j, ch in enumerate(ik.chunks):
                c = ch.to_numpy(zero_copy_only=False).astype(np.int64)
                codes += list(c if ptr is None else np.where(c >= 0, np.asarray(ptr[j])[np.maximum(c, 0)], -1))
        else: codes = list(np.asarray(ik).astype(np.int64))
        labels = list(ri)
        return ("grouping", [None if c < 0 else repr(labels[c]) for c in codes], sorted(repr(l) for l in labels), repr(list(ri.names)), gb.ngroups)
    except Exception as ex:
        return ("grouping-unreadable", type(ex).__name__, str(ex)[:100])


# ----------------------------------------------------------------------------- containers
KEY_KINDS = ("np_int", "np_float_null", "np_str", "np_bool", "pd_series", "pd_series_named_idx", "pd_index", "pd_range", "pd_view", "pd_cat", "pd_arrow", "pl_series", "pa_array", "pa_chunked",
             "list2", "dict2", "pd_df2", "pl_df2", "dict_index", "dict_range", "np_2d")
VAL_KINDS = ("np_float", "np_int", "np_dt", "np_2d", "pd_series", "pd_view", "pd_arrow", "pl_series", "pa_array", "pa_chunked", "list2", "dict2", "pd_df2", "pl_df2")
MASK_KINDS = ("none", "np", "pd")
PAT = {3: [0, 1, 0], 4: [1, 0, 1, 0]}


def make_keys(kind, n):
    import polars as pl, pyarrow as pa
    p = PAT[n]; ints = np.array([5 + k for k in p], dtype=np.int64)
    second = np.array(["x", "x", "y", "y"][:n], dtype=object)
    if kind == "np_int": return ints
    if kind == "np_int_sorted": return np.sort(ints)          # labels first seen in increasing order: no re-sort of the result is needed (results may then be VIEWS of cached per-group arrays)
    if kind == "np_float_null": return np.array([np.nan if i == n - 1 else 1.5 + p[i] for i in range(n)])
    if kind == "np_str": return np.array(["ab"[k] for k in p], dtype=object)
    if kind == "np_bool": return np.array([bool(k) for k in p])
    if kind == "pd_series": return pd.Series(ints, name="k")
    if kind == "pd_series_named_idx": return pd.Series(ints, index=pd.Index([10 * (i + 1) for i in range(n)], name="row"), name="k")
    if kind == "pd_index": return pd.Index(ints, name="k")
    if kind == "pd_range": return pd.RangeIndex(n)
    if kind == "pd_view": return pd.Series(ints, copy=False)                    # zero-copy view of the caller's ndarray (which is kept reachable below)
    if kind == "pd_cat": return pd.Categorical(["ab"[k] for k in p], categories=["b", "a", "unused"])
    if kind == "pd_arrow": return pd.Series(pa.array([5 + k for k in p]), dtype=pd.ArrowDtype(pa.int64()), name="k")
    if kind == "pl_series": return pl.Series("k", [5 + k for k in p])
    if kind == "pa_array": return pa.array([5 + k for k in p], type=pa.int64())
    if kind == "pa_chunked": return pa.chunked_array([pa.array([5 + k for k in p[:2]]), pa.array([5 + k for k in p[2:]])])
    if kind == "list2": return [ints, second]
    if kind == "dict2": return {"a": ints, "b": second}
    if kind == "pd_df2": return pd.DataFrame({"a": ints, "b": second})
    if kind == "pl_df2": return pl.DataFrame({"a": ints, "b": [str(s) for s in second]})
    if kind == "dict_index": return {"a": pd.Index(ints, name="orig")}
    if kind == "dict_range": return {"a": pd.RangeIndex(n)}
    if kind == "np_2d": return np.stack([ints, ints[::-1]], axis=1)
    raise ValueError(kind)


def make_values(kind, n):
    import polars as pl, pyarrow as pa
    f = C.make_values("float", n, [i == 1 for i in range(n)])[0]; f2 = C.make_values("float", n)[0][::-1].copy() + 10
    if kind == "np_float": return f
    if kind == "np_int": return C.make_values("int", n)[0]
    if kind == "np_dt": return C.make_values("datetime", n, [i == 1 for i in range(n)])[0]
    if kind == "np_2d": return np.stack([f, f2], axis=1)
    if kind == "pd_series": return pd.Series(f, name="v")
    if kind == "pd_view": return pd.Series(f, copy=False)
    if kind == "pd_arrow": return pd.Series(pa.array([None if i == 1 else float(f[i]) for i in range(n)]), dtype=pd.ArrowDtype(pa.float64()), name="v")
    if kind == "pl_series": return pl.Series("v", [None if i == 1 else float(f[i]) for i in range(n)])
    if kind == "pa_array": return pa.array(f2, type=pa.float64())            # no nulls: the zero-copy route to numpy
    if kind == "pa_chunked": return pa.chunked_array([pa.array(f2[:1]), pa.array(f2[1:])])
    if kind == "list2": return [f, f2]
    if kind == "dict2": return {"v1": f, "v2": f2}
    if kind == "pd_df2": return pd.DataFrame({"v1": f, "v2": f2})
    if kind == "pl_df2": return pl.DataFrame({"v1": f2, "v2": f2 + 1})
    raise ValueError(kind)


def make_mask(kind, n, index=None):
    if kind == "none": return None
    if kind.startswith("pos"):
        # integer positions, some counted from the end (array-indexing semantics), in a writeable buffer of the caller
        pos = [0, -1, 1 - n, n - 2][: max(2, n - 1)]
        return pd.Index(np.array(pos, dtype=np.int64)) if kind == "pos_index" else np.array(pos, dtype=np.int32 if kind == "pos_i32" else np.int64)
    m = np.array([(i % 3) != 2 for i in range(n)], dtype=bool)
    return m if kind == "np" else pd.Series(m, index=index)


def _single(vkind): return vkind not in ("np_2d", "list2", "dict2", "pd_df2", "pl_df2")


# ----------------------------------------------------------------------------- operations
def _build_ops():
    ops = {}
    def op(name, call, needs=("values",), single=False, numeric=False): ops[name] = {"call": call, "needs": needs, "single": single, "numeric": numeric}
    op("GroupBy", lambda gb, a: gb, needs=())
    for r in ("count", "sum", "mean", "min", "max", "var", "std", "first", "last"):
        op(f"GroupBy.{r}", lambda gb, a, r=r: getattr(gb, r)(a["values"], mask=a["mask"]), needs=("values", "mask"))
    op("GroupBy.size", lambda gb, a: gb.size(mask=a["mask"]), needs=("mask",))
    op("GroupBy.size[all groups]", lambda gb, a: gb.size(mask=a["mask"], observed_only=False), needs=("mask",))
    op("GroupBy.count[all groups]", lambda gb, a: gb.count(a["values"], mask=a["mask"], observed_only=False), needs=("values", "mask"))
    op("GroupBy.min[all groups]", lambda gb, a: gb.min(a["values"], mask=a["mask"], observed_only=False), needs=("values", "mask"))
    op("GroupBy.sum[transform]", lambda gb, a: gb.sum(a["values"], mask=a["mask"], transform=True), needs=("values", "mask"))
    op("GroupBy.sum[all groups]", lambda gb, a: gb.sum(a["values"], mask=a["mask"], observed_only=False), needs=("values", "mask"))
    op("GroupBy.agg", lambda gb, a: gb.agg(a["values"], "max", mask=a["mask"]), needs=("values", "mask"))
    op("GroupBy.agg[list]", lambda gb, a: gb.agg(a["values"], ["sum", "max"], mask=a["mask"]), needs=("values", "mask"), single=True)
    op("GroupBy.apply", lambda gb, a: gb.apply(a["values"], np.sum, mask=a["mask"]), needs=("values", "mask"))
    op("GroupBy.median", lambda gb, a: gb.median(a["values"], mask=a["mask"]), needs=("values", "mask"))
    op("GroupBy.quantile", lambda gb, a: gb.quantile(a["values"], q=[0.5], mask=a["mask"]), needs=("values", "mask"))
    for r in ("cumsum", "cummin", "cummax"):
        op(f"GroupBy.{r}", lambda gb, a, r=r: getattr(gb, r)(a["values"], mask=a["mask"]), needs=("values", "mask"))
    op("GroupBy.cumcount", lambda gb, a: gb.cumcount(mask=a["mask"]), needs=("mask",))
    for r in ("rolling_sum", "rolling_mean", "rolling_min", "rolling_max"):
        op(f"GroupBy.{r}", lambda gb, a, r=r: getattr(gb, r)(a["values"], window=2, min_periods=1, mask=a["mask"]), needs=("values", "mask"))
    for r in ("shift", "diff"):
        op(f"GroupBy.{r}", lambda gb, a, r=r: getattr(gb, r)(a["values"], window=1, mask=a["mask"]), needs=("values", "mask"))
    op("GroupBy.ema", lambda gb, a: gb.ema(a["values"], alpha=0.5, mask=a["mask"]), needs=("values", "mask"), numeric=True)
    op("GroupBy.ema[times]", lambda gb, a: gb.ema(a["values"], halflife="1h", times=a["times"], mask=a["mask"]), needs=("values", "mask", "times"), numeric=True)
    for r in ("head", "tail", "nth"):
        op(f"GroupBy.{r}", lambda gb, a, r=r: getattr(gb, r)(a["values"], n=1, keep_input_index=True), needs=("values",))
    op("GroupBy.head[group index]", lambda gb, a: gb.head(a["values"], n=1), needs=("values",))
    op("GroupBy.group_nearby_members", lambda gb, a: gb.group_nearby_members(a["values"], max_diff=1.0), needs=("values",), single=True, numeric=True)
    op("GroupBy.ratio", lambda gb, a: gb.ratio(a["values"], a["values"], mask=a["mask"]), needs=("values", "mask"))
    op("GroupBy.density", lambda gb, a: gb.density(a["values"], mask=a["mask"]), needs=("values", "mask"), single=True)
    # two row filters at once: the subset mask selects rows outside the global mask too (a["mask2"][2] is True where a["mask"][2] is False)
    op("GroupBy.subset_ratio", lambda gb, a: gb.subset_ratio(a["values"], a["mask2"], global_mask=a["mask"]), needs=("values", "mask", "mask2"))
    op("GroupBy.groups", lambda gb, a: gb.groups, needs=())
    op("GroupBy.key_count", lambda gb, a: gb.key_count, needs=())
    op("GroupBy.ikey_count", lambda gb, a: gb.ikey_count, needs=())
    op("GroupBy.group_ikey", lambda gb, a: gb.group_ikey, needs=())
    op("GroupBy.result_index", lambda gb, a: gb.result_index, needs=())
    def crosstab(keys, a):
        from groupby_lib.groupby import crosstab as ct
        return ct(keys, a["columns"], values=a["values"], aggfunc="sum", mask=a["mask"])
    op("crosstab", crosstab, needs=("values", "mask", "columns"), single=True)
    def value_counts(keys, a):
        from groupby_lib.groupby import value_counts as vc
        return vc(keys)
    op("value_counts", value_counts, needs=())
    def ema_(keys, a):
        from groupby_lib.emas import ema
        return ema(a["values"], alpha=0.5)
    op("emas.ema", ema_, needs=("values",), single=True, numeric=True)
    def ema_t(keys, a):
        from groupby_lib.emas import ema
        return ema(a["values"], halflife="1h", times=a["times"])
    op("emas.ema[times]", ema_t, needs=("values", "times"), single=True, numeric=True)
    def ema_g(keys, a):
        from groupby_lib.emas import ema_grouped
        return ema_grouped(a["codes"], 2, a["values"], alpha=0.5, mask=a["mask"])
    op("emas.ema_grouped", ema_g, needs=("values", "mask", "codes"), single=True, numeric=True)
    def ema_gt(keys, a):
        from groupby_lib.emas import ema_grouped
        return ema_grouped(a["codes"], 2, a["values"], halflife="1h", times=a["times"], mask=a["mask"])
    op("emas.ema_grouped[times]", ema_gt, needs=("values", "mask", "codes", "times"), single=True, numeric=True)
    def knl(fname, **kw):
        def call(keys, a):
            from groupby_lib.groupby import numba as gn
            return getattr(gn, fname)(a["codes"], a["values"], 2, mask=a["mask"], **kw)
        return call
    op("numba.group_sum", knl("group_sum"), needs=("values", "mask", "codes"), single=True)
    op("numba.group_max[n_threads=2]", knl("group_max", n_threads=2), needs=("values", "mask", "codes"), single=True)
    op("numba.cumsum", knl("cumsum"), needs=("values", "mask", "codes"), single=True)
    op("numba.rolling_sum", knl("rolling_sum", window=2, min_periods=1), needs=("values", "mask", "codes"), single=True)
    op("numba.rolling_shift", knl("rolling_shift", window=1), needs=("values", "mask", "codes"), single=True)
    return ops


OPS = _build_ops()
NO_GB = ("crosstab", "value_counts", "emas.ema", "emas.ema[times]", "emas.ema_grouped", "emas.ema_grouped[times]", "numba.group_sum", "numba.group_max[n_threads=2]", "numba.cumsum", "numba.rolling_sum", "numba.rolling_shift")
HEAVY = [f"GroupBy.{r}" for r in ("sum", "min", "first", "count", "cumsum", "cummax", "rolling_sum", "rolling_max", "shift", "sum[transform]")]


REP_OPS = ["GroupBy", "GroupBy.size", "GroupBy.sum", "GroupBy.sum[transform]", "GroupBy.cumsum", "GroupBy.rolling_sum", "GroupBy.shift", "GroupBy.ema", "GroupBy.head", "GroupBy.nth", "GroupBy.apply",
           "GroupBy.groups", "GroupBy.key_count", "GroupBy.ikey_count", "GroupBy.group_ikey", "GroupBy.result_index", "crosstab", "value_counts"]


def cases(tier, seed):
    """Every `_group_by_reduce(codes dtype/readonly, values dtype/readonly/layout, reducer, indexer)` combination is a fresh JIT compilation in every process (numba cannot cache
    kernels that take a function argument), so the product is cut where it adds nothing: after GroupBy(keys) an operation only sees the integer codes, hence the key containers
    are crossed with a representative operation of every family (REP_OPS), and every operation is crossed with every value container on int64 codes."""
    def gen(kkinds, vkinds, mkinds, ns, names=None, paired=False):
        for name in (names or OPS):
            o = OPS[name]
            for n in ns:
                for kk in kkinds:
                    if name in NO_GB and name not in ("crosstab", "value_counts") and kk != "np_int": continue
                    if name == "crosstab" and kk in ("np_2d",): continue
                    for vk in (vkinds if "values" in o["needs"] else ("np_float",)):
                        if o["single"] and not _single(vk): continue
                        if o["numeric"] and vk == "np_dt": continue
                        for mk in (mkinds if "mask" in o["needs"] else ("none",)):
                            if paired and "mask" in o["needs"] and "values" in o["needs"] and vkinds.index(vk) != mkinds.index(mk): continue      # (first value kind, first mask kind), (second, second)
                            yield {"op": name, "kk": kk, "vk": vk, "mk": mk, "n": n}
    big = tier == "thorough"
    streams = [gen(KEY_KINDS, ("np_float", "pd_series"), ("none", "np"), (4,), None if big else REP_OPS, paired=not big),     # every key container
               gen(("np_int",), VAL_KINDS, ("none", "pd"), (4,)),                                                # every operation x every value container
               gen(("pd_series_named_idx",), ("np_float", "pd_series", "pd_view", "pd_df2") + (VAL_KINDS if big else ()), ("pd",), (4,)),   # ... on keys with a named custom index
               gen(("np_int",), ("np_float", "pl_series"), ("np",), (3,)),
               gen(("np_int_sorted", "pd_cat"), ("np_float",), ("none", "np"), (4,)),                             # every operation on groupings whose results need no re-sort (sorted first appearance / categorical)
               gen(("np_int", "pd_cat"), ("np_float", "pd_series"), ("pos", "pos_i32", "pos_index"), (4,)),       # positional row filters (operations that do not take positions raise: framed too)
               gen(("pd_cat", "pa_chunked", "np_float_null"), ("np_float",), ("none", "np"), (3,), None if big else REP_OPS)]
    if big: streams.append(gen(KEY_KINDS, VAL_KINDS, ("none", "np"), (4,), HEAVY))
    seen = set()
    for c in C.roundrobin(*streams):
        k = tuple(sorted(c.items()))
        if k in seen: continue
        seen.add(k); yield c


def worker(rank, nprocs, tier, seed, budget):
    """shard by operation instead of by case index (see cases.__doc__): the generic driver is reused on a view of this module whose enumeration places this rank's cases at the indexes the driver gives to this rank"""
    import sys, types, collections
    from rtc import core
    me = sys.modules[__name__]
    def assignment(t):
        cnt = collections.Counter(c["op"] for c in cases(t, seed)); load = [0] * nprocs; owner = {}
        for name, k in sorted(cnt.items(), key=lambda kv: (-kv[1], kv[0])):
            r = min(range(nprocs), key=lambda j: (load[j], j)); owner[name] = r; load[r] += k
        return owner
    def my_cases(t, sd):
        owner = assignment(t)
        for c in cases(t, sd):
            if owner[c["op"]] == rank:
                for _ in range(nprocs): yield c          # the driver keeps index % nprocs == rank: exactly one of these copies
    view = types.SimpleNamespace(**{k: getattr(me, k) for k in dir(me) if not k.startswith("__")})
    view.cases = my_cases
    return core.generic_worker(view, rank, nprocs, tier, seed, budget)


def nontrivial(case): return True


# ----------------------------------------------------------------------------- one case
def check_case(sess, case):
    o = OPS[case["op"]]; n = case["n"]; fn = case["op"].split("[")[0]; variant = case["op"][len(fn):]
    keys = make_keys(case["kk"], n)
    a = {"values": None, "mask": None, "mask2": None, "times": None, "columns": None, "codes": None}
    index = keys.index if isinstance(keys, pd.Series) else None
    if "values" in o["needs"]:
        a["values"] = make_values(case["vk"], n)
        if index is not None and isinstance(a["values"], (pd.Series, pd.DataFrame)): a["values"].index = index       # aligned with the keys' index
    if "mask" in o["needs"]: a["mask"] = make_mask(case["mk"], n, index if index is not None else (a["values"].index if isinstance(a["values"], (pd.Series, pd.DataFrame)) else None))
    if "mask2" in o["needs"]:
        m2 = np.array([(i % 2) == 0 for i in range(n)], dtype=bool)
        a["mask2"] = pd.Series(m2, index=a["mask"].index) if isinstance(a["mask"], pd.Series) else m2
    if "times" in o["needs"]: a["times"] = np.datetime64("2020-01-01T00:00:00", "ns") + np.arange(n) * np.timedelta64(3600 * 10 ** 9, "ns")
    if "columns" in o["needs"]: a["columns"] = np.array([(i // 2) % 2 for i in range(n)], dtype=np.int64)
    if "codes" in o["needs"]: a["codes"] = np.array(PAT[n], dtype=np.int64)
    inputs = {"keys": keys, **{k: v for k, v in a.items() if v is not None}}
    old = snap(inputs)
    def frame(stage, clause_fn):
        d = _diff(old, snap(inputs))
        if d: sess.record("frame", clause_fn, f"arguments are unchanged (bytes, dtype, shape, index, names) {stage}", {"variant": variant, "changed": d})
        return d
    calls = 0
    with contextlib.redirect_stdout(io.StringIO()), warnings.catch_warnings():
        warnings.simplefilter("ignore")
        gb = None
        if case["op"] not in NO_GB:
            from groupby_lib.groupby import GroupBy
            calls += 1
            try: gb = GroupBy(keys)
            except Exception as ex:
                sess.evals["c19.constructor_raised"] += 1; frame("after a GroupBy(keys) that raised", "GroupBy"); return calls
            if frame("after GroupBy(keys)", "GroupBy"): return calls
            g0 = grouping(gb)
        target = gb if gb is not None else keys
        calls += 1
        try: res = o["call"](target, a)
        except Exception as ex:
            sess.evals["c19.call_raised"] += 1
            frame("after a call that raised", fn)
            if gb is not None and grouping(gb) != g0: sess.record("frame", fn, "the logical labels and codes of the grouping are unchanged after a call that raised", {"variant": variant, "before": str(g0)[:200], "after": str(grouping(gb))[:200]})
            return calls
        sess.evals["c19.returned"] += 1
        # F1 / F2
        frame("after the call", fn)
        if gb is not None and case["op"] != "GroupBy":
            g1 = grouping(gb)
            if g1 != g0: sess.record("frame", fn, "the logical labels and codes of the grouping are unchanged after the call", {"variant": variant, "before": str(g0)[:200], "after": str(g1)[:200]})
        if case["op"] == "GroupBy": return calls
        # F3 aliasing. A pandas result may share memory with a pandas argument under pandas' copy-on-write protocol (not observable through the pandas API: F4 decides);
        # sharing with a RAW ndarray of the caller or with a buffer cached in the GroupBy is not tracked by copy-on-write, and a raw numpy result has no protection at all
        def raw(v):
            if isinstance(v, np.ndarray): return [("values", v)]
            if isinstance(v, dict): return [b for x in v.values() for b in raw(x)]
            if isinstance(v, (list, tuple)): return [b for x in v for b in raw(x)]
            return []
        is_pandas = isinstance(res, (pd.Series, pd.DataFrame, pd.Index))
        rb = bufs(res); cb = _cache_bufs(gb) if gb is not None else []
        if is_pandas: ib = [(f"argument {k} (the caller's ndarray)", b) for k, v in inputs.items() for lab, b in raw(v)]
        else: ib = [(f"argument {k}" + (" (index)" if lab == "index" else ""), b) for k, v in inputs.items() for lab, b in bufs(v)]
        rvals = [(l, b) for l, b in rb if l != "index"]; ridx = [(l, b) for l, b in rb if l == "index"]
        sh = _shared(rvals, ib)
        if sh: sess.record("frame", fn, "no value buffer of the result shares memory with a buffer of the arguments", {"variant": variant, "result type": type(res).__name__, "shares memory with": sh[1], "dtype": str(sh[2].dtype)})
        sh = _shared(rvals, cb)
        if sh: sess.record("frame", fn, "no value buffer of the result shares memory with a buffer cached in the GroupBy", {"variant": variant, "result type": type(res).__name__, "shares memory with cached": sh[1], "dtype": str(sh[2].dtype)})
        sh = _shared(ridx, [(l, b) for l, b in ib if not l.endswith("(index)")]) or _shared(ridx, [(l, b) for l, b in cb if not l.endswith(".index") and not l.startswith("_result_index")])
        if sh and not is_pandas: sess.record("frame", fn, "no index buffer of the result shares memory with a VALUE buffer of the arguments or a code cache of the GroupBy", {"variant": variant, "shares memory with": sh[1], "dtype": str(sh[2].dtype)})
        # F4 edit the result in place, F5 repeat
        try: first = copy.deepcopy(res)
        except Exception: first = None
        ne = edit(res); sess.evals["c19.edited_elements"] += ne
        d = _diff(old, snap(inputs))
        if d: sess.record("frame", fn, "editing the returned result in place does not change the caller's arguments", {"variant": variant, "changed": d})
        if gb is not None:
            g2 = grouping(gb)
            if g2 != g0: sess.record("frame", fn, "editing the returned result in place does not change the logical labels and codes of the grouping", {"variant": variant, "before": str(g0)[:200], "after": str(g2)[:200]})
        if first is not None:
            calls += 1
            try:
                res2 = o["call"](target, a)
                if not same_result(res2, first):
                    sess.record("frame", fn, "after editing the returned result in place, the identical call returns the same result as the first time", {"variant": variant, "first": repr(first)[:160], "again": repr(res2)[:160], "diff": _diff(rsnap(first), rsnap(res2))})
            except Exception as ex:
                sess.record("frame", fn, f"after editing the returned result in place, the identical call returns the same result as the first time (it raised {type(ex).__name__})", {"variant": variant, "error": str(ex)[:160]})
    return calls


def install(sess):
    """the frame conditions are evaluated around the public calls in check_case; the kernels' own modifies-clauses are P-tier obligations"""
    sess.evals["c19.returned"] += 0
