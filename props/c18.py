"""C18 — misaligned inputs are rejected, never silently mis-grouped.

S (structural, from the AST of every file of the package): every string given to @check_data_inputs_aligned(...) names a parameter of the
   function it decorates (one obligation per decorated function) - a misspelt / merged name silently disables the check.
B (bounded): exceptional postcondition on every public operation (and on the kernel-level entry points of groupby.numba / emas):
     raises  <=>  some array argument (values, one of several values, boolean mask, times, second key) has a length different from the
                  number of key rows, or is a pandas object whose index differs from the keys' index (or from another pandas argument's index)
     aligned inputs (plain arrays, identical index, pandas values on index-free keys) => returns
   out-of-range positions in a positional mask => raises; in-range positions (negative ones wrap, array-indexing semantics) => returns
 + kernel-precondition monitors (the `requires` under which the kernels are proved): equal lengths of key/values/mask/times/target, key < ngroups.
   A violated precondition means the kernel would read or write out of bounds (undefined behaviour): it is recorded, and the kernel call is
   NOT executed (the monitor raises KernelPreconditionViolated so that the harness process cannot be corrupted); the public call then counts as
   "did not reject".
"""
import ast, os, io, contextlib, importlib, itertools, warnings
import numpy as np, pandas as pd
from . import common as C

PROP = "C18"; LEVEL = "exploration"; P_TIER = True
SCOPE = {"quick": "46 public operations (GroupBy reductions incl. transform, agg, apply/median/quantile, cumulative, rolling, shift/diff, ema with and without times and group-sorted, head/tail/nth, group_nearby_members, ratio, density, crosstab, value_counts; emas.ema) "
                  "and 32 array-level entry points (emas.ema_grouped called positionally / by keyword / with times, numba.group_* at n_threads 1 and 2, rolling_*, cum*, group_nearby_members) x each array argument (values, second of two values, boolean mask, times, second key) x length offset -2,-1,+1,+2 (for -1/+1 also with the other optional array arguments absent, and with all of them of the same wrong length) "
                  "x key rows in {[0,0],[0,1,0],[0,0,1,1]} x keys as ndarray / pandas Series x argument as ndarray / pandas Series; pandas index of the argument in {reversed, shifted, duplicated, string labels} against keys with a default, a custom or a 2-level (MultiIndex) row index "
                  "(or against the other pandas arguments when the keys are plain; not for numba.*, whose keys are integer codes without an index); aligned controls (all plain, all on the keys' index, pandas on index-free keys, plain on indexed keys); positional masks with positions in {-n-1,-n,-1,0,n-1,n,n+1}",
         "thorough": "as quick, plus polars / pyarrow containers for the perturbed argument and key rows [0,1,0,1,2]"}
RULE = "a case = (operation, key rows, key container, perturbed argument, perturbation, container); distinct = distinct canonical JSON; non-trivial = a perturbation is present (the aligned controls are the trivial ones)"
ASSUMPTIONS = ["'index identical' is pandas Index.equals (same labels in the same order; a RangeIndex equals the explicit integers)", "any exception type counts as a rejection, provided the aligned control of the same operation returns",
               "negative in-range positions of a positional mask wrap (array-indexing semantics, as in C05); only positions outside [-n, n) must be rejected",
               "BOUNDED: exploration of the stated scope; the S tier is exhaustive over the package's source files"]
REQUIRED_CONTRACTS = {"numba._group_by_reduce": 1, "numba._cumulative_reduce": 1, "numba._rolling_sum_or_mean_1d": 1, "numba._rolling_max_or_min_1d": 1, "numba._rolling_shift_or_diff_1d": 1,
                      "numba._find_nth": 1, "numba._find_first_or_last_n": 1, "emas._ema_grouped": 1, "emas._ema_grouped_timed": 1}
EXPLANATION = ("Exceptional postconditions evaluated on the real public functions over a bounded space of misalignments, a structural obligation on every use of the alignment decorator, and precondition monitors "
               "on the kernels (equal lengths, key < ngroups) which every caller must establish. Bounded exploration, nothing is claimed beyond the enumerated scope.")
BUDGET = {"quick": 50, "thorough": 300}
PATTERNS = {"quick": [[0, 1, 0], [0, 0, 1, 1], [0, 0]], "thorough": [[0, 1, 0], [0, 0, 1, 1], [0, 0], [0, 1, 0, 1, 2]]}
DECORATOR = "check_data_inputs_aligned"


class KernelPreconditionViolated(Exception):
    """raised by the kernel monitors INSTEAD of executing a kernel out of bounds"""


# ----------------------------------------------------------------------------- S tier
def static_obligations(repo, tier):
    rows = []; pkg = os.path.join(repo, "groupby_lib"); ndefs = 0
    for dirpath, dirnames, filenames in sorted(os.walk(pkg)):
        dirnames[:] = sorted(d for d in dirnames if d != "__pycache__")
        for fname in sorted(filenames):
            if not fname.endswith(".py"): continue
            path = os.path.join(dirpath, fname); rel = os.path.relpath(path, pkg)
            try: tree = ast.parse(open(path).read(), filename=path)
            except SyntaxError as ex:
                rows.append({"name": f"{rel}::<module>::parses", "tier": "S", "ok": False, "detail": str(ex), "case": None}); continue
            for node in ast.walk(tree):
                if not isinstance(node, (ast.FunctionDef, ast.AsyncFunctionDef)): continue
                if node.name == DECORATOR: ndefs += 1
                for dec in node.decorator_list:
                    f = dec.func if isinstance(dec, ast.Call) else dec
                    fname_ = f.id if isinstance(f, ast.Name) else (f.attr if isinstance(f, ast.Attribute) else None)
                    if fname_ != DECORATOR: continue
                    a = node.args; params = [x.arg for x in a.posonlyargs + a.args + a.kwonlyargs]
                    bad = []
                    if not isinstance(dec, ast.Call): bad.append("decorator factory used without a call")
                    else:
                        for arg in dec.args:
                            if isinstance(arg, ast.Starred) or not (isinstance(arg, ast.Constant) and isinstance(arg.value, str)): bad.append(f"argument {ast.unparse(arg)} is not a string literal (cannot be resolved statically)")
                            elif arg.value not in params: bad.append(f"{arg.value!r} is not a parameter of {node.name}({', '.join(params)})")
                    rows.append({"name": f"{rel}::{node.name}::aligned-args-are-parameters", "tier": "S", "ok": not bad, "exhaustive": True,
                                 "detail": "; ".join(bad) or f"checks {[x.value for x in dec.args] if isinstance(dec, ast.Call) else []} of ({', '.join(params)})",
                                 "case": {"file": rel, "function": node.name, "line": node.lineno} if bad else None})
    rows.append({"name": "util.py::check_data_inputs_aligned::defined-and-used", "tier": "S", "ok": ndefs == 1 and len(rows) >= 1, "exhaustive": True,
                 "detail": f"{ndefs} definition(s), {len(rows)} decorated function(s)", "case": None if (ndefs == 1 and rows) else {"definitions": ndefs}})
    return rows


# ----------------------------------------------------------------------------- operations
def _V(a, cont):
    """the `values` argument: a single array, or a collection of two when a second value array is present (list for plain arrays, dict for pandas)"""
    if a.get("values2") is None: return a["values"]
    return {"v1": a["values"], "v2": a["values2"]} if cont == "pd" else [a["values"], a["values2"]]


def _build_ops():
    ops = {}
    def op(name, args, call, level="public", ref="keys"): ops[name] = {"args": args, "call": call, "level": level, "ref": ref}
    VM = ("values", "values2", "mask")
    for r in ("count", "sum", "mean", "min", "max", "var", "std", "first", "last"):
        op(f"GroupBy.{r}", VM, lambda gb, a, c, r=r: getattr(gb, r)(_V(a, c), mask=a["mask"]))
    op("GroupBy.size", ("mask",), lambda gb, a, c: gb.size(mask=a["mask"]))
    op("GroupBy.sum[transform]", VM, lambda gb, a, c: gb.sum(_V(a, c), mask=a["mask"], transform=True))
    op("GroupBy.max[transform]", VM, lambda gb, a, c: gb.max(_V(a, c), mask=a["mask"], transform=True))
    op("GroupBy.agg", VM, lambda gb, a, c: gb.agg(_V(a, c), "sum", mask=a["mask"]))
    op("GroupBy.agg[list]", ("values", "mask"), lambda gb, a, c: gb.agg(a["values"], ["sum", "max"], mask=a["mask"]))
    op("GroupBy.apply", VM, lambda gb, a, c: gb.apply(_V(a, c), np.sum, mask=a["mask"]))
    op("GroupBy.median", VM, lambda gb, a, c: gb.median(_V(a, c), mask=a["mask"]))
    op("GroupBy.quantile", VM, lambda gb, a, c: gb.quantile(_V(a, c), q=[0.5], mask=a["mask"]))
    for r in ("cumsum", "cummin", "cummax"):
        op(f"GroupBy.{r}", VM, lambda gb, a, c, r=r: getattr(gb, r)(_V(a, c), mask=a["mask"]))
    op("GroupBy.cumcount", ("mask",), lambda gb, a, c: gb.cumcount(mask=a["mask"]))
    for r in ("rolling_sum", "rolling_mean", "rolling_min", "rolling_max"):
        op(f"GroupBy.{r}", VM, lambda gb, a, c, r=r: getattr(gb, r)(_V(a, c), window=2, min_periods=1, mask=a["mask"]))
    op("GroupBy.rolling_sum[index_by_groups]", ("values", "mask"), lambda gb, a, c: gb.rolling_sum(a["values"], window=2, min_periods=1, mask=a["mask"], index_by_groups=True))
    for r in ("shift", "diff"):
        op(f"GroupBy.{r}", VM, lambda gb, a, c, r=r: getattr(gb, r)(_V(a, c), window=1, mask=a["mask"]))
    op("GroupBy.ema", VM, lambda gb, a, c: gb.ema(_V(a, c), alpha=0.5, mask=a["mask"]))
    op("GroupBy.ema[times]", ("values", "mask", "times"), lambda gb, a, c: gb.ema(a["values"], halflife="1h", times=a["times"], mask=a["mask"]))
    op("GroupBy.ema[index_by_groups]", ("values", "mask"), lambda gb, a, c: gb.ema(a["values"], alpha=0.5, mask=a["mask"], index_by_groups=True))
    op("GroupBy.ema[times,index_by_groups]", ("values", "mask", "times"), lambda gb, a, c: gb.ema(a["values"], halflife="1h", times=a["times"], mask=a["mask"], index_by_groups=True))
    for r in ("head", "tail", "nth"):
        op(f"GroupBy.{r}", ("values", "values2"), lambda gb, a, c, r=r: getattr(gb, r)(_V(a, c), n=1))
        op(f"GroupBy.{r}[keep_input_index]", ("values", "values2"), lambda gb, a, c, r=r: getattr(gb, r)(_V(a, c), n=1, keep_input_index=True))
    op("GroupBy.group_nearby_members", ("values",), lambda gb, a, c: gb.group_nearby_members(a["values"], max_diff=1.0))
    op("GroupBy.ratio", ("values", "values2", "mask"), lambda gb, a, c: gb.ratio(a["values"], a["values2"] if a.get("values2") is not None else a["values"], mask=a["mask"]))
    op("GroupBy.density", ("values", "mask"), lambda gb, a, c: gb.density(a["values"], mask=a["mask"]))
    op("GroupBy.density[size]", ("mask",), lambda gb, a, c: gb.density(mask=a["mask"]))
    def crosstab(keys, a, c):
        from groupby_lib.groupby import crosstab as ct
        return ct(keys, a["columns"], values=a["values"], aggfunc="sum", mask=a["mask"])
    op("crosstab", ("columns", "values", "mask"), crosstab, ref="rawkeys")
    def crosstab_size(keys, a, c):
        from groupby_lib.groupby import crosstab as ct
        return ct(keys, a["columns"], mask=a["mask"])
    op("crosstab[size]", ("columns", "mask"), crosstab_size, ref="rawkeys")
    def value_counts(keys, a, c):
        from groupby_lib.groupby import value_counts as vc
        return vc(keys, mask=a["mask"])
    op("value_counts", ("mask",), value_counts, ref="rawkeys")
    def ema_alpha(keys, a, c):
        from groupby_lib.emas import ema
        return ema(a["values"], halflife="1h", times=a["times"])
    op("emas.ema[times]", ("times",), ema_alpha, ref="values")
    def ema_grouped(codes, a, c):
        from groupby_lib.emas import ema_grouped as eg
        return eg(codes, int(max(codes)) + 1, a["values"], alpha=0.5, mask=a["mask"])
    op("emas.ema_grouped", ("values", "mask"), ema_grouped, level="kernel", ref="codes_pd")
    def ema_grouped_t(codes, a, c):
        from groupby_lib.emas import ema_grouped as eg
        return eg(codes, int(max(codes)) + 1, a["values"], halflife="1h", times=a["times"], mask=a["mask"])
    op("emas.ema_grouped[times]", ("values", "times", "mask"), ema_grouped_t, level="kernel", ref="codes_pd")
    def ema_grouped_kw(codes, a, c):
        from groupby_lib.emas import ema_grouped as eg
        return eg(group_key=codes, ngroups=int(max(codes)) + 1, values=a["values"], halflife="1h", times=a["times"], mask=a["mask"])
    op("emas.ema_grouped[keywords]", ("values", "times", "mask"), ema_grouped_kw, level="kernel", ref="codes_pd")
    def knl(fname, **kw):
        def call(codes, a, c):
            from groupby_lib.groupby import numba as gn
            return getattr(gn, fname)(codes, a["values"], int(max(codes)) + 1, mask=a["mask"], **kw)
        return call
    for r in ("count", "sum", "mean", "min", "max", "first", "last", "sum_squares"):
        op(f"numba.group_{r}", ("values", "mask"), knl(f"group_{r}"), level="kernel", ref="codes")
        op(f"numba.group_{r}[n_threads=2]", ("values", "mask"), knl(f"group_{r}", n_threads=2), level="kernel", ref="codes")
    def gsize(nt):
        def call(codes, a, c):
            from groupby_lib.groupby import numba as gn
            return gn.group_size(codes, int(max(codes)) + 1, mask=a["mask"], n_threads=nt)
        return call
    op("numba.group_size", ("mask",), gsize(1), level="kernel", ref="codes"); op("numba.group_size[n_threads=2]", ("mask",), gsize(2), level="kernel", ref="codes")
    for r in ("rolling_sum", "rolling_mean", "rolling_min", "rolling_max"):
        op(f"numba.{r}", ("values", "mask"), knl(r, window=2, min_periods=1), level="kernel", ref="codes")
    for r in ("rolling_shift", "rolling_diff"):
        op(f"numba.{r}", ("values", "mask"), knl(r, window=1), level="kernel", ref="codes")
    for r in ("cumsum", "cummin", "cummax", "cumcount"):
        op(f"numba.{r}", ("values", "mask"), knl(r), level="kernel", ref="codes")
    def gnm(codes, a, c):
        from groupby_lib.groupby import numba as gn
        return gn.group_nearby_members(codes, a["values"], 1.0, int(max(codes)) + 1)
    op("numba.group_nearby_members", ("values",), gnm, level="kernel", ref="codes")
    return ops


OPS = _build_ops()
POS_OPS = [f"GroupBy.{r}" for r in ("size", "count", "sum", "mean", "min", "max", "first", "last")] + [f"numba.group_{r}" for r in ("size", "sum", "min", "first")]
IDX_KINDS = ("perm", "shift", "dup", "str")


def _base(arg, m):
    if arg == "values": return C.make_values("float", m)[0]
    if arg == "values2": return C.make_values("float", m)[0][::-1].copy() + 10.0
    if arg == "mask": return np.array([(i % 3) != 2 for i in range(m)], dtype=bool)      # T,T,F,T,T,F: keeps a row of every group of the key patterns (a fully masked group is another property's business)
    if arg == "times": return np.datetime64("2020-01-01T00:00:00", "ns") + np.arange(m) * np.timedelta64(3600 * 10 ** 9, "ns")
    if arg == "columns": return np.array([(i + 1) % 2 for i in range(m)], dtype=np.int64)
    raise ValueError(arg)


def _wrap_cont(arr, cont, index=None):
    if cont == "np": return arr
    if cont == "pd": return pd.Series(arr, index=index if index is not None else pd.RangeIndex(len(arr)))
    if cont == "pl":
        import polars as pl
        return pl.Series(arr)
    if cont == "pa":
        import pyarrow as pa
        return pa.array(arr)
    raise ValueError(cont)


def _idx0(kk, n):
    if kk == "pdm": return pd.MultiIndex.from_arrays([[i // 2 for i in range(n)], [10 * (i + 1) for i in range(n)]], names=["a", "b"])     # keys on a 2-level row index
    return pd.RangeIndex(n) if kk in ("pd", "np") else pd.Index([10 * (i + 1) for i in range(n)])


def _pert_index(kind, idx0):
    L = list(idx0)
    if isinstance(idx0, pd.MultiIndex):
        # perm keeps the LEVELS (same label sets) and changes only the codes; shift changes one level; dup repeats the first tuple; str changes the outer level's type
        t = {"perm": L[::-1], "shift": [(a, b + 1) for a, b in L], "dup": [L[0]] * len(L), "str": [(f"r{a}", b) for a, b in L]}[kind]
        return pd.MultiIndex.from_tuples(t, names=idx0.names)
    if kind == "perm": return pd.Index(L[::-1])
    if kind == "shift": return pd.Index([x + 1 for x in L])
    if kind == "dup": return pd.Index([L[0]] * len(L))
    if kind == "str": return pd.Index([f"r{x}" for x in L])
    raise ValueError(kind)


# ----------------------------------------------------------------------------- enumeration
def cases(tier, seed):
    pats = PATTERNS[tier]; conts = ("np", "pd") + (("pl", "pa") if tier == "thorough" else ())
    def aligned():
        for name, o in OPS.items():
            for keys in pats[:2]:
                for kk, cont in (("np", "np"), ("pd", "pd"), ("pdc", "pd"), ("np", "pdx"), ("pd", "np"), ("pdm", "pd")):
                    if o["ref"] in ("codes", "values") and kk != "np": continue
                    yield {"op": name, "keys": keys, "kk": kk, "arg": None, "pert": None, "cont": cont}
    def lengths(level):
        for name, o in OPS.items():
            if o["level"] != level: continue
            for keys in pats:
                for arg in o["args"]:
                    for off in (-1, 1, -2, 2):
                        if len(keys) + off < 0: continue
                        for kk in ("np", "pd"):
                            if o["ref"] in ("codes", "values") and kk != "np": continue
                            for cont in conts:
                                if cont in ("pl", "pa") and arg in ("times", "columns"): continue
                                yield {"op": name, "keys": keys, "kk": kk, "arg": arg, "pert": ["len", off], "cont": cont}
                                # the other array arguments absent (mask=None, a single value array) / of the SAME wrong length: only the comparison with the key rows can reject these
                                if off in (-1, 1) and cont == "np" and kk == "np" and o["ref"] != "values":
                                    for others in ("absent", "same"):
                                        yield {"op": name, "keys": keys, "kk": kk, "arg": arg, "pert": ["len", off], "cont": cont, "others": others}
    def indexes():
        for name, o in OPS.items():
            if name.startswith("numba."): continue        # array-level entry points: their keys are integer codes without an index, the statement's index clause does not apply
            for arg in o["args"]:
                for kind in IDX_KINDS:
                    for kk in ("pd", "pdc", "np", "pdm"):
                        if o["ref"] in ("codes", "values") and kk != "np": continue
                        others = [x for x in o["args"] if x != arg and x != "values2"] + (["values"] if o["ref"] == "values" else [])
                        for cont in ("pd", "np"):
                            if kk == "np" and (cont == "np" or not others): continue    # plain keys and no other pandas argument: nothing to be misaligned with
                            yield {"op": name, "keys": pats[0], "kk": kk, "arg": arg, "pert": ["idx", kind], "cont": cont}
    def positions():
        for name in POS_OPS:
            for keys in pats[:2]:
                n = len(keys)
                for p in (-n - 1, -n, -1, 0, n - 1, n, n + 1):
                    yield {"op": name, "keys": keys, "kk": "np", "arg": "mask", "pert": ["pos", p], "cont": "np"}
    return C.roundrobin(aligned(), lengths("public"), lengths("kernel"), indexes(), positions(), weights=(2, 8, 3, 4, 1))


def nontrivial(case): return case["pert"] is not None


# ----------------------------------------------------------------------------- one case
def _used_args(o, case):
    use = [x for x in o["args"] if x != "values2"]
    if "values2" in o["args"] and (case["arg"] == "values2" or case["op"] == "GroupBy.ratio" or (case["pert"] is None and case["cont"] in ("pd", "pdx"))): use.append("values2")   # a collection of two values when the second one is perturbed (and in the pandas controls)
    if o["ref"] == "values" and "values" not in use: use.append("values")
    return use


def build(case):
    """-> (reference object handed to the operation, argument dict, container kind of the unperturbed arguments, misaligned?, description)"""
    o = OPS[case["op"]]; keys = case["keys"]; n = len(keys); kk = case["kk"]; cont = case["cont"]; pert = case["pert"]; parg = case["arg"]
    idx0 = _idx0(kk, n)
    other_cont = "pd" if cont in ("pd", "pdx") else "np"
    other_index = pd.Index([7 + i for i in range(n)]) if cont == "pdx" else idx0          # pdx: pandas arguments on their own common index, keys index-free
    a = {"values": None, "values2": None, "mask": None, "times": None, "columns": None}
    misaligned = False; what = "aligned"
    others = case.get("others", "present")
    for arg in _used_args(o, case):
        if arg != parg and others == "absent" and arg in ("mask", "values2") and case["op"] != "GroupBy.ratio": continue
        if arg != parg and others == "same" and pert is not None and pert[0] == "len":
            a[arg] = _wrap_cont(_base(arg, n + pert[1]), other_cont, None); continue
        if arg == parg and pert is not None:
            if pert[0] == "len":
                m = n + pert[1]; a[arg] = _wrap_cont(_base(arg, m), cont, None); misaligned = True
                what = f"{arg} ({cont}) has {m} rows, keys have {n}" + {"present": "", "absent": "; no other optional array argument", "same": f"; the other array arguments have {m} rows too"}[others]
            elif pert[0] == "idx":
                a[arg] = _wrap_cont(_base(arg, n), "pd", _pert_index(pert[1], idx0)); misaligned = True
                what = f"{arg} is a pandas Series with index {list(a[arg].index)}; keys ({kk}) / other arguments ({other_cont}) have index {list(idx0)}"
            elif pert[0] == "pos":
                a[arg] = np.array([pert[1]], dtype=np.int64); misaligned = not (-n <= pert[1] < n); what = f"positional mask [{pert[1]}] on {n} key rows"
        else:
            a[arg] = _wrap_cont(_base(arg, n), other_cont, other_index)
    if o["ref"] == "codes" or (o["ref"] == "codes_pd" and kk == "np"): ref = np.array(keys, dtype=np.int64)
    elif o["ref"] == "codes_pd": ref = pd.Series(np.array(keys, dtype=np.int64), index=idx0, name="k")
    elif o["ref"] == "values": ref = None
    else:
        labels = np.array([5 + k for k in keys], dtype=np.int64)
        ref = labels if kk == "np" else pd.Series(labels, index=idx0, name="k")
    return ref, a, other_cont, misaligned, what


def check_case(sess, case):
    o = OPS[case["op"]]; ref, a, cont, misaligned, what = build(case)
    fn = case["op"].split("[")[0]
    outcome = None; err = None
    try:
        with contextlib.redirect_stdout(io.StringIO()), warnings.catch_warnings():
            warnings.simplefilter("ignore")
            if o["ref"] == "keys":
                from groupby_lib.groupby import GroupBy
                ref = GroupBy(ref)
            res = o["call"](ref, a, cont)
        outcome = "returned"
    except KernelPreconditionViolated as ex: outcome = "ub"; err = ex
    except Exception as ex: outcome = "raised"; err = ex
    variant = case["op"][len(fn):]
    if misaligned and outcome != "raised":
        arg = case["arg"]; kind = case["pert"][0]
        clause = {"len": f"raises when the length of `{arg}` differs from the number of key rows", "idx": f"raises when `{arg}` is a pandas object whose index is not identical to the keys' index (or to the other pandas arguments' index)",
                  "pos": "raises when a positional mask holds a position outside [-n, n)"}[kind]
        sess.record("raises", fn, clause, {"variant": variant, "input": what, "outcome": "returned a result" if outcome == "returned" else f"no rejection before the kernel: {err}",
                                           "result": (repr(res)[:160] if outcome == "returned" else None)})
    elif not misaligned and outcome != "returned":
        sess.record("raises", fn, f"aligned inputs are never rejected: {type(err).__name__}", {"variant": variant, "input": what, "error": str(err)[:200]})
    return 1


# ----------------------------------------------------------------------------- kernel-precondition monitors
def _max(x):
    x = np.asarray(x)
    return int(x.max()) if x.size else -1


def _lens(group_key, values_list, mask=None, times=None, target=None, ngroups=None):
    n = len(group_key)
    if sum(len(v) for v in values_list) != n: return "len(values) == len(group_key)"
    if mask is not None and len(mask) != n: return "len(mask) == len(group_key)"
    if times is not None and len(times) != n: return "len(times) == len(group_key)"
    if target is not None and len(target) != n: return "len(target) == len(group_key)"
    if ngroups is not None and _max(group_key) >= ngroups: return "max(group_key) < ngroups"
    return None


def install(sess):
    def monitor(modname, name, requires):
        mod = importlib.import_module(modname); real = getattr(mod, name)
        def guard(*a, **k):
            try: msg = requires(*a, **k)
            except Exception: msg = None
            if msg: raise KernelPreconditionViolated(f"{name} requires {msg}")
            return real(*a, **k)
        for at in ("py_func", "__nb_func__"):
            if hasattr(real, at): setattr(guard, at, getattr(real, at))
        guard.__name__ = name; guard.__wrapped__ = real          # inspect.signature(...) is used by the library on these kernels: keep it resolvable
        setattr(mod, name, guard); sess._undo.append((mod, name, real))
        sess.wrap(modname, name, requires=lambda *a, **k: (lambda msg: f"requires {msg} (else the kernel reads/writes out of bounds)" if msg else None)(requires(*a, **k)))
    N = "groupby_lib.groupby.numba"
    def pre_gbr(group_key, values, target, reduce_func, indexer=None, check_in_bounds=True):
        n = len(group_key)
        if len(values) != n: return "len(values) == len(group_key)"
        if n and _max(group_key) >= len(target): return "max(group_key) < len(target)"
        # with check_in_bounds the kernel itself rejects positions outside [-n, n) (proved: raises clause of its contract); only UNCHECKED positions are a precondition
        if indexer is not None and not check_in_bounds and len(indexer) and int(np.min(indexer)) < -n: return "every unchecked position of the indexer >= -len(group_key)"
        if indexer is not None and not check_in_bounds and len(indexer) and int(np.max(indexer)) >= n: return "every unchecked position of the indexer < len(group_key)"
    monitor(N, "_group_by_reduce", pre_gbr)
    monitor(N, "_cumulative_reduce", lambda group_key, values, reduce_func, ngroups, target, mask=None: _lens(group_key, values, mask=mask, target=target, ngroups=ngroups))
    monitor(N, "_rolling_sum_or_mean_1d", lambda group_key, values, ngroups, window, min_periods=None, mask=None, null_value=np.nan, want_mean=False: _lens(group_key, values, mask=mask, ngroups=ngroups))
    monitor(N, "_rolling_max_or_min_1d", lambda group_key, values, ngroups, window, min_periods=None, mask=None, null_value=np.nan, want_max=True: _lens(group_key, values, mask=mask, ngroups=ngroups))
    monitor(N, "_rolling_shift_or_diff_1d", lambda group_key, values, ngroups, window, mask=None, null_value=np.nan, want_shift=True: _lens(group_key, values, mask=mask, ngroups=ngroups))
    monitor(N, "_find_nth", lambda group_key, ngroups, n, mask=None: _lens(group_key, [group_key], mask=mask, ngroups=ngroups))
    monitor(N, "_find_first_or_last_n", lambda group_key, ngroups, n, mask=None, forward=True: _lens(group_key, [group_key], mask=mask, ngroups=ngroups))
    E = "groupby_lib.emas"
    monitor(E, "_ema_grouped", lambda group_key, values, alpha, ngroups, mask=None: _lens(group_key, [values], mask=mask, ngroups=ngroups))
    monitor(E, "_ema_grouped_timed", lambda group_key, values, times, halflife, ngroups, mask=None: _lens(group_key, [values], mask=mask, times=times, ngroups=ngroups))
