"""C04 — block-wise reduction equals single-pass reduction (kernel contract).

P/L (unbounded, counted as proved): ScalarFuncs.X = step_X; _group_by_reduce (sequential and indexer modes) = Fold_step for every group;
reduce_array_pair = element-wise reducer with the accumulated count; L-merge-step / L-merge (merge of the folds of two consecutive
blocks = fold of the concatenation, by induction on rows), L-char (fold = first-order definition), L-filter (mask = filtering).
B (bounded, NOT counted as proved): the Python dispatch around the kernels (_group_func_wrap, _apply_group_method_single_chunk,
_chunk_groupby_args, combine_chunk_results_for_factorized_key, group_*), in the shape of the property's own quantifier:
 (a) single pass + masks:  group_<op>(codes, values, ngroups, mask, n_threads=1) == definition
 (b) merge clause:         every composition of the rows into <= 4 consecutive blocks, each block reduced by the real
                           _apply_group_method_single_chunk and merged by the real combine_chunk_results_for_factorized_key
 (c) real dispatch:        n_threads in 2..4 through group_<op> (np.array_split of rows / of the positions of a mask, thread pool, combine)
     Multi-chunk value lists are NOT driven through group_<op>: on the pinned tree that path raises ValueError for every input
     (np.array_split on a tuple of arrays) - a loud failure outside C04's statement; chunked containers are C03/C12 at the public API.
"""
import itertools, random
import numpy as np, pandas as pd
from . import common as C

PROP = "C04"; LEVEL = "proof"; P_TIER = True
OPS = ["size", "count", "sum", "sum_squares", "mean", "min", "max", "first", "last"]
FUNC = {"count": "nancount", "sum": "nansum", "sum_squares": "nansum_squares", "min": "nanmin", "max": "nanmax", "first": "first", "last": "last", "size": "count"}
NG = 3
SCOPE = {"quick": "codes over {-1,0,1,2}: (a) all sequences n<=4 x value classes {float,intnull,int,bool,datetime} x every null pattern x masks {none, every boolean, every slice with bounds in [-n-1,n+1], positions of length<=2 incl. repeats and negatives} x 9 kernels; (b) every composition into <=4 blocks for n<=4; (c) n_threads 2..4 for n<=3 with none/boolean/positional masks; seeded random cases up to 12 rows",
         "thorough": "as quick with (a) n<=6 (float/intnull; n<=5 other classes), (b) n<=5, (c) n<=4, random cases up to 24 rows"}
RULE = "a case = (codes, value class, null pattern, mask, depth a/b/c with its split); distinct = distinct canonical JSON; non-trivial = at least two group codes, or a negative code, or a null value, or a mask, or more than one block"
ASSUMPTIONS = ["A-real: float sums are compared with a relative tolerance 1e-9 in the bounded tier and are real arithmetic in the proof tier",
               "A-int64: no overflow of 64-bit accumulators", "np.array_split / ndarray.nonzero / slicing behave as documented (bounded tier exercises them)",
               "numba compiles the kernels to the typed semantics PyVC encodes (cross-checked by the bounded tier on every case)"]
TRUSTED_BASE = ["L-merge is proved on the specification fold; its link to combine_chunk_results_for_factorized_key's Python loop is the reduce_array_pair contract plus the bounded clause (b)"]
REQUIRED_CONTRACTS = {"numba._group_by_reduce": 1, "numba.reduce_array_pair": 1, "numba._apply_group_method_single_chunk": 1}
EXPLANATION = ("Kernel contract. Proof tier: every obligation PyVC generates from the real source of ScalarFuncs.*, _group_by_reduce, reduce_array_pair is discharged, and the merge/characterisation/filter lemmas "
               "are proved by induction on the specification fold (unbounded in rows, groups and blocks). Bounded tier: run-time contracts on the Python dispatch around those kernels.")
BUDGET = {"quick": 50, "thorough": 500}


def _ops_for(vkind):
    if vkind == "datetime": return [o for o in OPS if o not in ("sum", "sum_squares")]          # a sum of timestamps has no meaning
    if vkind == "timedelta": return [o for o in OPS if o != "sum_squares"]
    if vkind == "intnull": return [o for o in OPS if o not in ("sum", "sum_squares", "mean")]   # plain int64 has no null for arithmetic: -2^63 is a number to `sum`; it is the null of selections
    return OPS


def expected(op, codes, vals, rows):
    return C.spec_group_reduce(op, codes, vals, rows, NG)


def _call(op, codes, v, mask, n_threads=1):
    from groupby_lib.groupby import numba as gn
    if op == "size": return gn.group_size(codes, NG, mask=mask, n_threads=n_threads)
    return getattr(gn, f"group_{op}")(codes, v, NG, mask=mask, n_threads=n_threads)


def _compare(sess, fn, clause, got, exp, vkind, op):
    got = list(np.asarray(got))
    if len(got) != len(exp): sess.record("post", fn, clause + " (length)", {"got": str(got), "expected": str(exp)}); return
    for k, (g, e) in enumerate(zip(got, exp)):
        if vkind == "bool" and op in ("min", "max", "first", "last") and e is None: e = False      # bool accumulators start at False and have no null
        if vkind == "uint" and e is None: continue
        if op == "mean" and vkind in ("datetime", "timedelta") and e is not None and not C.is_null(g):
            # the statement defines mean as sum divided by count: a float64 quotient, so temporal means carry float64 resolution (2^-52 relative)
            gv, evv = pd.Timestamp(g).value if vkind == "datetime" else pd.Timedelta(g).value, e.value
            if abs(gv - evv) <= max(2, abs(evv) * 2.0 ** -50): continue
        if not C.same(g, e): sess.record("post", fn, clause, {"group": k, "got": str(g), "expected": str(e), "all_got": str(got), "all_expected": str(exp)}); return


def cases(tier, seed):
    return C.roundrobin(_cases_a(tier), _cases_b(tier), _cases_c(tier), weights=(12, 6, 1))


def _cases_a(tier):
    big = tier == "thorough"
    # (a) single pass + masks
    for n in range(0, (6 if big else 4) + 1):
        for vkind in ("float", "intnull", "int", "bool", "datetime", "timedelta"):
            if n > (5 if big else 3) and vkind in ("int", "bool", "datetime", "timedelta"): continue
            for codes in itertools.product([-1, 0, 1, 2], repeat=n):
                if n >= 5 and codes[0] > 0: continue          # symmetry cut at the larger sizes: first code in {-1, 0}
                pats = C.null_patterns(vkind, n)
                if n >= 5: pats = [p for p in pats if sum(p) <= 2 or all(p)]
                for pat in pats:
                    kinds = ("none", "bool", "slice", "pos") if n <= 3 else (("none", "bool", "slice") if n == 4 else ("none", "bool"))
                    for mask in C.masks_for(n, kinds):
                        yield {"depth": "a", "codes": list(codes), "vkind": vkind, "nullpat": list(pat), "mask": mask}


def _cases_b(tier):
    big = tier == "thorough"
    # (b) merge clause through the real per-block reducer and the real combine
    for n in range(1, (5 if big else 4) + 1):
        for vkind in ("float", "intnull", "bool"):
            for codes in itertools.product([-1, 0, 1, 2], repeat=n):
                for pat in C.null_patterns(vkind, n):
                    for comp in C.compositions(n, 4):
                        if len(comp) == 1: continue
                        yield {"depth": "b", "codes": list(codes), "vkind": vkind, "nullpat": list(pat), "blocks": comp}


def _cases_c(tier):
    big = tier == "thorough"
    # (c) the real dispatch: threads
    for n in range(1, (4 if big else 3) + 1):
        for vkind in ("float", "intnull"):
            for codes in itertools.product([-1, 0, 1, 2], repeat=n):
                for pat in C.null_patterns(vkind, n):
                    for mask in [None] + [("bool", list(m)) for m in itertools.product([False, True], repeat=n)][1:: 3] + ([("pos", [n - 1, 0, 0])] if n > 1 else []):
                        for nt in (2, 3, 4):
                            yield {"depth": "c", "codes": list(codes), "vkind": vkind, "nullpat": list(pat), "mask": mask, "n_threads": nt, "chunks": None}


def random_case(rnd, tier):
    n = rnd.randint(5, 24 if tier == "thorough" else 12); vkind = rnd.choice(["float", "intnull", "float", "datetime"])
    codes = [rnd.choice([-1, 0, 1, 2]) for _ in range(n)]; pat = [rnd.random() < 0.35 for _ in range(n)]
    d = rnd.choice("abc")
    if d == "a": return {"depth": "a", "codes": codes, "vkind": vkind, "nullpat": pat, "mask": rnd.choice([None, ("bool", [rnd.random() < 0.6 for _ in range(n)]), ("pos", [rnd.randrange(-n, n) for _ in range(rnd.randint(0, n))]), ("slice", [rnd.randrange(-n, n), rnd.choice([None, rnd.randrange(-n, n + 1)]), None])])}
    cuts = sorted(rnd.sample(range(1, n), rnd.randint(1, 3))); b = [0] + cuts + [n]; comp = [b[i + 1] - b[i] for i in range(len(b) - 1)]
    if d == "b": return {"depth": "b", "codes": codes, "vkind": vkind if vkind != "datetime" else "float", "nullpat": pat, "blocks": comp}
    return {"depth": "c", "codes": codes, "vkind": vkind, "nullpat": pat, "mask": rnd.choice([None, ("bool", [rnd.random() < 0.6 for _ in range(n)]), ("pos", [rnd.randrange(-n, n) for _ in range(rnd.randint(1, n))])]), "n_threads": rnd.choice([2, 3, 4, 5]), "chunks": None}


def nontrivial(case):
    cs = case["codes"]
    return len({c for c in cs if c >= 0}) >= 2 or any(c < 0 for c in cs) or any(case["nullpat"]) or case.get("mask") is not None or case["depth"] != "a"


def check_case(sess, case):
    from groupby_lib.groupby import numba as gn
    codes = np.array(case["codes"], dtype=np.int64); n = len(codes); vkind = case["vkind"]
    v, vals = C.make_values(vkind, n, case["nullpat"]); calls = 0
    if case["depth"] == "a":
        rows = C.selection_rows(case["mask"], n); m = C.np_mask(case["mask"])
        for op in _ops_for(vkind):
            calls += 1
            try: got = _call(op, codes, v, m)
            except Exception as ex:
                sess.record("raises", f"numba.group_{op}", f"valid kernel inputs must not fail: {type(ex).__name__}", str(ex)[:200]); continue
            _compare(sess, f"numba.group_{op}", "single pass == per-group definition over the rows the mask selects (array-indexing semantics)", got, expected(op, codes, vals, rows), vkind, op)
    elif case["depth"] == "b":
        b = np.cumsum([0] + case["blocks"])
        for op in [o for o in _ops_for(vkind) if o not in ("mean",)]:
            calls += 1; fname = FUNC[op]
            try:
                parts = [gn._apply_group_method_single_chunk(fname, codes[b[i]:b[i + 1]], v[b[i]:b[i + 1]] if op != "sum_squares" else v[b[i]:b[i + 1]].astype(float), NG) for i in range(len(b) - 1)]
                chunks, counts = zip(*parts); counting = "count" in fname
                if counting: chunks = counts
                res, cnt = gn.combine_chunk_results_for_factorized_key("sum" if counting or "sum" in fname else fname, chunks, counts)
            except Exception as ex:
                sess.record("raises", "numba.combine_chunk_results_for_factorized_key", f"valid partials must merge: {type(ex).__name__}", str(ex)[:200]); continue
            _compare(sess, "numba.combine_chunk_results_for_factorized_key", "merge of the per-block partials == single-pass definition for every group (incl. groups empty or all-null in some blocks)",
                     res, expected(op, codes, vals, list(range(n))), vkind, op)
    else:
        rows = C.selection_rows(case["mask"], n); m = C.np_mask(case["mask"])
        vv = v
        for op in _ops_for(vkind):
            calls += 1
            try: got = _call(op, codes, vv, m, case["n_threads"])
            except Exception as ex:
                sess.record("raises", f"numba.group_{op}", f"valid kernel inputs must not fail (threads/chunks): {type(ex).__name__}", str(ex)[:200]); continue
            _compare(sess, f"numba.group_{op}", "threaded / chunked dispatch == single-pass definition", got, expected(op, codes, vals, rows), vkind, op)
    return calls


def install(sess):
    """kernel-precondition monitors (the `requires` under which the kernels are proved) + intermediate contracts of the chain"""
    def pre_gbr(group_key, values, target, reduce_func, indexer=None, check_in_bounds=True):
        n = len(group_key)
        if len(values) != n: return f"len(values)={len(values)} != len(group_key)={n}"
        if n and int(np.max(group_key)) >= len(target): return "group key >= len(target)"
        if indexer is not None and len(indexer) and int(np.min(indexer)) < -n: return "position < -n (numba would read out of bounds)"
        if indexer is not None and not check_in_bounds and len(indexer) and int(np.max(indexer)) >= n: return "unchecked position >= n"
    sess.wrap("groupby_lib.groupby.numba", "_group_by_reduce", requires=pre_gbr)
    def pre_rap(x, y, reducer, counts=None, y_counts=None):
        if len(x) != len(y): return "len(x) != len(y)"
        if counts is not None and len(counts) != len(x): return "len(counts) != len(x)"
        if y_counts is not None and len(y_counts) != len(x): return "len(y_counts) != len(x)"
    sess.wrap("groupby_lib.groupby.numba", "reduce_array_pair", requires=pre_rap)
    def post_single(out, reduce_func_name, group_key, values, ngroups, mask=None):
        target, count = out
        if len(target) != ngroups or len(count) != ngroups: return "target/count must have one slot per group"
        if (np.asarray(count) < 0).any(): return "negative count"
    sess.wrap("groupby_lib.groupby.numba", "_apply_group_method_single_chunk", ensures=post_single)


# ----------------------------------------------------------------------------- F tier: finite domains enumerated completely on the real functions
def static_obligations(repo, tier):
    """(F1) the accumulator table _build_target_for_groupby over every NumPy numeric/bool/temporal dtype x every reducer name the kernels are called with;
    (F2) the name -> reducer resolution: every name the group_* wrappers pass resolves to the ScalarFuncs member whose contract is step_<name>, and the
    merge reducer chosen by _group_func_wrap is the one L-merge is stated for ("sum" for sums and counts, the reducer itself otherwise)."""
    import sys, importlib
    from rtc import core
    core.hygiene(0)
    gn = importlib.import_module("groupby_lib.groupby.numba")
    rows = []
    dtypes = [np.dtype(x) for x in ("int8", "int16", "int32", "int64", "uint8", "uint16", "uint32", "uint64", "float32", "float64", "bool")]      # temporal values are viewed as int64 before they reach the table (_cast_timestamps_to_ints)
    names = ["count", "nancount", "sum", "nansum", "nansum_squares", "min", "max", "nanmin", "nanmax", "first", "last"]
    for dt in dtypes:
        for nm in names:
            name = f"numba.py::_build_target_for_groupby::table[{dt.name},{nm}]"
            try: t = gn._build_target_for_groupby(dt, nm, 3)
            except Exception as ex:
                rows.append({"name": name, "tier": "F", "ok": dt.kind in "mM" and "sum" in nm and False, "detail": f"raised {type(ex).__name__}: {ex}", "case": {"dtype": dt.name, "op": nm}}); continue
            if "count" in nm: exp_dt, exp_init = np.dtype(bool), False            # counts are collected in the separate count array; the target is a dummy
            elif "sum" in nm:
                exp_dt = np.dtype("uint64") if dt.kind == "u" else (np.dtype("int64") if dt.kind in "ib" else dt); exp_init = 0     # integer sums accumulate in 64 bits (C12)
            else:
                exp_dt = dt      # selection-type reducers keep the dtype (C12): the start value is the dtype's null (what is_null recognises), False for bool, max for unsigned
                exp_init = {"i": lambda: np.iinfo(dt).min, "u": lambda: np.iinfo(dt).max, "f": lambda: np.nan, "b": lambda: False, "M": lambda: np.datetime64("NaT"), "m": lambda: np.timedelta64("NaT")}[dt.kind]()
            ok = t.dtype == exp_dt and len(t) == 3
            if ok:
                for x in t:
                    if C.is_null(exp_init): ok &= C.is_null(x)
                    else: ok &= (x == exp_init)
            rows.append({"name": name, "tier": "F", "ok": bool(ok), "detail": f"got dtype {t.dtype} start {t[0]!r}; expected {exp_dt} start {exp_init!r}", "case": {"dtype": dt.name, "op": nm}, "exhaustive": True})
    # F2: names
    for op, fname in sorted(FUNC.items()):
        f = getattr(gn.ScalarFuncs, fname, None)
        rows.append({"name": f"numba.py::ScalarFuncs::resolves[{op}->{fname}]", "tier": "F", "ok": f is not None and getattr(f, "py_func", f).__name__ == fname, "detail": str(f), "exhaustive": True})
    import ast, inspect
    src = open(repo + "/groupby_lib/groupby/numba.py").read(); tree = ast.parse(src)
    fn = next(n for n in tree.body if isinstance(n, ast.FunctionDef) and n.name == "_group_func_wrap")
    calls = [n for n in ast.walk(fn) if isinstance(n, ast.Call) and ast.unparse(n.func) == "combine_chunk_results_for_factorized_key"]
    ok = len(calls) == 1 and ast.unparse(calls[0].args[0]).replace("'", '"') == '"sum" if counting or "sum" in reduce_func_name else reduce_func_name' and len(calls[0].args) == 3 and ast.unparse(calls[0].args[2]) == "counts"
    rows.append({"name": "numba.py::_group_func_wrap::merge-reducer-and-counts", "tier": "S", "ok": bool(ok), "detail": ast.unparse(calls[0]) if calls else "no call found"})
    return rows
