"""C16 — variance, quantiles and composite statistics match their definitions.

P/L (unbounded, maintained separately): ScalarFuncs.nansum_squares / the sum-of-squares path of _group_by_reduce, L-var (one-pass formula == two-pass variance
in real arithmetic), _build_group_sorted_indexer_numba (the split `apply` relies on).
B (bounded, this module): run-time postconditions, clause by clause from the statement, on the public results of
 (v1) GroupBy.var / GroupBy.std (values, ddof in {0,1}, mask): labels == labels with a selected row; per label, with x = the non-null selected values, n = len(x):
        n <= ddof -> null;   else  |var - TwoPass(x, ddof)| <= C_VAR * n * eps * max|x|**2      (C_VAR = 8, eps = 2**-52; the one-pass formula's own error is < 6 n eps max|x|^2)
                                    |std - sqrt(TwoPass)|   <= sqrt(that bound) + 4 eps sqrt(TwoPass)
 (v2) var/std are null ONLY when n <= ddof (a variance that rounds below zero must not turn the std into NaN; no inf)
 (q1) GroupBy.median == np.median, GroupBy.quantile(q) == np.quantile(., q) on the group's selected values (scalar q and lists of q, unsorted lists included;
      "selected values" is read literally: a NaN among them gives NumPy's NaN)
 (a1) GroupBy.apply(values, func) == func(the group's selected values in row order) for functions returning a scalar / a fixed-length vector (index (label, j)) /
      an input-aligned vector (index (label, row)); one and two value columns
 (c1) agg(values, [f1, f2, ...]) == the individual calls side by side (column f_i == GroupBy.f_i(values, mask))
 (c2) ratio(v1, v2) == sum(v1) / sum(v2) per label;  subset_ratio(v, subset, global) == sum over subset&global / sum over global
 (c3) density (single key; sizes or sums) == 100 * group total / grand total over the selected rows, and the shares add up to 100
 + kernel-precondition monitor on numba.group_sum_squares (int64 squares and their sum must fit 64 bits).
Oracle: two-pass variance in exact/compensated arithmetic (fractions for ints, math.fsum for floats), NumPy where the statement names it, the user function itself.
"""
import itertools, io, contextlib, math
from fractions import Fraction
import numpy as np, pandas as pd
from . import common as C

PROP = "C16"; LEVEL = "exploration"; P_TIER = True
EPS = 2.0 ** -52; C_VAR = 8.0
OFFSETS = [0.0, 1e3, 1e6, 1e8]; SCALES = [1e-3, 1.0, 1e3]
SCOPE = {"quick": "keys over {null,a,b} (kinds float/str/two-key) every sequence n<=4: var/std x ddof {0,1} x float values offset {0,1e3,1e6,1e8} x scale {1e-3,1,1e3}, int values offset {0,1e3,1e6,1e8} and 4e9 (squares overflow int64) "
                  "x null patterns/masks {none, boolean, slice}/sort in rotation, plus one 200-row case per magnitude; median/quantile (q in {0.5, [.25,.5,.75], [.9,.1], [0,1], [.5]}), apply (2 scalar, 2 fixed-length-vector, 2 input-aligned functions; one and two value columns), "
                  "agg lists, ratio, subset_ratio, density on every key sequence n<=4 (float keys; n<=3 str/two-key) x float/int values x null patterns x boolean masks; seeded random cases up to 16 rows",
         "thorough": "as quick with n<=5 for float keys and n<=4 for the other kinds, every (null pattern, mask) variant instead of a rotation, random cases up to 40 rows"}
RULE = "a case = (family var|q|apply|comp, keys, key kind, value class/offset/scale, value-null pattern, mask, sort); distinct = distinct canonical JSON; non-trivial = at least two labels, or a null key, or a null value, or a mask"
ASSUMPTIONS = ["the rounding bound of the statement is fixed as C_VAR*n*eps*max|x|^2 with C_VAR = 8 (std: its square root); a float statement decided only inside the bounded scope",
               "'NumPy's on the group's selected values' is read literally: np.median / np.quantile over the selected values of the group, NaN included (NumPy then returns NaN)",
               "np.median / np.quantile / np.array_split behave as documented; user functions are pure", "A-real elsewhere: composite helpers compared with relative tolerance 1e-9",
               "density is checked where the grand total is not (numerically) zero", "BOUNDED: the pandas glue is checked only within the stated scope"]
REQUIRED_CONTRACTS = {"numba.group_sum_squares": 1, "core.GroupBy.apply": 1}
EXPLANATION = ("Mixed evidence, bounded level: the sum / sum-of-squares / count folds and the group-sorted split are kernel contracts (P tier) and L-var links the one-pass formula to the two-pass variance in real arithmetic; "
               "the statement's floating-point rounding bound, the NumPy equalities for median/quantile, apply with user functions and the composite helpers are pandas/NumPy glue and are decided by run-time postconditions "
               "taken from the statement over a bounded-exhaustive scope of keys, magnitudes, null patterns and masks (bounded, not proved).")
BUDGET = {"quick": 60, "thorough": 500}
KEY_KINDS = ("float", "str", "two")

FUNCS = {
    "first2last": ("scalar", lambda x: x[0] * 2 + x[-1]),                                        # order-sensitive: a group handed over in another order is visible
    "wsum": ("scalar", lambda x: float(np.dot(x, np.arange(1, len(x) + 1)))),
    "vec3": ("fixed", lambda x: np.array([x[0], x[-1], float(len(x))])),
    "vec1": ("fixed", lambda x: np.array([x.sum()])),
    "demean0": ("aligned", lambda x: x - x[0]),
    "cumsum": ("aligned", np.cumsum),
}
QS = [0.5, [0.25, 0.5, 0.75], [0.9, 0.1], [0.0, 1.0], [0.5]]
AGG_LISTS = [["sum", "mean", "max"], ["count", "var", "min"], ["std", "first", "last"]]


# ----------------------------------------------------------------------------- materialisation
def make_keys(kkind, keys):
    if kkind == "float": return np.array([np.nan if x is None else float(x) for x in keys]), [None if x is None else float(x) for x in keys]
    if kkind == "str": return np.array([None if x is None else "abc"[x] for x in keys], dtype=object), [None if x is None else "abc"[x] for x in keys]
    if kkind == "two":      # first = x // 2 as float (null when x is None), second = parity as str
        k1 = np.array([np.nan if x is None else float(x // 2) for x in keys]); k2 = np.array(["ev" if (x or 0) % 2 == 0 else "od" for x in keys], dtype=object)
        return [k1, k2], [None if x is None else (float(x // 2), "ev" if x % 2 == 0 else "od") for x in keys]
    raise ValueError(kkind)


def make_vals(vclass, off, scale, n, nullpat):
    """position-tagged values off + scale*u_i; -> (array, logical values with None for null)"""
    if vclass == "float":
        vals = [None if nullpat[i] else off + scale * (((i * 7) % 5) * 1.5 - 2.0 + i * 0.25) for i in range(n)]
        return np.array([np.nan if x is None else x for x in vals], dtype=np.float64), vals
    if vclass == "int":
        vals = [int(off) + max(1, int(scale)) * (((i * 5) % 7) - 3 + 10 * (i % 2)) for i in range(n)]
        return np.array(vals, dtype=np.int64), vals
    if vclass == "intbig":      # squares (1.6e19) do not fit int64: the known open defect of the int64 sum-of-squares accumulator
        vals = [4_000_000_000 + ((i * 5) % 7) for i in range(n)]
        return np.array(vals, dtype=np.int64), vals
    if vclass == "intwide":     # as intbig, with a spread far above the rounding bound (epoch-millisecond-like data): a wrapped integer sum of squares cannot hide inside the tolerance
        vals = [3_000_000_000 + 250_000_000 * (((i * 5) % 7) - 3) for i in range(n)]
        return np.array(vals, dtype=np.int64), vals
    raise ValueError(vclass)


def two_pass(xs, ddof):
    n = len(xs)
    if n <= ddof: return None
    if all(isinstance(x, int) for x in xs):
        m = Fraction(sum(xs), n); return float(sum((x - m) ** 2 for x in xs) / (n - ddof))
    m = math.fsum(xs) / n
    return math.fsum((x - m) ** 2 for x in xs) / (n - ddof)


def _py(x): return x.item() if isinstance(x, np.generic) else x
def _labels(index): return [tuple(_py(e) for e in x) if isinstance(x, tuple) else (_py(x),) for x in index]
def _lab(l): return l if isinstance(l, tuple) else (l,)


def _groups(labs, rows):
    """label tuple -> selected rows of that label in selection (= row) order; rows with a null key belong to no group"""
    g = {}
    for r in rows:
        if labs[r] is not None: g.setdefault(_lab(labs[r]), []).append(r)
    return g


def _series_map(res):
    return dict(zip(_labels(res.index), list(res.array)))


def _close(g, e, rtol=1e-9):
    """e: float or None/NaN (null) or +-inf"""
    if e is None or (isinstance(e, float) and math.isnan(e)): return C.is_null(g)
    if C.is_null(g): return False
    g = float(g); e = float(e)
    if math.isinf(e) or math.isinf(g): return g == e
    return abs(g - e) <= rtol * max(1.0, abs(e))


# ----------------------------------------------------------------------------- cases
def _keyseqs(N): return itertools.chain.from_iterable(itertools.product([None, 0, 1], repeat=n) for n in range(1, N + 1))


def _variants(n):
    """(null pattern, mask, sort)"""
    no = [False] * n; alt = [i % 2 == 1 for i in range(n)]
    out = [(no, None, True), (alt, None, False), ([True] + no[1:], ("bool", [True] * (n - 1) + [False]), True), (no, ("bool", [i % 2 == 0 for i in range(n)]), False),
           (no[:-1] + [True], ("slice", [1, None, None]), True), ([True] * n, None, True), (alt, ("bool", [False] + [True] * (n - 1)), False), (no, ("bool", [False] * n), True)]
    return out


def _magnitudes():
    out = [("float", o, s) for o in OFFSETS for s in SCALES] + [("int", o, 1.0) for o in OFFSETS] + [("int", 0.0, 1e3), ("intbig", 4e9, 1.0), ("intwide", 3e9, 1.0)]
    return out


def _var_cases(tier):
    big = tier == "thorough"
    for kkind, N in (("float", 5 if big else 4), ("str", 4 if big else 3), ("two", 4 if big else 3)):
        for i, keys in enumerate(_keyseqs(N)):
            n = len(keys); vs = _variants(n)
            for j, (vclass, off, scale) in enumerate(_magnitudes()):
                if kkind != "float" and j % 3 != i % 3: continue
                for pat, mask, sort in (vs if big and n <= 3 else [vs[(i + j) % len(vs)]]):
                    yield {"t": "var", "keys": list(keys), "kkind": kkind, "vclass": vclass, "off": off, "scale": scale, "nullpat": pat, "mask": mask, "sort": sort}


def _fam_cases(tier, fam):
    big = tier == "thorough"
    for kkind, N in (("float", 5 if big else 4), ("str", 4 if big else 3), ("two", 4 if big else 3)):
        for i, keys in enumerate(_keyseqs(N)):
            n = len(keys); vs = [v for v in _variants(n) if v[1] is None or v[1][0] == "bool"]
            for j, vclass in enumerate(("float", "int")):
                take = vs if (big and n <= 4) or n <= 2 else [vs[(i + j + k * 3) % len(vs)] for k in range(2)]
                for pat, mask, sort in take:
                    if vclass == "int" and any(pat) and not all(pat): continue
                    yield {"t": fam, "keys": list(keys), "kkind": kkind, "vclass": vclass, "off": 0.0, "scale": 1.0, "nullpat": pat if vclass == "float" else [False] * n, "mask": mask, "sort": sort}


def cases(tier, seed):
    return C.roundrobin(_var_cases(tier), _fam_cases(tier, "q"), _fam_cases(tier, "apply"), _fam_cases(tier, "comp"), weights=(4, 2, 2, 2))


def extra_cases(tier, seed):
    """one 200-row case per magnitude (the bound grows with n; the cancellation does not)"""
    for m, mask in enumerate((None, ("bool", [True, True, False, True, True, True]))):
        yield {"t": "var", "keys": [0, 0, 1, 1, 0, 1], "kkind": "float", "vclass": "intwide", "off": 3e9, "scale": 1.0, "nullpat": [False] * 6, "mask": mask, "sort": True}
    n = 200; keys = [None if i % 17 == 5 else (i * 7) % 3 for i in range(n)]
    for j, (vclass, off, scale) in enumerate(_magnitudes()):
        yield {"t": "var", "keys": keys, "kkind": "float", "vclass": vclass, "off": off, "scale": scale, "nullpat": [i % 13 == 3 for i in range(n)],
               "mask": [None, ("bool", [i % 5 != 1 for i in range(n)])][j % 2], "sort": j % 2 == 0}


def random_case(rnd, tier):
    n = rnd.randint(5, 40 if tier == "thorough" else 16); fam = rnd.choice(["var", "var", "q", "apply", "comp"])
    vclass, off, scale = rnd.choice(_magnitudes()) if fam == "var" else (rnd.choice(["float", "int"]), 0.0, 1.0)
    return {"t": fam, "keys": [rnd.choice([None, 0, 1, 2]) for _ in range(n)], "kkind": rnd.choice(KEY_KINDS), "vclass": vclass, "off": off, "scale": scale,
            "nullpat": [rnd.random() < 0.25 for _ in range(n)] if vclass == "float" else [False] * n, "sort": rnd.random() < 0.5,
            "mask": rnd.choice([None, ("bool", [rnd.random() < 0.7 for _ in range(n)])])}


def nontrivial(case):
    ks = [k for k in case["keys"] if k is not None]
    return len(set(ks)) >= 2 or None in case["keys"] or case["mask"] is not None or any(case["nullpat"])


# ----------------------------------------------------------------------------- checks
def _check_var(sess, case, gb, labs, v, vals, rows, m):
    calls = 0; groups = _groups(labs, rows)
    for fname, ddof in ([(case["fn"], case["ddof"])] if "fn" in case else [("var", 1), ("var", 0), ("std", 1), ("std", 0)]):
        sess.current_case = dict(case, fn=fname, ddof=ddof); calls += 1; fn = f"GroupBy.{fname}"
        try:
            with contextlib.redirect_stdout(io.StringIO()), np.errstate(all="ignore"): got = getattr(gb, fname)(v, mask=m, ddof=ddof)
            gm = _series_map(got)
        except Exception as ex:
            sess.record("raises", fn, f"valid inputs must not fail: {type(ex).__name__}", str(ex)[:200]); continue
        if set(gm) != set(groups):
            sess.record("post", fn, "(v1) labels == labels with a selected row", {"got": str(sorted(map(str, gm))), "expected": str(sorted(map(str, groups)))}); continue
        bad, badnull = [], []
        for lab, rs in groups.items():
            xs = [vals[r] for r in rs if vals[r] is not None]; nn = len(xs); g = gm[lab]; tp = two_pass(xs, ddof)
            if tp is None:
                if not C.is_null(g): bad.append((lab, g, "null (count <= ddof)", None))
                continue
            if C.is_null(g) or math.isinf(float(g)): badnull.append((lab, g, tp if fname == "var" else math.sqrt(tp), nn)); continue
            bound = C_VAR * nn * EPS * max(abs(float(x)) for x in xs) ** 2
            if fname == "var": ok = abs(float(g) - tp) <= bound; e = tp
            else: e = math.sqrt(tp); bound = math.sqrt(bound) + 4 * EPS * e; ok = abs(float(g) - e) <= bound
            if not ok: bad.append((lab, g, e, bound))
        tag = f"[{v.dtype} values] "          # findings are kept apart per value dtype (the smallest case per clause is reported)
        if bad: sess.record("post", fn, f"(v1) {tag}{fname} == two-pass sample {'variance' if fname == 'var' else 'standard deviation'} of the non-null selected values within {C_VAR:g}*n*eps*max|x|^2 (null when count <= ddof)",
                            {"mismatch": [(str(a), repr(_py(b)), repr(c_), repr(d)) for a, b, c_, d in bad][:4]})
        if badnull: sess.record("post", fn, f"(v2) {tag}{fname} is null only when count <= ddof", {"mismatch": [(str(a), repr(_py(b)), "expected " + repr(c_), f"count={d}") for a, b, c_, d in badnull][:4]})
    return calls


def _np_ref(f, arr):
    with np.errstate(all="ignore"): return f(arr)


def _check_q(sess, case, gb, labs, v, vals, rows, m):
    calls = 0; groups = _groups(labs, rows)
    specs = [("median", None)] + [("quantile", q) for q in QS]
    if "fn" in case: specs = [(case["fn"], case.get("q"))]
    for fname, q in specs:
        sess.current_case = dict(case, fn=fname, q=q); calls += 1; fn = f"GroupBy.{fname}"
        try:
            with contextlib.redirect_stdout(io.StringIO()), np.errstate(all="ignore"):
                got = gb.median(v, mask=m) if fname == "median" else gb.quantile(v, q, mask=m)
            gm = _series_map(got)
        except Exception as ex:
            if not groups: continue            # nothing selected: no group to call NumPy on; the statement says nothing
            sess.record("raises", fn, f"valid inputs must not fail: {type(ex).__name__}", str(ex)[:200]); continue
        exp = {}
        for lab, rs in groups.items():
            arr = v[np.array(rs, dtype=np.int64)]
            if fname == "median" or np.ndim(q) == 0: exp[lab] = _np_ref(np.median, arr) if fname == "median" else _np_ref(lambda a: np.quantile(a, q), arr)
            else:
                for qq, x in zip(q, _np_ref(lambda a: np.quantile(a, q), arr)): exp[lab + (qq,)] = x
        if set(gm) != set(exp):
            sess.record("post", fn, "(q1) one entry per label with a selected row (and per requested q)", {"got": str(sorted(map(str, gm))), "expected": str(sorted(map(str, exp)))}); continue
        bad = [(l, gm[l], e) for l, e in exp.items() if not _close(gm[l], float(e), 1e-12)]
        if bad: sess.record("post", fn, f"(q1) {fname} == NumPy's on the group's selected values", {"mismatch": [(str(a), repr(_py(b)), repr(_py(c_))) for a, b, c_ in bad][:4]})
    return calls


def _check_apply(sess, case, gb, labs, v, vals, rows, m):
    calls = 0; groups = _groups(labs, rows); n = len(labs)
    v2 = np.where(np.arange(n) % 2 == 0, v.astype(float) * 3 + 1, -v.astype(float))         # second column, also position-tagged
    for name in ([case["func"]] if "func" in case else FUNCS):
        kind, f = FUNCS[name]
        for two in ([case["two"]] if "two" in case else (False, True)):
            if two and name in ("wsum", "vec1", "cumsum"): continue
            sess.current_case = dict(case, func=name, two=two); calls += 1
            cols = [("p", v), ("q", v2)] if two else [(None, v)]
            try:
                with contextlib.redirect_stdout(io.StringIO()), np.errstate(all="ignore"): got = gb.apply({"p": v, "q": v2} if two else v, f, mask=m)
                gms = [_series_map(got[c] if two else got) for c, _ in cols]
            except Exception as ex:
                if not groups: continue
                sess.record("raises", "GroupBy.apply", f"a function returning {kind} values must be accepted on valid inputs: {type(ex).__name__}", str(ex)[:200]); continue
            for (c, arr_all), gm in zip(cols, gms):
                exp = {}
                for lab, rs in groups.items():
                    out = _np_ref(f, arr_all[np.array(rs, dtype=np.int64)])
                    if kind == "scalar": exp[lab] = out
                    elif kind == "fixed":
                        for j, x in enumerate(out): exp[lab + (j,)] = x
                    else:
                        for r, x in zip(rs, out): exp[lab + (r,)] = x
                if set(gm) != set(exp):
                    sess.record("post", "GroupBy.apply", f"(a1) {kind}-valued function: one entry per label with a selected row" + {"scalar": "", "fixed": " and vector position", "aligned": " and selected row"}[kind],
                                {"got": str(sorted(map(str, gm))), "expected": str(sorted(map(str, exp)))}); continue
                bad = [(l, gm[l], e) for l, e in exp.items() if not _close(gm[l], float(e), 1e-12)]
                if bad: sess.record("post", "GroupBy.apply", f"(a1) {kind}-valued function: result == func(the group's selected values in row order)", {"mismatch": [(str(a), repr(_py(b)), repr(_py(c_))) for a, b, c_ in bad][:4]})
    return calls


def _sum(vals, rs): return C.reduce_rows("sum", [vals[r] for r in rs])


def _div(a, b):
    a = float(a); b = float(b)
    if b == 0: return float("nan") if a == 0 else math.copysign(float("inf"), a)
    return a / b


def _check_comp(sess, case, gb, labs, v, vals, rows, m):
    calls = 0; groups = _groups(labs, rows); n = len(labs); only = case.get("fn")
    # (c1) list of aggregations == the individual calls side by side
    for fl in AGG_LISTS:
        if only not in (None, "agg") or (only and case.get("aggs") != fl): continue
        sess.current_case = dict(case, fn="agg", aggs=fl); calls += 1 + len(fl)
        try:
            with contextlib.redirect_stdout(io.StringIO()), np.errstate(all="ignore"):
                got = gb.agg(v, fl, mask=m); singles = [getattr(gb, f)(v, mask=m) for f in fl]
        except Exception as ex:
            sess.record("raises", "GroupBy.agg", f"a list of aggregations on valid inputs must not fail: {type(ex).__name__}", str(ex)[:200]); continue
        if list(got.columns) != fl: sess.record("post", "GroupBy.agg", "(c1) one column per aggregation, named after it, in the order given", {"got": str(list(got.columns)), "expected": str(fl)}); continue
        for f, s in zip(fl, singles):
            a, b = _series_map(got[f]), _series_map(s)
            if list(_labels(got.index)) != list(_labels(s.index)) or any(not ((C.is_null(a[l]) and C.is_null(b[l])) or a[l] == b[l]) for l in b):
                sess.record("post", "GroupBy.agg", "(c1) column of a list of aggregations == the individual call", {"agg": f, "got": str(a), "individual": str(b)})
    # (c2) ratio == sum over sum
    v2vals = [None if x is None else (i % 3) + 1.5 for i, x in enumerate(vals)]; v2 = np.array([np.nan if x is None else x for x in v2vals])      # same nullity as v, as ratio requires
    if only in (None, "ratio"):
        sess.current_case = dict(case, fn="ratio"); calls += 1
        try:
            with contextlib.redirect_stdout(io.StringIO()), np.errstate(all="ignore"): gm = _series_map(gb.ratio(v, v2, mask=m))
            exp = {lab: _div(_sum(vals, rs), _sum(v2vals, rs)) for lab, rs in groups.items()}
            if set(gm) != set(exp): sess.record("post", "GroupBy.ratio", "(c2) labels == labels with a selected row", {"got": str(sorted(map(str, gm))), "expected": str(sorted(map(str, exp)))})
            else:
                bad = [(l, gm[l], e) for l, e in exp.items() if not _close(gm[l], e)]
                if bad: sess.record("post", "GroupBy.ratio", "(c2) ratio == sum(values1) / sum(values2) over the selected rows of the label", {"mismatch": [(str(a), repr(_py(b)), repr(c_)) for a, b, c_ in bad][:4]})
        except Exception as ex:
            sess.record("raises", "GroupBy.ratio", f"values of equal nullity must be accepted: {type(ex).__name__}", str(ex)[:200])
    # (c2') subset_ratio == sum over subset & global / sum over global      (boolean masks only: the method combines them with &)
    if only in (None, "subset_ratio") and (m is None or (isinstance(m, np.ndarray) and m.dtype == bool)):
        sub = np.array([i % 3 != 1 for i in range(n)], dtype=bool)
        sess.current_case = dict(case, fn="subset_ratio"); calls += 1
        try:
            with contextlib.redirect_stdout(io.StringIO()), np.errstate(all="ignore"): gm = _series_map(gb.subset_ratio(v, sub, global_mask=m))
            bad = []
            for lab, rs in groups.items():
                srs = [r for r in rs if sub[r]]
                if lab not in gm: bad.append((lab, "missing", None)); continue
                e = _div(_sum(vals, srs), _sum(vals, rs))
                if not srs:
                    if not (C.is_null(gm[lab]) or _close(gm[lab], e)): bad.append((lab, gm[lab], e))        # no subset row in the label: the sum of nothing over the total (0) or null - both accepted
                elif not _close(gm[lab], e): bad.append((lab, gm[lab], e))
            if bad: sess.record("post", "GroupBy.subset_ratio", "(c2) subset_ratio == sum over subset&global rows / sum over global rows of the label", {"mismatch": [(str(a), repr(_py(b)), repr(c_)) for a, b, c_ in bad][:4]})
        except Exception as ex:
            sess.record("raises", "GroupBy.subset_ratio", f"valid boolean masks (global_mask is optional) must be accepted: {type(ex).__name__}", str(ex)[:200])
    # (c3) single-key density: group shares in percent, adding up to 100
    if case["kkind"] != "two":
        for src in ("size", "sum", "possum"):
            if only not in (None, "density") or (only and case.get("src") != src): continue
            for mg in ([case["margins"]] if only else (False, True)):
                sess.current_case = dict(case, fn="density", src=src, margins=mg); calls += 1
                dv, dvals = {"size": (None, None), "sum": (v, vals), "possum": (v2, v2vals)}[src]
                tot = {lab: (len(rs) if src == "size" else _sum(dvals, rs)) for lab, rs in groups.items()}
                grand = sum(float(x) for x in tot.values()); mag = sum(abs(float(x)) for x in tot.values())
                if not groups or abs(grand) <= 1e-9 * max(mag, 1e-300): continue                          # shares of a zero total are undefined
                try:
                    with contextlib.redirect_stdout(io.StringIO()), np.errstate(all="ignore"): gm = _series_map(gb.density(dv, mask=m, margins=mg))
                except Exception as ex:
                    sess.record("raises", "GroupBy.density", f"valid inputs must not fail: {type(ex).__name__}", str(ex)[:200]); continue
                shares = {l: x for l, x in gm.items() if l != ("All",)}
                if set(shares) != set(tot): sess.record("post", "GroupBy.density", "(c3) one share per label with a selected row", {"got": str(sorted(map(str, shares))), "expected": str(sorted(map(str, tot)))}); continue
                bad = [(l, shares[l], 100.0 * float(t) / grand) for l, t in tot.items() if not _close(shares[l], 100.0 * float(t) / grand)]
                if bad: sess.record("post", "GroupBy.density", "(c3) density == 100 * group total / grand total over the selected rows", {"mismatch": [(str(a), repr(_py(b)), repr(c_)) for a, b, c_ in bad][:4]})
                total = sum(float(x) for x in shares.values())
                if not abs(total - 100.0) <= 1e-9 * max(100.0, sum(abs(float(x)) for x in shares.values())): sess.record("post", "GroupBy.density", "(c3) the group shares add up to 100", {"sum": repr(total), "shares": str(shares)})
    return calls


def check_case(sess, case):
    from groupby_lib.groupby import GroupBy
    n = len(case["keys"]); k, labs = make_keys(case["kkind"], case["keys"]); v, vals = make_vals(case["vclass"], case["off"], case["scale"], n, case["nullpat"])
    rows = C.selection_rows(case["mask"], n); m = C.np_mask(case["mask"])
    with contextlib.redirect_stdout(io.StringIO()):
        try: gb = GroupBy(k, sort=case["sort"])
        except Exception as ex:
            sess.record("raises", "GroupBy.__init__", f"valid keys must not fail: {type(ex).__name__}", str(ex)[:200]); return 0
    return {"var": _check_var, "q": _check_q, "apply": _check_apply, "comp": _check_comp}[case["t"]](sess, case, gb, labs, v, vals, rows, m)


def install(sess):
    """kernel-precondition monitor of the sum-of-squares kernel (the `requires` under which nansum_squares is proved: A-int64) + evaluation counters on the glue"""
    def pre_ss(*a, **k):
        values = k.get("values", a[1] if len(a) > 1 else None)
        arr = np.asarray(values) if not isinstance(values, (list, tuple)) else np.concatenate([np.asarray(x) for x in values])
        if arr.dtype.kind in "iu" and len(arr):
            pass      # (the cast to float64 before squaring was repaired in /repo: integer squares no longer need to fit 64 bits)
    sess.wrap("groupby_lib.groupby.numba", "group_sum_squares", requires=pre_ss)
    sess.wrap("groupby_lib.groupby.core", "GroupBy.apply")
