"""C11 — result labelling, order and shape are determined by the inputs.

B (bounded only): postcondition of the public reductions on the *shape* of the result, taken clause by clause from the statement
   index      labels == expected label list in the expected order: ascending (lexicographic for several keys, category order for a categorical
              key or level, first appearance of the key/tuple when sort=False); observed_only=True -> only labels with a selected row;
              observed_only=False -> every label of the grouping (unused categories included), unobserved ones with the neutral value
              (0 for size/count/sum, null for mean/min/max/first/last)
   levels     one index level per key, level names == key names (Series name / dict key / DataFrame column / None)
   container  single 1-D input (array, Series, polars Series; size) -> Series named like the input; list / tuple / dict / DataFrame / 2-D array /
              polars DataFrame -> DataFrame with one column per input in input order, labelled by the input names where they have one
   columns    column j of a multi-input result is identical (labels, values, dtype) to the result of the same call on input j alone
              (a relation between calls of the same GroupBy object, checked as such)
Values of observed labels are C01's business and are not re-checked here (column independence relates them between calls).
Oracle: label lists computed from the key sequence in pure Python; nothing is taken from pandas groupby.
"""
import itertools, io, contextlib
import numpy as np, pandas as pd
from . import common as C

PROP = "C11"; LEVEL = "exploration"; P_TIER = False
OPS = ["size", "count", "sum", "mean", "min", "max", "first", "last"]
MASKED_OPS = ["size", "sum", "first"]            # one per neutral-value family; the label set under a mask does not depend on the reduction beyond that
EXTRA_OPS = ["var", "median"]                     # shape only, stream B (var composes three reductions; median goes through apply and has no observed_only parameter)
SCOPE = {"quick": "stream A (labels / order / observed): 14 key forms - float array, named str Series, int array, bool array (observed_only=True only), Categorical and categorical Series with an unused category, "
                  "one-key dict, named polars Series, int keys on the chunk-wise route (threshold lowered), pa.chunked_array in two chunks, 2 keys as dict / DataFrame / Series+Categorical, 3 keys as list - "
                  "x every key sequence over {null,a,b,c} with n<=3 (n<=2 for categorical Series, one-key dict, polars Series, DataFrame keys), i.e. every first-appearance order; several keys: every sequence of 5 designed rows "
                  "(a null in each position, shared first key) n<=3, or of 6 rows n<=2 plus n=3 with the first row fixed; x sort on/off x observed_only on/off x {no mask: 8 reductions; every boolean mask "
                  "(3 designated masks at n=3 for several keys): size/sum/first} x value nulls {none; all rows of one label null (float, Categorical, 2-key dict forms)}; "
                  "stream B (containers / naming / column independence): 20 value containers (array, named/unnamed Series, a Series named 0, a frame with integer column labels, a dict with integer keys, polars Series, list of 1/2, tuple, list of named Series, list of same-named Series, dict of 1/2, "
                  "DataFrame of 1/2/3 columns, 2-D array of 2/1 columns, polars DataFrame) on one GroupBy x 5 key forms x 6 designed key sequences x sort x {observed_only on/off without mask; observed_only=False with a mask "
                  "and an all-null label} x {count,sum,mean,first} (+ var, median for observed_only=True without mask), every column compared with the same call on that input alone; seeded random cases up to 16 rows",
         "thorough": "as quick with n<=4 for the single-key forms of stream A (n<=3 for the naming forms and several keys), stream B over every key sequence n<=3 (n<=2 for several keys) incl. masks with observed_only=True, random cases up to 48 rows"}
RULE = "a case = (stream, key form, key sequence, sort, observed_only, mask, value-null pattern, container); distinct = distinct canonical JSON; non-trivial = at least two labels, or a null key, or a mask, or a multi-input container"
ASSUMPTIONS = ["pandas Series/DataFrame/Index constructors, .iloc/.loc and Index equality behave as documented",
               "first-appearance order is taken over all rows of the key (the grouping is built before any mask is known)",
               "a single categorical key lists its labels in category order for both sort settings",
               "for several keys 'every label' (observed_only=False) means every key tuple that occurs in the key arrays, not the cartesian product of the levels",
               "an unobserved label of an integer column may carry the library's integer null (-2^63) as its null value",
               "BOUNDED: the whole property is pandas glue (_apply_gb_reduction, _preprocess_arguments, _maybe_squeeze_to_1d, _labels_argsort); checked only within the stated scope"]
REQUIRED_CONTRACTS = {"core.GroupBy._apply_gb_reduction": 1}
EXPLANATION = ("Bounded only. The label list, its order, the level names, the container type, the column order and column independence are all produced by pandas glue around the kernels "
               "(_apply_gb_reduction: observed filter + lazy sort permutation; convert_data_to_arr_list_and_keys / _maybe_squeeze_to_1d: container normalisation). The run-time postcondition is evaluated on the "
               "real public methods over a bounded-exhaustive space of key orders, key forms, masks, sort/observed settings and value containers; column independence is checked as a relation between calls.")
BUDGET = {"quick": 60, "thorough": 500}

CATS = ["c", "a", "b", "unused"]
MULTI_ROWS = {"two": [[0, 0], [0, 1], [1, 0], [None, 1], [1, None]], "two_df": [[0, 0], [0, 1], [1, 0], [None, 1], [1, None]],
              "two_cat": [[0, 0], [0, 1], [1, 0], [1, 2], [None, 1], [1, None]], "three": [[0, 0, 0], [0, 1, 0], [1, 0, 1], [0, 0, 1], [None, 0, 0], [1, None, 1]]}
SINGLE_ALPHA = {"float": [None, 0, 1, 2], "str_series": [None, 0, 1, 2], "int": [0, 1, 2], "bool": [0, 1], "cat": [None, 0, 1, 2], "cat_series": [None, 0, 1, 2], "dict1": [None, 0, 1, 2],
                "pl_series": [0, 1, 2], "int_thr": [0, 1, 2], "pac_float": [0, 1, 2]}
A_KINDS = ["float", "str_series", "int", "bool", "cat", "cat_series", "dict1", "pl_series", "int_thr", "pac_float", "two", "two_df", "two_cat", "three"]
B_KINDS = ["float", "str_series", "cat", "two", "two_cat"]
CONTAINERS = ["arr", "series_named", "series_unnamed", "list1", "list2", "tuple2", "list_named", "list_dup", "dict1", "dict2", "df1", "df2", "df3", "2d", "2d1", "pl_series", "pl_df",
              "series_named0", "df_intcols", "dict_intkeys"]          # input names that are falsy but not None (0, False): still names


# ----------------------------------------------------------------------------- keys
def _fl(x): return None if x is None else float(x) + 0.5
def _st(x): return None if x is None else "abc"[x]
def _nan(v): return [np.nan if x is None else x for x in v]


def make_keys(kkind, keys):
    """-> (object for GroupBy, logical key per row (None = null), level names, per-level rank functions for the ascending order)"""
    import pyarrow as pa, polars as pl
    nat = lambda v: v
    cat = lambda v: CATS.index(v)
    if kkind in ("float", "dict1", "pac_float"):
        labs = [_fl(x) for x in keys]; arr = np.array(_nan(labs), dtype=np.float64)
        if kkind == "dict1": return {"only": arr}, labs, ["only"], [nat]
        if kkind == "pac_float":
            h = (len(keys) + 1) // 2; return pa.chunked_array([pa.array(arr[:h], type=pa.float64()), pa.array(arr[h:], type=pa.float64())]), labs, [None], [nat]
        return arr, labs, [None], [nat]
    if kkind == "str_series": labs = [_st(x) for x in keys]; return pd.Series(labs, dtype="str", name="ks"), labs, ["ks"], [nat]
    if kkind in ("int", "int_thr"): labs = [x + 5 for x in keys]; return np.array(labs, dtype=np.int64), labs, [None], [nat]
    if kkind == "bool": labs = [bool(x) for x in keys]; return np.array(labs, dtype=bool), labs, [None], [nat]
    if kkind == "cat": labs = [_st(x) for x in keys]; return pd.Categorical(labs, categories=CATS), labs, [None], [cat]
    if kkind == "cat_series": labs = [_st(x) for x in keys]; return pd.Series(pd.Categorical(labs, categories=CATS), name="kc"), labs, ["kc"], [cat]
    if kkind == "pl_series": labs = [x + 5 for x in keys]; return pl.Series("pk", labs, dtype=pl.Int64), labs, ["pk"], [nat]
    # several keys: keys is a list of rows
    cols = list(zip(*keys)) if keys else [()] * (3 if kkind == "three" else 2)
    def tup(*comps): return [tuple(c[r] for c in comps) if all(c[r] is not None for c in comps) else None for r in range(len(keys))]
    if kkind in ("two", "two_df"):
        l1 = [_fl(x) for x in cols[0]]; l2 = [_st(x) for x in cols[1]]
        a1 = np.array(_nan(l1), dtype=np.float64); a2 = np.array(l2, dtype=object)
        if kkind == "two": return {"k1": a1, "k2": a2}, tup(l1, l2), ["k1", "k2"], [nat, nat]
        return pd.DataFrame({"a": a1, "b": pd.Series(l2, dtype="str")}), tup(l1, l2), ["a", "b"], [nat, nat]
    if kkind == "two_cat":
        l1 = [_fl(x) for x in cols[0]]; l2 = [_st(x) for x in cols[1]]
        return [pd.Series(_nan(l1), dtype=np.float64, name="k1"), pd.Categorical(l2, categories=CATS)], tup(l1, l2), ["k1", None], [nat, cat]
    if kkind == "three":
        l1 = [_fl(x) for x in cols[0]]; l2 = [_st(x) for x in cols[1]]; l3 = [None if x is None else x + 5 for x in cols[2]]
        return [np.array(_nan(l1), dtype=np.float64), np.array(l2, dtype=object), np.array([0 if x is None else x for x in l3], dtype=np.int64)], tup(l1, l2, l3), [None, None, None], [nat, nat, nat]
    raise ValueError(kkind)


def expected_labels(kkind, labs, ranks, sort, rows, observed_only):
    """the label list the statement prescribes. rows = selected row positions"""
    multi = len(ranks) > 1
    present = list(dict.fromkeys(l for l in labs if l is not None))              # first-appearance order over the whole key
    if kkind in ("cat", "cat_series"):
        every = list(CATS)                                                       # category order, unused categories are labels too
    elif kkind == "bool":
        every = None                                                             # whether an absent truth value is a label is not fixed by the statement: only the observed list is checked
    elif sort:
        every = sorted(present, key=(lambda t: tuple(r(v) for r, v in zip(ranks, t))) if multi else ranks[0])
    else:
        every = present
    sel = {labs[r] for r in rows if labs[r] is not None}
    if observed_only:
        base = every if every is not None else (sorted(present) if sort else present)
        return [l for l in base if l in sel], sel
    return every, sel


# ----------------------------------------------------------------------------- values and containers
def make_inputs(n, vnull, labs):
    """three position-tagged columns of different classes: float (with the requested nulls), int, float"""
    if vnull == 1:
        nn = [l for l in labs if l is not None]; tgt = min(nn, key=repr) if nn else None
        pat = [l is not None and l == tgt for l in labs]
    elif vnull == 2: pat = [True] * n
    else: pat = [False] * n
    f, _ = C.make_values("float", n, pat); i, _ = C.make_values("int", n); g = np.array([100.0 + 3 * r - (r % 2) * 7 for r in range(n)], dtype=np.float64)
    return f, i, g


def make_container(ckind, f, i, g):
    """-> (values object, [(family:column id, the input 'alone')] in input order, expected column names (None = any label), expected Series name, is single 1-D input)"""
    import polars as pl
    S = lambda arr, name=None: pd.Series(arr, name=name)
    if ckind == "arr": return f, [("np:f", f)], None, None, True
    if ckind == "series_named": s = S(f, "v1"); return s, [("pd:f", s)], None, "v1", True
    if ckind == "series_unnamed": s = S(f); return s, [("pd:f", s)], None, None, True
    if ckind == "pl_series": s = pl.Series("pv", f); return s, [("pl:f", s)], None, "pv", True
    if ckind == "list1": return [f], [("np:f", f)], [None], None, False
    if ckind == "list2": return [f, i], [("np:f", f), ("np:i", i)], [None, None], None, False
    if ckind == "tuple2": return (i, f), [("np:i", i), ("np:f", f)], [None, None], None, False
    if ckind == "list_named": a, b = S(f, "y"), S(i, "x"); return [a, b], [("pd:f", a), ("pd:i", b)], ["y", "x"], None, False
    if ckind == "list_dup": a, b = S(f, "x"), S(i, "x"); return [a, b], [("pd:f", a), ("pd:i", b)], ["x", "x"], None, False
    if ckind == "dict1": return {"y": f}, [("np:f", f)], ["y"], None, False
    if ckind == "dict2": return {"y": f, "x": i}, [("np:f", f), ("np:i", i)], ["y", "x"], None, False
    if ckind == "df1": d = pd.DataFrame({"y": f}); return d, [("pd:f", d["y"])], ["y"], None, False
    if ckind == "df2": d = pd.DataFrame({"y": f, "x": i}); return d, [("pd:f", d["y"]), ("pd:i", d["x"])], ["y", "x"], None, False
    if ckind == "df3": d = pd.DataFrame({"z": g, "y": f, "x": i}); return d, [("pd:g", d["z"]), ("pd:f", d["y"]), ("pd:i", d["x"])], ["z", "y", "x"], None, False
    if ckind == "2d": a = np.column_stack([f, g]); return a, [("np:f", a[:, 0]), ("np:g", a[:, 1])], [None, None], None, False
    if ckind == "2d1": a = f.reshape(-1, 1); return a, [("np:f", a[:, 0])], [None], None, False
    if ckind == "series_named0": s = S(f, 0); return s, [("pd:f", s)], None, 0, True
    if ckind == "df_intcols": d = pd.DataFrame(np.column_stack([f, g])); return d, [("pd:f", d[0]), ("pd:g", d[1])], [0, 1], None, False
    if ckind == "dict_intkeys": return {1: f, 0: i}, [("np:f", f), ("np:i", i)], [1, 0], None, False
    if ckind == "pl_df": d = pl.DataFrame({"y": f, "x": i}); return d, [("pl:f", d["y"]), ("pl:i", d["x"])], ["y", "x"], None, False
    raise ValueError(ckind)


# ----------------------------------------------------------------------------- cases
A_DEPTH = {  # key form -> (max rows quick, max rows thorough, all boolean masks up to n rows (3 designated masks beyond), value-null variant)
    "float": (3, 4, 3, True), "cat": (3, 4, 3, True), "str_series": (3, 4, 3, False), "int": (3, 4, 3, False), "int_thr": (3, 4, 3, False), "pac_float": (3, 4, 3, False),
    "bool": (3, 4, 3, False), "cat_series": (2, 3, 3, False), "dict1": (2, 3, 3, False), "pl_series": (2, 3, 3, False),
    "two": (3, 3, 2, True), "two_df": (2, 3, 2, False), "two_cat": (3, 3, 2, False), "three": (3, 3, 2, False)}


def _key_seqs(kkind, N):
    if kkind in MULTI_ROWS:
        rows = MULTI_ROWS[kkind]; full = N - 1 if len(rows) > 5 else N
        for n in range(1, N + 1):
            for seq in itertools.product(rows, repeat=n):
                if n > full and seq[0] != rows[2]: continue
                yield [list(r) for r in seq]
    else:
        for n in range(0 if kkind == "float" else 1, N + 1):
            for seq in itertools.product(SINGLE_ALPHA[kkind], repeat=n): yield list(seq)


def _masks(n, full_upto):
    if n == 0: return []
    if n <= full_upto: return [list(m) for m in itertools.product([False, True], repeat=n) if not all(m)]
    return [[False] + [True] * (n - 1), [True] * (n - 1) + [False], [r % 2 == 0 for r in range(n)]]


def _stream_a(kkind, big):
    nq, nt, full, vn = A_DEPTH[kkind]
    for keys in _key_seqs(kkind, nt if big else nq):
        n = len(keys)
        for sort in (True, False):
            for obs in ((True,) if kkind == "bool" else (True, False)):
                yield {"stream": "A", "kkind": kkind, "keys": keys, "sort": sort, "observed_only": obs, "mask": None, "vnull": 0}
                if n and vn and (n <= full or big): yield {"stream": "A", "kkind": kkind, "keys": keys, "sort": sort, "observed_only": obs, "mask": None, "vnull": 1}
                for m in _masks(n, full): yield {"stream": "A", "kkind": kkind, "keys": keys, "sort": sort, "observed_only": obs, "mask": ["bool", m], "vnull": 0}


B_SINGLE = [[1], [1, 0], [None, 2], [1, 0, 1], [2, None, 0], [2, 1, 0]]
B_MULTI = [[2], [2, 0], [3, 1], [2, 0, 1], [1, 4, 0], [2, 1, 0]]          # row numbers into MULTI_ROWS[kkind]


def _stream_b(kkind, big):
    if kkind in MULTI_ROWS:
        rows = MULTI_ROWS[kkind]
        seqs = [[list(r) for r in s] for n in (1, 2) for s in itertools.product(rows, repeat=n)] if big else [[list(rows[j]) for j in s] for s in B_MULTI]
    else:
        al = SINGLE_ALPHA[kkind]
        seqs = [list(s) for n in (1, 2, 3) for s in itertools.product(al, repeat=n)] if big else [s for s in B_SINGLE if all(x in al for x in s)]
    B_OPS = ["count", "sum", "mean", "first"]
    for keys in seqs:
        n = len(keys)
        for sort in (True, False):
            for obs in (True, False):
                for op in B_OPS + (EXTRA_OPS if obs else []):          # one reduction per case: all containers + the single-input references of that reduction
                    yield {"stream": "B", "kkind": kkind, "keys": keys, "sort": sort, "observed_only": obs, "mask": None, "vnull": 0, "op": op}
            for obs in ((False, True) if big else (False,)):
                if n >= 2:
                    for op in B_OPS: yield {"stream": "B", "kkind": kkind, "keys": keys, "sort": sort, "observed_only": obs, "mask": ["bool", [False] + [True] * (n - 1)], "vnull": 1, "op": op}


def cases(tier, seed):
    big = tier == "thorough"
    a = C.roundrobin(*[_stream_a(k, big) for k in A_KINDS])
    b = C.roundrobin(*[_stream_b(k, big) for k in B_KINDS])
    return C.roundrobin(a, b, weights=(16, 1))


def random_case(rnd, tier):
    n = rnd.randint(4, 48 if tier == "thorough" else 16); kkind = rnd.choice(A_KINDS)
    keys = [rnd.choice(MULTI_ROWS[kkind]) for _ in range(n)] if kkind in MULTI_ROWS else [rnd.choice(SINGLE_ALPHA[kkind]) for _ in range(n)]
    case = {"stream": rnd.choice("AB"), "kkind": kkind, "keys": keys, "sort": rnd.random() < 0.5, "observed_only": kkind == "bool" or rnd.random() < 0.5,
            "mask": rnd.choice([None, ["bool", [rnd.random() < 0.6 for _ in range(n)]]]), "vnull": rnd.choice([0, 0, 1])}
    return case


def nontrivial(case):
    ks = [tuple(k) if isinstance(k, list) else k for k in case["keys"]]
    nn = {k for k in ks if k is not None and not (isinstance(k, tuple) and None in k)}
    return len(nn) >= 2 or len(nn) < len(set(ks)) or case["mask"] is not None or case["stream"] == "B"


# ----------------------------------------------------------------------------- the contract
def _plain(x):
    if isinstance(x, tuple): return tuple(_plain(v) for v in x)
    if C.is_null(x): return None
    if isinstance(x, (np.bool_, bool)): return bool(x)
    if isinstance(x, np.generic): return x.item()
    return x


NEUTRAL_ZERO = ("size", "count", "sum")


FAMILY = {"float": "one key", "str_series": "one key", "int": "one key", "dict1": "one key", "pl_series": "one key", "bool": "one boolean key", "cat": "one categorical key", "cat_series": "one categorical key",
          "int_thr": "one key, chunk-wise route", "pac_float": "one key, pre-chunked arrow", "two": "several keys", "two_df": "several keys", "two_cat": "several keys, one categorical", "three": "several keys"}


def _index_clauses(rec, fn, res, exp_labels, names, nkeys, fam=""):
    idx = res.index
    if idx.nlevels != nkeys or isinstance(idx, pd.MultiIndex) != (nkeys > 1):
        rec("post", fn, "the result has one index level per key", {"got_levels": idx.nlevels, "multiindex": isinstance(idx, pd.MultiIndex), "keys": nkeys}); return False
    if list(idx.names) != list(names):
        rec("post", fn, "index levels are named after the keys", {"got": str(list(idx.names)), "expected": str(list(names))})
    got = [_plain(l) for l in idx]
    if got != exp_labels:
        rec("post", fn, f"index == the expected labels in the expected order (ascending / category order / first appearance; observed only, or every label) [{fam}]", {"got": str(got), "expected": str(exp_labels)}); return False
    return True


def _neutral_clause(rec, fn, op, col, exp_labels, sel, where=""):
    bad = []
    for pos, lab in enumerate(exp_labels):
        if lab in sel: continue
        v = col.iloc[pos]
        ok = (not C.is_null(v) and float(v) == 0.0) if op in NEUTRAL_ZERO else C.same(v, None)
        if not ok: bad.append((lab, str(v)))
    if bad: rec("post", fn, "observed_only=False: an unobserved label carries the neutral value (0 for size/count/sum, null otherwise)" + where, {"label,value": str(bad[:4])})


def _same_column(col, ref):
    """identical: same labels in the same order, same dtype, same values (nulls in the same places)"""
    if list(map(_plain, col.index)) != list(map(_plain, ref.index)): return "labels differ"
    if col.dtype != ref.dtype: return f"dtype {col.dtype} != {ref.dtype}"
    a, b = col.to_numpy(), ref.to_numpy()
    for x, y in zip(a.tolist(), b.tolist()):
        if C.is_null(x) != C.is_null(y) or (not C.is_null(x) and x != y): return f"values differ: {a.tolist()} vs {b.tolist()}"
    return None


class _threshold:
    def __init__(self, on): self.on = on
    def __enter__(self):
        from groupby_lib.groupby import core as gc
        self.gc = gc; self.old = gc.THRESHOLD_FOR_CHUNKED_FACTORIZE
        if self.on: gc.THRESHOLD_FOR_CHUNKED_FACTORIZE = 1
    def __exit__(self, *a): self.gc.THRESHOLD_FOR_CHUNKED_FACTORIZE = self.old


def _fn(op):
    """the function the shape contract sits on: every reduction but median funnels through _apply_gb_reduction (the reduction is part of the case)"""
    return "GroupBy.median" if op == "median" else "GroupBy._apply_gb_reduction"


def _call(gb, op, values, mask, obs):
    with contextlib.redirect_stdout(io.StringIO()):
        if op == "size": return gb.size(mask=mask, observed_only=obs)
        if op == "median": return gb.median(values, mask=mask)
        return getattr(gb, op)(values, mask=mask, observed_only=obs)


def check_case(sess, case):
    from groupby_lib.groupby import GroupBy
    kkind = case["kkind"]; keys = case["keys"]; n = len(keys); obs = case["observed_only"]; stream = case["stream"]
    kobj, labs, names, ranks = make_keys(kkind, keys); nkeys = len(ranks)
    rows = C.selection_rows(tuple(case["mask"]) if case["mask"] else None, n); m = C.np_mask(tuple(case["mask"]) if case["mask"] else None)
    exp_labels, sel = expected_labels(kkind, labs, ranks, case["sort"], rows, obs)
    f, i, g = make_inputs(n, case.get("vnull", 0), labs); calls = 0
    cur = {"op": None, "container": None}
    def rec(kind, fn, clause, detail): sess.record(kind, fn, clause, detail, dict(case, op=cur["op"], **({"container": cur["container"]} if stream == "B" else {})))
    try:
        with _threshold(kkind == "int_thr"), contextlib.redirect_stdout(io.StringIO()): gb = GroupBy(kobj, sort=case["sort"])
    except Exception as ex:
        rec("raises", "GroupBy.__init__", f"a supported key form must be accepted: {type(ex).__name__}", str(ex)[:200]); return 1
    if stream == "A":
        ops = [case["op"]] if case.get("op") else (OPS if case["mask"] is None else MASKED_OPS)
        for op in ops:
            cur["op"] = op; fn = _fn(op); calls += 1
            if isinstance(m, np.ndarray) and m.dtype == bool and n >= 2:
                # callers reuse one mask buffer: the same array object first holds another selection (and is used), then is refilled in place with this one - the labels listed
                # must be those observed under the buffer's CURRENT content
                want = m.copy(); m[:] = ~want
                try: _call(gb, op, f, m, obs); calls += 1
                except Exception: pass
                m[:] = want
            try: res = _call(gb, op, f, m, obs)
            except Exception as ex:
                rec("raises", fn, f"aligned inputs must not fail: {type(ex).__name__}", str(ex)[:200]); continue
            if not isinstance(res, pd.Series): rec("post", fn, "a single 1-D values input (or size) gives a Series", {"got": type(res).__name__}); continue
            if res.name is not None: rec("post", fn, "the Series is named like the input (unnamed input -> no name)", {"got": str(res.name), "expected": None})
            if exp_labels is None: continue
            if _index_clauses(rec, fn, res, exp_labels, names, nkeys, FAMILY[kkind]) and not obs: _neutral_clause(rec, fn, op, res, exp_labels, sel)
        return calls
    # ---- stream B: every container on the same GroupBy object; naming, column order, column independence
    ops = [case["op"]] if case.get("op") else ["count", "sum", "mean", "first"] + (EXTRA_OPS if obs and case["mask"] is None else [])      # random cases carry no op: all of them
    conts = [case["container"]] if case.get("container") else CONTAINERS
    for op in ops:
        refs = {}                       # result of the same call on one input alone, per (container family of the input: numpy/pandas/polars, column data f/i/g)
        for ckind in conts:
            cur["op"] = op; cur["container"] = ckind; fn = _fn(op); calls += 1
            vals, alone, colnames, sname, single = make_container(ckind, f, i, g)
            try: res = _call(gb, op, vals, m, obs)
            except Exception as ex:
                rec("raises", fn, f"aligned inputs in a supported container must not fail: {type(ex).__name__}", str(ex)[:200]); continue
            if single:
                if not isinstance(res, pd.Series): rec("post", fn, "a single 1-D values input (or size) gives a Series", {"got": type(res).__name__, "container": ckind}); continue
                if res.name != sname or isinstance(res.name, str) != isinstance(sname, str): rec("post", fn, "the Series is named like the input (unnamed input -> no name)", {"got": str(res.name), "expected": sname})
                if exp_labels is not None and _index_clauses(rec, fn, res, exp_labels, names, nkeys, FAMILY[kkind]) and not obs: _neutral_clause(rec, fn, op, res, exp_labels, sel)
                continue
            if not isinstance(res, pd.DataFrame):
                rec("post", fn, "a collection, frame or 2-D array gives a DataFrame" + (" (also for a single column)" if len(alone) == 1 else ""), {"got": type(res).__name__, "container": ckind}); continue
            if res.shape[1] != len(alone):
                rec("post", fn, "the DataFrame has one column per input" + (" (inputs sharing a name must not collapse)" if ckind == "list_dup" else ""), {"got_columns": str(list(res.columns)), "inputs": len(alone), "container": ckind}); continue
            got = list(res.columns)
            if any(w is not None and (w != c or isinstance(w, str) != isinstance(c, str)) for w, c in zip(colnames, got)): rec("post", fn, "columns come in input order and carry the input names", {"got": str(got), "expected": str(colnames)})
            if exp_labels is not None:
                if not _index_clauses(rec, fn, res, exp_labels, names, nkeys, FAMILY[kkind]): continue
                if not obs:
                    for j in range(res.shape[1]): _neutral_clause(rec, fn, op, res.iloc[:, j], exp_labels, sel, where=" (every column)")
            for j, (rk, x) in enumerate(alone):
                if rk not in refs:
                    calls += 1
                    try: refs[rk] = _call(gb, op, x, m, obs)
                    except Exception as ex:
                        refs[rk] = None; rec("raises", fn, f"the same call on one input alone must not fail: {type(ex).__name__}", str(ex)[:200])
                ref = refs[rk]
                if not isinstance(ref, pd.Series): continue          # reported by the single-input containers
                why = _same_column(res.iloc[:, j], ref)
                if why: rec("post", fn, "column j is identical to the result of the same call on input j alone", {"column": j, "why": why[:300], "container": ckind})
    return calls


def install(sess):
    def post_red(out, self, func_name, values=None, mask=None, transform=False, margins=False, observed_only=True):
        if transform or margins: return None
        if not isinstance(out, (pd.Series, pd.DataFrame)): return "a reduction returns a pandas Series or DataFrame"
        if out.index.nlevels != self.result_index.nlevels: return "one index level per key"
        if not observed_only and len(out) != self.ngroups: return "observed_only=False lists every label of the grouping"
        if len(out) > self.ngroups: return "no more rows than labels"
        if not out.index.is_unique: return "every label is listed once"
    sess.wrap("groupby_lib.groupby.core", "GroupBy._apply_gb_reduction", ensures=post_red)
