"""C15 — head/tail/nth select exactly the requested rows of each group.

P (unbounded, maintained separately): numba._find_nth / _find_first_or_last_n (out == Pos(k, j), -1 padding, no null-key row, each row once) and
the overflow obligations on the per-group `seen` counters (groups of any size).
B (bounded, this module): run-time contracts taken from the property statement on
   GroupBy.head / tail / nth (values, n, keep_input_index=True)  -> _get_row_selection:
     ensures  rows returned == {first n | last n | n-th from the start (from the end for negative n)} rows of every group (that is long enough),
              as a multiset of (original index label, unmodified values of every column): each row once, nothing fabricated
              no row with a null key is selected
              rows of one group appear in their original relative order (the order BETWEEN groups is not constrained)
              every column keeps its dtype (values unmodified); 1-D input -> Series, multi-column input -> DataFrame with the input's columns
   numba._find_nth / find_first_n / find_last_n (and _find_first_or_last_n behind them), with and without boolean masks:
     ensures  out[k] (without the -1 padding) == the selected positions of group k the statement asks for, in increasing order; shape (ngroups[, n])
   GroupBy._get_row_selection(keep_input_index=True): ensures rows == the input rows at ilocs >= 0 with their labels (intermediate contract)
 + size-boundary cases (extra_cases): one group of 2**15-1 .. 70_000 rows with a small group interleaved and a null-key row, n around the boundary.
Negative n for head/tail: the statement only quantifies n >= 0 for head/tail (negative n for nth); the code raises ValueError (negative dimension).
The check accepts a raise and otherwise only demands that nothing is fabricated (every returned row is a non-null-key input row, at most once).
keep_input_index=False is outside the statement: a raise is accepted; if a result comes back its VALUES must be those of the requested rows.
Oracle: executable specification from the statement (positions per group in pure Python / NumPy), not pandas.
"""
import itertools, io, contextlib, collections
import numpy as np, pandas as pd
from . import common as C

PROP = "C15"; LEVEL = "other"; P_TIER = True
OPS = ("head", "tail", "nth")
N_FULL = {"nth": list(range(-4, 8)), "head": [0, 1, 2, 3, 4, 5, 6, 7, -1], "tail": [0, 1, 2, 3, 4, 5, 6, 7, -2]}
N_SMALL = {"nth": [-3, -2, -1, 0, 1, 2, 3], "head": [0, 1, 2, 3, 5], "tail": [0, 1, 2, 3, 5]}
SIZES = [2 ** 15 - 1, 2 ** 15, 2 ** 15 + 1, 2 ** 16, 2 ** 16 + 1, 70_000]
SCOPE = {"quick": "GroupBy.head/tail/nth(keep_input_index=True): (A) keys over {null,a,b}^m, m<=6 exhaustive with an unsorted unique index sort=True, m<=5 also with {ndarray values sort=True, duplicate unsorted index sort=False} x nth n in [-4,7], head/tail n in [0,7] and -1 / -2; "
                  "(B) m<=4 x 17 (value kind, container, index kind) combinations {float with NaN, int64, int32, float32, bool, str, datetime with NaT, tz-aware datetime, categorical; Series, DataFrame of 3 dtypes, dict of arrays, dict of Series, list of arrays, 2-D array; "
                  "index: range, unsorted, duplicate, string, descending, MultiIndex, DatetimeIndex} x sort on/off (m=4: one of the two per combination) x reduced n (nth [-3,3], head/tail {0,1,2,3,5}); (C) key kinds {float NaN-null, int (3 groups), categorical with unused category, two keys} x sort on/off m<=4, for Series values also with keep_input_index=False (values only); "
                  "(D) kernels _find_nth / find_first_n / find_last_n: codes {-1,0,1}^m m<=5, ngroups=3 (an empty group), no mask / every boolean mask (m<=3) / 3 masks (m>=4), code dtypes int64/int32, n in [-6,6] / [0,6]; "
                  "(E) boundary sizes: one group of 2^15-1, 2^15, 2^15+1, 2^16, 2^16+1, 70000 rows + a 3-row group + a null-key row, nth n in {0,3,-1,-4,32767,32768,65535,65536,S-1,S,-S,-S-1,...}, head/tail n in {2,32767,32768,S-1,S,S+1}; 2 cases of 400 rows with a sorted index of repeated labels; seeded random cases up to 40 rows",
         "thorough": "as quick with (A) m<=7 (m<=6 for the two other variants), (B)(C) m<=5, (D) m<=6 (every mask m<=4), random cases up to 200 rows"}
RULE = "a case = (keys, key kind, value kind, container, index kind, sort) run with every (op, n) of its family, or (codes, mask, code dtype) for the kernels, or (size, op, n, index kind) for the boundary cases; distinct = distinct canonical JSON; non-trivial = two or more labels, or a null key, or more than one row in a group"
ASSUMPTIONS = ["pandas DataFrame construction / iloc / set_index / sort_index / Index.__getitem__ behave as documented", "numpy fancy indexing",
               "values are aligned with the keys (same length; C18 covers misaligned inputs)", "negative n for head/tail and keep_input_index=False are outside the statement (weak checks only, see module docstring)",
               "BOUNDED: the glue head/tail/nth -> _get_row_selection is checked only within the stated scope; group sizes only at the listed boundary sizes"]
REQUIRED_CONTRACTS = {"numba._find_nth": 1, "numba._find_first_or_last_n": 1, "core.GroupBy._get_row_selection": 1}
EXPLANATION = ("Modular: the two scanning kernels (positions per group, -1 padding, no null-key row, 64-bit counters for groups of any size) are the P tier (unbounded). The positional take, index restoration, "
               "squeeze and sort in GroupBy._get_row_selection / head / tail / nth are pandas glue: decided by run-time postconditions written from the statement over a bounded-exhaustive scope plus designed "
               "size-boundary cases around 2^15 and 2^16 rows per group (bounded, not proved).")
BUDGET = {"quick": 50, "thorough": 400}

CL_ROWS = {"head": "head(n) returns exactly the first n rows of every group: each row once, original index label, unmodified values",
           "tail": "tail(n) returns exactly the last n rows of every group: each row once, original index label, unmodified values",
           "nth": "nth(n) returns exactly the n-th row from the start (from the end for negative n) of every group that is long enough: each row once, original index label, unmodified values"}
CL_NULL = "no row with a null key is ever selected"
CL_ORDER = "rows of a group are returned in their original relative order"
CL_DTYPE = "values are unmodified: every column keeps its dtype"
CL_SHAPE = "1-D input gives a Series, multi-column input a DataFrame with the input's columns in order"
CL_NEG = "negative n for head/tail (outside the statement): nothing fabricated - every returned row is a non-null-key input row, at most once"
CL_KII = "keep_input_index=False (outside the statement): the values returned are those of the requested rows"


# ----------------------------------------------------------------------------- executable specification (from the statement)
def spec_rows(op, n, labs):
    """labs[r]: group label or None (null key). -> sorted list of the row positions the statement asks for"""
    out = []
    for g in dict.fromkeys(l for l in labs if l is not None):
        rows = [r for r, l in enumerate(labs) if l == g]
        if op == "head": out += rows[:n] if n >= 0 else []
        elif op == "tail": out += rows[-n:] if n > 0 else []
        elif -len(rows) <= n < len(rows): out.append(rows[n])
    return sorted(out)


def spec_positions(codes, ngroups, mask=None):
    codes = np.asarray(codes); sel = codes >= 0
    if mask is not None: sel = sel & np.asarray(mask, dtype=bool)
    return [np.flatnonzero(sel & (codes == k)) for k in range(ngroups)]


def spec_kernel(fn, codes, ngroups, n, mask=None):
    """-> list per group of the positions expected (without padding)"""
    pos = spec_positions(codes, ngroups, mask)
    if fn == "nth": return [[int(p[n])] if -len(p) <= n < len(p) else [] for p in pos]
    if fn == "first": return [list(map(int, p[:n])) for p in pos]
    return [list(map(int, p[-n:])) if n > 0 else [] for p in pos]


def kernel_mismatch(fn, out, codes, ngroups, n, mask=None):
    out = np.asarray(out); exp = spec_kernel(fn, codes, ngroups, n, mask)
    shape = (ngroups,) if fn == "nth" else (ngroups, n)
    if out.shape != shape: return f"shape {out.shape} != {shape}"
    for k in range(ngroups):
        row = np.atleast_1d(out[k]); got = [int(x) for x in row if x != -1]
        if got != exp[k]: return f"group {k}: got {got[:8]} (len {len(got)}) expected {exp[k][:8]} (len {len(exp[k])})"
    return None


# ----------------------------------------------------------------------------- materialisation
def make_keys(kkind, keys):
    if kkind == "str": labs = [None if x is None else "qf"[x] for x in keys]; return np.array(labs, dtype=object), labs
    if kkind == "float": labs = [None if x is None else (2.5, -1.0)[x] for x in keys]; return np.array([np.nan if l is None else l for l in labs], dtype=float), labs
    if kkind == "int": labs = [5 if x is None else (7, 3)[x] for x in keys]; return np.array(labs, dtype=np.int64), labs
    if kkind == "cat": labs = [None if x is None else "qf"[x] for x in keys]; return pd.Categorical(labs, categories=["q", "unused", "f"]), labs
    if kkind == "two":
        k1 = np.array([np.nan if x is None else 1.0 for x in keys], dtype=float); k2 = np.array(["qf"[x or 0] for x in keys], dtype=object)
        return [k1, k2], [None if x is None else (1.0, "qf"[x]) for x in keys]
    raise ValueError(kkind)


def make_index(ikind, m):
    if ikind in ("none",): return None
    if ikind == "range": return pd.RangeIndex(m)
    if ikind == "perm":                                                                                                                            # unsorted, unique: a permutation of the positions
        step = next(s for s in range(2, m + 3) if np.gcd(s, max(m, 1)) == 1)
        return pd.Index([(i * step + 1) % m for i in range(m)], dtype=np.int64)
    if ikind == "dup": return pd.Index([(1, 0, 1, 0, 2, 2, 0, 1)[i % 8] for i in range(m)], dtype=np.int64)                                        # unsorted, duplicates
    if ikind == "sorteddup": return pd.Index([i // 4 for i in range(m)], dtype=np.int64)                                                             # sorted, 4 rows per label (several rows per date)
    if ikind == "str": return pd.Index([f"r{(m - i) * 7 % 10}{i}" for i in range(m)], dtype=object)
    if ikind == "desc": return pd.Index([10 * (m - i) for i in range(m)], dtype=np.int64)
    if ikind == "multi": return pd.MultiIndex.from_arrays([[(1, 0, 2)[i % 3] for i in range(m)], [f"z{m - i}" for i in range(m)]], names=["u", "w"])
    if ikind == "dt": return pd.DatetimeIndex([pd.Timestamp("2001-01-01") + pd.Timedelta(days=(i * 5) % 7, hours=i) for i in range(m)])
    raise ValueError(ikind)


def make_col(vkind, m):
    if vkind == "float": return np.array([i + 0.5 for i in range(m)], dtype=np.float64)
    if vkind == "floatnull": return np.array([np.nan if i % 3 == 1 else i + 0.5 for i in range(m)], dtype=np.float64)
    if vkind == "float32": return np.array([i + 0.25 for i in range(m)], dtype=np.float32)
    if vkind == "int": return np.array([3 * i + 1 for i in range(m)], dtype=np.int64)
    if vkind == "int32": return np.array([100 - 3 * i for i in range(m)], dtype=np.int32)
    if vkind == "bool": return np.array([i % 2 == 0 for i in range(m)], dtype=bool)
    if vkind == "str": return np.array([f"s{i}" for i in range(m)], dtype=object)
    if vkind == "datetime": return np.array([np.datetime64("NaT") if i % 4 == 2 else np.datetime64(pd.Timestamp("2021-03-01").value + i * 86400 * 10 ** 9 + i, "ns") for i in range(m)], dtype="M8[ns]")
    if vkind == "dttz": return pd.Series(pd.DatetimeIndex(make_col("datetime", m)).tz_localize("UTC").tz_convert("US/Eastern"))
    if vkind == "cat": return pd.Series(pd.Categorical([("x", "y", "z")[i % 3] + str(i) for i in range(m)]))
    raise ValueError(vkind)


def make_values(case, m):
    """-> (object handed as values, list of input columns as pandas Series (positional), column names or None, index labels)"""
    index = make_index(case["ikind"], m); cont = case["cont"]; col = make_col(case["vkind"], m)
    def ser(c, name=None):
        if isinstance(c, pd.Series): return pd.Series(c.array, index=index, name=name)
        return pd.Series(c, index=index, name=name)
    if cont == "array": return col, [pd.Series(col)], None, None
    if cont == "series": s = ser(col, "x"); return s, [s], None, index
    if cont == "frame":
        df = pd.DataFrame({"x": ser(col), "s": ser(make_col("str", m)), "d": ser(make_col("datetime", m))}, index=index); return df, [df[c] for c in df.columns], list(df.columns), index
    if cont == "dict": d = {"p": col, "q": make_col("int", m)}; return d, [pd.Series(v) for v in d.values()], list(d), None
    if cont == "dict_series": d = {"p": ser(col), "q": ser(make_col("int32", m))}; return d, list(d.values()), list(d), index
    if cont == "list": l = [col, make_col("int", m)]; return l, [pd.Series(v) for v in l], None, None
    if cont == "2d": a = np.column_stack([make_col("float", m), make_col("float", m) * 10 + 1]); return a, [pd.Series(a[:, 0]), pd.Series(a[:, 1])], None, None
    raise ValueError(cont)


def cols_of(values):
    """the columns of a values object as pandas Series, re-read from the object itself (frame condition)"""
    if isinstance(values, pd.DataFrame): return [values[c] for c in values.columns]
    if isinstance(values, dict): return [v if isinstance(v, pd.Series) else pd.Series(v) for v in values.values()]
    if isinstance(values, list): return [pd.Series(v) for v in values]
    if isinstance(values, np.ndarray) and values.ndim == 2: return [pd.Series(values[:, j]) for j in range(values.shape[1])]
    return [values if isinstance(values, pd.Series) else pd.Series(values)]


def norm(x):
    if isinstance(x, tuple): return tuple(norm(y) for y in x)
    if C.is_null(x): return "<null>"
    if isinstance(x, (pd.Timestamp, np.datetime64)): t = pd.Timestamp(x); return ("ts", t.value, str(t.tz))
    if isinstance(x, (bool, np.bool_)): return ("b", bool(x))
    if isinstance(x, (int, np.integer, float, np.floating)): return ("n", float(x))
    return ("o", str(x))


def rows_of(cols, labels):
    """cols: list of pandas Series (same length); labels: list of index labels -> list of hashable (label, values) per row"""
    lists = [list(c) for c in cols]
    return [(norm(labels[r]), tuple(norm(l[r]) for l in lists)) for r in range(len(labels))]


# ----------------------------------------------------------------------------- cases
def _base(keys, **kw):
    d = {"entry": "public", "keys": list(keys), "kkind": "str", "vkind": "float", "cont": "series", "ikind": "perm", "sort": True, "ns": "full"}
    d.update(kw); return d


def _stream_a(tier):
    for m in range(0, (7 if tier == "thorough" else 6) + 1):
        for keys in itertools.product([None, 0, 1], repeat=m):
            yield _base(keys)
            if m > (6 if tier == "thorough" else 5): continue
            yield _base(keys, cont="array", ikind="none")
            yield _base(keys, ikind="dup", sort=False)


B_COMBOS = [("floatnull", "series", "dup"), ("int", "array", "none"), ("int32", "series", "str"), ("float32", "array", "none"), ("bool", "series", "perm"), ("str", "series", "desc"), ("datetime", "series", "perm"),
            ("dttz", "series", "range"), ("cat", "series", "str"), ("float", "frame", "perm"), ("float", "frame", "dup"), ("int", "dict", "none"), ("float", "dict_series", "str"), ("float", "list", "none"),
            ("float", "2d", "none"), ("float", "series", "multi"), ("float", "series", "dt")]


def _stream_b(tier):
    for m in range(0, (5 if tier == "thorough" else 4) + 1):
        for ci, (vkind, cont, ikind) in enumerate(B_COMBOS):
            for sort in ((True, False) if m <= 3 or tier == "thorough" else (ci % 2 == 0,)):
                for keys in itertools.product([None, 0, 1], repeat=m): yield _base(keys, vkind=vkind, cont=cont, ikind=ikind, sort=sort, ns="small")


def _stream_c(tier):
    for m in range(0, (5 if tier == "thorough" else 4) + 1):
        for kkind in ("float", "int", "cat", "two"):
            for sort in (True, False):
                for cont, ikind in (("series", "perm"), ("array", "none")):
                    if m == 0 and kkind in ("cat", "two"): continue
                    if cont == "array" and not sort and m == 4 and tier != "thorough": continue
                    for keys in itertools.product([None, 0, 1], repeat=m): yield _base(keys, kkind=kkind, cont=cont, ikind=ikind, sort=sort, ns="small", kii_false=(cont == "series"))


def _stream_d(tier):
    for m in range(0, (6 if tier == "thorough" else 5) + 1):
        for cdt in ("int64", "int32"):
            for codes in itertools.product([-1, 0, 1], repeat=m):
                masks = [None] + ([list(x) for x in itertools.product([False, True], repeat=m)] if m <= (4 if tier == "thorough" else 3) else [[i % 3 != 1 for i in range(m)], [i % 2 == 0 for i in range(m)], [i % 4 != 0 for i in range(m)]])
                for mask in masks: yield {"entry": "kernel", "codes": list(codes), "mask": mask, "code_dtype": cdt}


def cases(tier, seed):
    return C.roundrobin(_stream_a(tier), _stream_b(tier), _stream_c(tier), _stream_d(tier), weights=(3, 3, 2, 4))


def extra_cases(tier, seed):
    for sort in (True, False):      # a sorted index with repeated labels and groups of > 16 rows (an unstable sort of the result may not reorder the rows of a group)
        yield _base([(i * 7 // 3) % 2 if i % 29 else None for i in range(400)], ikind="sorteddup", sort=sort, ns="random", nlist=[-1, 3, 150])
    for S in SIZES:
        nth_ns = sorted({0, 3, -1, -4, 32766, 32767, 32768, -32768, -32769, 65535, 65536, 65537, -65536, -65537, S - 1, S, -S, -S - 1})
        ht_ns = sorted({2, 32767, 32768, 32769, S - 1, S, S + 1})
        for i, n in enumerate(nth_ns): yield {"entry": "big", "size": S, "op": "nth", "n": n, "ikind": ("none", "odd")[i % 2], "sort": True}
        for op in ("head", "tail"):
            for i, n in enumerate(ht_ns): yield {"entry": "big", "size": S, "op": op, "n": n, "ikind": ("odd", "none")[i % 2], "sort": i % 3 != 2}


def random_case(rnd, tier):
    m = rnd.randint(5, 200 if tier == "thorough" else 40)
    if rnd.random() < 0.2: return {"entry": "kernel", "codes": [rnd.choice([-1, 0, 1, 2]) for _ in range(m)], "mask": rnd.choice([None, [rnd.random() < 0.6 for _ in range(m)]]), "code_dtype": rnd.choice(["int64", "int32"])}
    vkind, cont, ikind = rnd.choice(B_COMBOS + [("float", "series", "perm"), ("float", "array", "none"), ("float", "series", "sorteddup"), ("int", "series", "sorteddup")])
    return _base([rnd.choice([None, 0, 1, 0, 1, 1]) for _ in range(m)], kkind=rnd.choice(["str", "float", "int", "cat", "two"]), vkind=vkind, cont=cont, ikind=ikind, sort=rnd.random() < 0.6, ns="random",
                 nlist=sorted({rnd.randint(-m - 1, m + 1) for _ in range(4)} | {0, 1, -1}), kii_false=rnd.random() < 0.3)


def nontrivial(case):
    if case["entry"] == "big": return True
    ks = [k for k in case.get("keys", case.get("codes", [])) if k is not None and k != -1]
    return len(set(ks)) >= 2 or len(ks) < len(case.get("keys", case.get("codes", []))) or len(ks) > len(set(ks))


# ----------------------------------------------------------------------------- the check
def _quiet(f):
    with contextlib.redirect_stdout(io.StringIO()): return f()


def check_rows(sess, fn, op, n, got, in_rows, labs, exp_pos, in_cols, col_names, strict=True):
    """public postcondition on a result `got` (Series/DataFrame) against the input rows; strict=False: the negative-n head/tail reading (nothing fabricated)"""
    multi = len(in_cols) > 1
    if not isinstance(got, (pd.Series, pd.DataFrame)) or multi != isinstance(got, pd.DataFrame):
        sess.record("post", fn, CL_SHAPE, {"got_type": type(got).__name__, "columns_in": len(in_cols)}); return
    gcols = [got.iloc[:, j] for j in range(got.shape[1])] if multi else [got]
    if multi and (len(gcols) != len(in_cols) or (col_names is not None and list(got.columns) != col_names)):
        sess.record("post", fn, CL_SHAPE, {"got_columns": list(map(str, got.columns)), "expected": col_names or len(in_cols)}); return
    got_rows = rows_of(gcols, list(got.index))
    exp_rows = [in_rows[r] for r in exp_pos]
    cg, ce = collections.Counter(got_rows), collections.Counter(exp_rows)
    null_rows = {in_rows[r] for r in range(len(labs)) if labs[r] is None} - {in_rows[r] for r in range(len(labs)) if labs[r] is not None}
    if not strict:
        allowed = collections.Counter(in_rows[r] for r in range(len(labs)) if labs[r] is not None)
        if any(c > allowed.get(k, 0) for k, c in cg.items()): sess.record("post", fn, CL_NEG, {"got": str(got_rows)[:300], "input": str(in_rows)[:300]})
        return
    if cg != ce:
        picked_null = [k for k in cg if k in null_rows and k not in ce]
        clause = CL_NULL if picked_null else CL_ROWS[op]
        sess.record("post", fn, clause, {"n": n, "got": str(got_rows)[:400], "expected": str(exp_rows)[:400], "unexpected": str([k for k in cg if cg[k] > ce.get(k, 0)])[:200], "missing": str([k for k in ce if ce[k] > cg.get(k, 0)])[:200]})
        return
    if len(set(in_rows)) == len(in_rows):                    # rows identifiable: relative order within each group
        where = {k: r for r, k in enumerate(in_rows)}; pos = [where[k] for k in got_rows]
        for g in dict.fromkeys(l for l in labs if l is not None):
            pg = [p for p in pos if labs[p] == g]
            if pg != sorted(pg): sess.record("post", fn, CL_ORDER, {"n": n, "group": str(g), "positions_in_result_order": pg, "result_index": str(list(got.index))[:200]}); break
    for j, (gc, ic) in enumerate(zip(gcols, in_cols)):
        if str(gc.dtype) != str(ic.dtype): sess.record("post", fn, CL_DTYPE, {"column": j, "got": str(gc.dtype), "expected": str(ic.dtype)}); break


def check_case(sess, case):
    if case["entry"] == "kernel": return _check_kernel(sess, case)
    if case["entry"] == "big": return _check_big(sess, case)
    return _check_public(sess, case)


def _check_public(sess, case):
    from groupby_lib.groupby import GroupBy
    m = len(case["keys"]); calls = 0
    k, labs = make_keys(case["kkind"], case["keys"])
    values, in_cols, col_names, index = make_values(case, m)
    ilabels = list(index) if index is not None else list(range(m))
    in_rows = rows_of(in_cols, ilabels)
    try: gb = _quiet(lambda: GroupBy(k, sort=case["sort"]))
    except Exception as ex:
        sess.record("raises", "GroupBy.head", f"valid inputs must not be rejected / must not fail: {type(ex).__name__}", {"what": "constructor", "error": str(ex)[:200]}); return 1
    for op in ([case["op"]] if "op" in case else OPS):
        if "n" in case: ns = [case["n"]]
        elif case["ns"] == "random": ns = [n for n in case["nlist"] if op == "nth" or n >= -2]
        else: ns = (N_FULL if case["ns"] == "full" else N_SMALL)[op]
        for n in ns:
            c = dict(case, op=op, n=n); sess.current_case = c; calls += 1; fn = f"GroupBy.{op}"; strict = op == "nth" or n >= 0
            try: got = _quiet(lambda: getattr(gb, op)(values, n, keep_input_index=True))
            except Exception as ex:
                if strict: sess.record("raises", fn, f"valid inputs must not be rejected / must not fail: {type(ex).__name__}", {"n": n, "error": str(ex)[:200]})
                continue
            check_rows(sess, fn, op, n, got, in_rows, labs, spec_rows(op, n, labs), in_cols, col_names, strict=strict)
            if case.get("kii_false") and strict:
                calls += 1
                try: got2 = _quiet(lambda: getattr(gb, op)(values, n, keep_input_index=False))
                except Exception: continue
                gc = [got2.iloc[:, j] for j in range(got2.shape[1])] if isinstance(got2, pd.DataFrame) else [got2]
                gv = collections.Counter(r[1] for r in rows_of(gc, [0] * len(got2))); ev = collections.Counter(in_rows[r][1] for r in spec_rows(op, n, labs))
                if gv != ev: sess.record("post", fn, CL_KII, {"n": n, "got": str(sorted(gv.elements(), key=str))[:300], "expected": str(sorted(ev.elements(), key=str))[:300]})
    after = rows_of(cols_of(values), ilabels if index is None else list(cols_of(values)[0].index))
    if after != in_rows: sess.record("frame", "GroupBy.head", "the input values and their index are not modified", {"before": str(in_rows)[:300], "after": str(after)[:300]})
    return calls


def _check_kernel(sess, case):
    from groupby_lib.groupby import numba as gn
    codes = np.array(case["codes"], dtype=case["code_dtype"]); m = len(codes); ngroups = max(3, int(codes.max()) + 1 if m else 3)
    mask = None if case["mask"] is None else np.array(case["mask"], dtype=bool); calls = 0
    for n in range(-m - 1, m + 2):
        calls += 1; sess.current_case = dict(case, fn="_find_nth", n=n)
        try: out = gn._find_nth(codes, ngroups, n, mask)
        except Exception as ex: sess.record("raises", "numba._find_nth", f"valid kernel inputs must not fail: {type(ex).__name__}", str(ex)[:200]); continue
        msg = kernel_mismatch("nth", out, codes, ngroups, n, mask)
        if msg: sess.record("post", "numba._find_nth", "out[k] == position of the n-th selected row of group k from the start (from the end for negative n), -1 if the group is too short; null-key and masked rows never", msg)
    for n in range(0, m + 2):
        for name, f, kind in (("find_first_n", gn.find_first_n, "first"), ("find_last_n", gn.find_last_n, "last")):
            calls += 1; sess.current_case = dict(case, fn=name, n=n)
            try: out = f(codes, ngroups, n, mask)
            except Exception as ex: sess.record("raises", f"numba.{name}", f"valid kernel inputs must not fail: {type(ex).__name__}", str(ex)[:200]); continue
            msg = kernel_mismatch(kind, out, codes, ngroups, n, mask)
            if msg: sess.record("post", f"numba.{name}", f"out[k] without the -1 padding == positions of the {kind} n selected rows of group k in increasing order; shape (ngroups, n); null-key and masked rows never", msg)
    return calls


def big_layout(S):
    """-> (float key array with one big group of exactly S rows (label 7.0), a 3-row group (3.0) and one null key, codes as labels list is too big: returns numpy label array)"""
    N = S + 4; key = np.full(N, 7.0); small = [1, N // 2, N - 2]; key[small] = 3.0; key[N // 3] = np.nan
    return key


def _check_big(sess, case):
    """vectorised version of the public postcondition (values are position tags, the index is monotonic so that the optional sort cannot reorder a group)"""
    from groupby_lib.groupby import GroupBy
    S, op, n = case["size"], case["op"], case["n"]; key = big_layout(S); N = len(key); fn = f"GroupBy.{op}"
    vals = np.arange(N, dtype=np.float64); idx = None if case["ikind"] == "none" else np.arange(N, dtype=np.int64) * 2 + 1
    values = vals if idx is None else pd.Series(vals, index=idx)
    exp = []
    for lab in (3.0, 7.0):
        rows = np.flatnonzero(key == lab)
        if op == "head": exp.append(rows[:n])
        elif op == "tail": exp.append(rows[-n:] if n > 0 else rows[:0])
        elif -len(rows) <= n < len(rows): exp.append(rows[[n]])
    exp = np.sort(np.concatenate(exp)) if exp else np.array([], dtype=np.int64)
    try: got = _quiet(lambda: getattr(GroupBy(key, sort=case["sort"]), op)(values, n, keep_input_index=True))
    except BaseException as ex:
        sess.record("raises", fn, f"valid inputs must not be rejected / must not fail: {type(ex).__name__}", {"n": n, "size": S, "error": str(ex)[:200]}); return 1
    if not isinstance(got, pd.Series): sess.record("post", fn, CL_SHAPE, {"got_type": type(got).__name__}); return 1
    gv = got.to_numpy(); pos = gv.astype(np.int64)
    ok_vals = len(gv) == 0 or (bool(np.all(pos == gv)) and bool(pos.min() >= 0) and bool(pos.max() < N))
    if not ok_vals or not np.array_equal(np.sort(pos), exp):
        picked_null = ok_vals and len(pos) and bool(np.isnan(key[pos]).any())
        sess.record("post", fn, CL_NULL if picked_null else CL_ROWS[op], {"n": n, "size": S, "rows_got": int(len(gv)), "rows_expected": int(len(exp)),
                    "first_unexpected": str(np.setdiff1d(pos, exp)[:5]) if ok_vals else "values are not input values", "first_missing": str(np.setdiff1d(exp, pos)[:5]) if ok_vals else ""}); return 1
    lab_exp = pos if idx is None else idx[pos]
    if not np.array_equal(np.asarray(got.index), lab_exp): sess.record("post", fn, CL_ROWS[op], {"n": n, "size": S, "what": "index labels differ from the labels of the returned rows"}); return 1
    for lab in (3.0, 7.0):
        pg = pos[key[pos] == lab]
        if len(pg) > 1 and not bool(np.all(np.diff(pg) > 0)): sess.record("post", fn, CL_ORDER, {"n": n, "size": S, "group": lab}); break
    if str(got.dtype) != "float64": sess.record("post", fn, CL_DTYPE, {"got": str(got.dtype)})
    return 1


# ----------------------------------------------------------------------------- sidecar contracts on the real functions of the chain
def install(sess):
    def _pre(group_key, ngroups, n, mask):
        gk = np.asarray(group_key)
        if gk.dtype.kind not in "iu": return f"group_key dtype {gk.dtype}"
        if len(gk) and int(gk.max()) >= ngroups: return "group code >= ngroups"
        if mask is not None and (np.asarray(mask).dtype != np.bool_ or len(mask) != len(gk)): return "mask must be boolean, one per row"
    def pre_nth(group_key, ngroups, n, mask=None): return _pre(group_key, ngroups, n, mask)
    def post_nth(out, group_key, ngroups, n, mask=None):
        msg = kernel_mismatch("nth", out, group_key, ngroups, n, mask)
        if msg: return "out[k] == position of the n-th selected row of group k (from the end for negative n), -1 if too short"
    sess.wrap("groupby_lib.groupby.numba", "_find_nth", requires=pre_nth, ensures=post_nth)
    def pre_fl(group_key, ngroups, n, mask=None, forward=True): return _pre(group_key, ngroups, n, mask)
    def post_fl(out, group_key, ngroups, n, mask=None, forward=True):
        msg = kernel_mismatch("first" if forward else "last", out, group_key, ngroups, n, mask)
        if msg: return "out[k] without the -1 padding == positions of the first/last n selected rows of group k in increasing order; shape (ngroups, n)"
    sess.wrap("groupby_lib.groupby.numba", "_find_first_or_last_n", requires=pre_fl, ensures=post_fl)
    def post_sel(out, self, values, ilocs, keep_input_index=False, n=None):
        if not keep_input_index: return None
        take = np.asarray(ilocs)[np.asarray(ilocs) > -1]
        if len(out) != len(take): return "one result row per position ilocs >= 0"
        if len(take) > 64: return None
        try:
            from groupby_lib.util import convert_data_to_arr_list_and_keys
            cols = [c if isinstance(c, pd.Series) else pd.Series(c) for c in convert_data_to_arr_list_and_keys(values)[0]]
            ser = [c for c in cols if not isinstance(c.index, pd.RangeIndex)] or cols
            labels = list(ser[0].index); rows = rows_of(cols, labels)
        except Exception: return None
        gc = [out.iloc[:, j] for j in range(out.shape[1])] if isinstance(out, pd.DataFrame) else [out]
        if collections.Counter(rows_of(gc, list(out.index))) != collections.Counter(rows[int(i)] for i in take): return "rows == the input rows at the positions ilocs >= 0 with their original labels and values"
    sess.wrap("groupby_lib.groupby.core", "GroupBy._get_row_selection", ensures=post_sel)
