"""C06 — rows with a null key never influence any group (public API + kernel level, relational non-interference contract).

P/L (unbounded, maintained elsewhere): every kernel's postcondition for k >= 0 holds with null-key rows present; out[r] = NULLCONST for key[r] < 0;
every index into a per-group state array is non-negative; -1 propagation through _weight_code_sum/_combine_factorizations; L-nullkey.
B (bounded): run-time contract on every public operation and, separately, on the kernel-level functions called with code -1 rows:
   (del)    deleting the null-key rows leaves every group's result unchanged: reductions - same labels and numbers; row-aligned operations - the
            value at every row with a key == the value at the corresponding row of the input without the null-key rows; selections
            (head/tail/nth/groups) - the same rows; group_nearby_members - the same partition of the rows with a key
   (label)  no label is created for a null key (no null label, no null component in a multi-key label, exactly one label per distinct key)
   (own)    changing the VALUES carried by the null-key rows (incl. to null / huge values) changes nothing anywhere in the output
   (marker) in row-aligned outputs every null-key row holds one constant null/neutral marker (null, 0, -1, False): the same in every null-key
            row, and unchanged when the OTHER rows change (their values and their keys are replaced)
   null keys: NaN (float keys), None (object keys), NaT (datetime64/timedelta64 keys), pd.NA (Int64 / string Series), None in a Categorical,
   Arrow null (pyarrow array, pandas ArrowDtype, polars Series), a null in any ONE position of a 2-key or 3-key grouping (first/middle/last/rotating),
   NaN keys under the chunked factorisation (lowered core.THRESHOLD_FOR_CHUNKED_FACTORIZE, restored afterwards) and Arrow ChunkedArray keys with nulls.
Oracle: the operation itself on the input with the null-key rows deleted (relational), the executable specification for the reductions.
"""
import itertools, io, contextlib, collections
import numpy as np, pandas as pd
from . import common as C
from .c05 import _eq, _lab, _at, _mapping, _cmp_maps, _spec_value, _is_canon, sharded_worker

PROP = "C06"; LEVEL = "other"; P_TIER = True
SCOPE = {"quick": "keys over {null,0,1,2} with >=1 null: (kinds) every null-key representation {NaN, None, NaT datetime, NaT timedelta, Int64 NA, string NA, Categorical None, pyarrow null, pandas-Arrow NA, polars null, "
                  "2-key null@first/@last/@rotating, 3-key null@first/@middle/@last/@rotating} x every sequence n<=3 (n=4 up to order-isomorphism) x construction (group_ikey negative exactly at the null rows, no null label) + 8 probe operations; "
                  "(ops) NaN keys with the other kinds rotated, every sequence n<=3 and n=4 up to order-isomorphism of the labels x 7 operation families (13 reductions + spec; 10 transforms; 5 cumulative; 6 rolling/shift/diff; 4 EMA forms incl. times=; head/tail/nth/groups/group_nearby_members/"
                  "index_by_groups; apply/median/quantile) x value classes rotated, each under 4 runs (base, null-key rows deleted, null-key rows' values changed, other rows changed); (kern) kernel-level functions with codes over "
                  "{-1,0,1,2}, every sequence with a -1 for n<=4 and over {-1,0,1} for n=5: ema_grouped (alpha, times=, mask=), cumsum/cummin/cummax/cumcount, rolling_sum/mean/min/max/shift/diff, group_nearby_members, "
                  "_find_nth, find_first_n/last_n, _build_group_sorted_indexer_numba, group_sum/min/last/size; (chunked) NaN keys under the lowered threshold and Arrow ChunkedArray keys with nulls, n<=3; "
                  "1 designed 1_000_000-row case with NaN keys under the real threshold; seeded random cases up to 24 rows",
         "thorough": "as quick with the raw alphabet up to n=4 for (ops) and (kinds) and n=5 up to order-isomorphism for (ops), n<=5 over {-1,0,1,2} and n=6 over {-1,0,1} for (kern), n<=4 for (chunked), random cases up to 64 rows"}
RULE = "a case = (keys with the positions of the nulls, null-key representation, key container, value class, value-null pattern, operation family with its parameters); distinct = distinct canonical JSON; non-trivial = at least one null key and at least one row with a key"
ASSUMPTIONS = ["numpy fancy indexing of the INPUT arrays builds the input without the null-key rows", "pandas/pyarrow/polars construction of the key containers",
               "A-real: floats compared with relative tolerance 1e-9; A-int64",
               "the reference run (same operation on the input without the null-key rows) is the library itself; reductions are additionally compared with the executable specification",
               "key sequences are enumerated up to order-isomorphism of the non-null labels in the quick tier (the library uses keys only through equality, hashing and order)",
               "BOUNDED: pandas glue checked only within the stated scope"]
REQUIRED_CONTRACTS = {"emas._ema_grouped": 1, "numba._cumulative_reduce": 1, "numba._group_by_reduce": 1}
EXPLANATION = ("Modular: non-interference of code -1 rows is a proved property of every kernel (P tier: guards `k < 0: continue`, non-negative indices into per-group state, constant output at -1 rows). What is bounded is the glue: "
               "the factorisation of each null representation to code -1 in every key position, the ngroups+1 trailing slot of transform, result[group_ikey] / arr[group_ikey] broadcasts, the null fill of cumulative results, "
               "row selections and group-sorted outputs. It is decided by a run-time relational contract from the property statement over a bounded-exhaustive space of null positions (bounded, not proved); the same contract is "
               "evaluated on the kernel-level entry points with explicit -1 codes so that an unguarded kernel is caught even where the public API happens to mask it.")
BUDGET = {"quick": 90, "thorough": 600}

KINDS = ("float", "str", "datetime", "timedelta", "Int64", "string", "cat", "arrow", "pd_arrow", "polars", "two@0", "two@1", "two@rot", "three@0", "three@1", "three@2", "three@rot")
FAMS = ("red", "tr", "cum", "roll", "ema", "sel", "grp")
RED = ["size", "count", "sum", "mean", "min", "max", "first", "last", "var", "std"]
ROLLP = [(1, None), (2, 1), (2, None), (3, 1)]


# ----------------------------------------------------------------------------- inputs
def _comps(x, nk):
    """components of the non-null label x in an nk-key grouping"""
    if nk == 2: return (float(x // 2), "ev" if x % 2 == 0 else "od")
    return (int(x % 2), float(x // 2), "ev" if x % 2 == 0 else "od")


def make_keys(kkind, keys, rows=None):
    """-> (object to pass as group key, list of expected labels (None = null key)). rows[i] = original row number of entry i (drives the per-row choices of multi-key nulls)"""
    import pyarrow as pa, polars as pl
    rows = list(range(len(keys))) if rows is None else rows
    ints = [None if x is None else x + 5 for x in keys]
    if kkind == "float": return np.array([np.nan if x is None else float(x) for x in keys], dtype=np.float64), [None if x is None else float(x) for x in keys]
    if kkind == "str": return np.array([None if x is None else "abc"[x] for x in keys], dtype=object), [None if x is None else "abc"[x] for x in keys]
    if kkind == "datetime":
        return np.array([np.datetime64("NaT") if x is None else np.datetime64("2020-01-01") + np.timedelta64(x, "D") for x in keys], dtype="M8[ns]"), [None if x is None else pd.Timestamp("2020-01-01") + pd.Timedelta(days=x) for x in keys]
    if kkind == "timedelta":
        return np.array([np.timedelta64("NaT") if x is None else np.timedelta64(x + 1, "h") for x in keys], dtype="m8[ns]"), [None if x is None else pd.Timedelta(hours=x + 1) for x in keys]
    if kkind == "Int64": return pd.Series(pd.array([pd.NA if x is None else x for x in ints], dtype="Int64")), ints
    if kkind == "string": return pd.Series([None if x is None else "abc"[x] for x in keys], dtype="string"), [None if x is None else "abc"[x] for x in keys]
    if kkind == "cat":
        labs = [None if x is None else "cab"[x] for x in keys]; return pd.Categorical(labs, categories=["c", "a", "b", "unused"]), labs
    if kkind == "arrow": return pa.array(ints, type=pa.int64()), ints
    if kkind == "pd_arrow": return pd.Series(ints, dtype="int64[pyarrow]"), ints
    if kkind == "polars": return pl.Series(ints, dtype=pl.Int64), ints
    if kkind == "pa_chunked":
        h = max(1, len(ints) // 2); return pa.chunked_array([pa.array(ints[:h], type=pa.int64()), pa.array(ints[h:], type=pa.int64())] if len(ints) > 1 else [pa.array(ints, type=pa.int64())]), ints
    if "@" in kkind:
        nk = 2 if kkind.startswith("two") else 3; where = kkind.split("@")[1]; cols = [[] for _ in range(nk)]; labs = []
        for x, r in zip(keys, rows):
            if x is None:
                comp = list(_comps(r % 3, nk)); p = (r % nk) if where == "rot" else int(where); comp[p] = None; labs.append(None)      # the other positions hold components of a REAL label (collision bait)
            else: comp = list(_comps(x, nk)); labs.append(tuple(comp))
            for c, col in zip(comp, cols): col.append(c)
        out = []
        for col in cols:
            sample = next((c for c in col if c is not None), None)
            if isinstance(sample, str) or sample is None and col is cols[-1]: out.append(np.array(col, dtype=object))
            else: out.append(np.array([np.nan if c is None else float(c) for c in col], dtype=np.float64))       # int component becomes float when it has to carry a NaN
        labs = [None if l is None else tuple(float(c) if not isinstance(c, str) else c for c in l) for l in labs]
        return out, labs
    raise ValueError(kkind)


def _own_variant(v, vkind, nullrows):
    """the same values with the null-key rows' entries replaced (alternately by a different number and by a null where the class has one)"""
    w = v.copy()
    for j, r in enumerate(nullrows):
        if vkind in ("float", "float32"): w[r] = np.nan if (j % 2 and not np.isnan(v[r])) else 1e6 + 3 * j
        elif vkind in ("int", "int32"): w[r] = 100003 + 7 * j
        elif vkind == "bool": w[r] = not v[r]
        elif vkind == "datetime": w[r] = np.datetime64("NaT") if (j % 2 and not np.isnat(v[r])) else np.datetime64("1972-02-02T00:00:00.000000007") + np.timedelta64(j, "D")
        elif vkind == "timedelta": w[r] = np.timedelta64("NaT") if (j % 2 and not np.isnat(v[r])) else np.timedelta64(977 + j, "h")
    return w


def _other_variant(v, vkind, nullrows):
    w = v.copy(); ns = set(nullrows)
    for r in range(len(v)):
        if r in ns: continue
        if vkind in ("float", "float32"): w[r] = v[r] * 3 + 7 if not np.isnan(v[r]) else 5.5
        elif vkind in ("int", "int32"): w[r] = v[r] * 3 + 7
        elif vkind == "bool": w[r] = not v[r]
        elif vkind == "datetime": w[r] = (v[r] + np.timedelta64(3, "D")) if not np.isnat(v[r]) else np.datetime64("1971-05-05")
        elif vkind == "timedelta": w[r] = (v[r] + np.timedelta64(3, "h")) if not np.isnat(v[r]) else np.timedelta64(5, "h")
    return w


# ----------------------------------------------------------------------------- case streams
_VK = {"red": ["float", "int", "datetime", "float", "timedelta", "bool"], "tr": ["float", "int", "datetime"], "cum": ["float", "int", "datetime", "timedelta"], "roll": ["float", "int", "datetime"],
       "ema": ["float", "int"], "sel": ["float", "int", "datetime"], "grp": ["float", "int"], "probe": ["float"], "kern": ["float", "int"]}
_ROT = ("float", "str", "float", "two@1", "float", "datetime", "float", "three@1", "float", "cat", "float", "two@0", "float", "Int64", "float", "three@2", "float", "string", "float", "two@rot", "float", "three@rot",
        "float", "timedelta", "float", "three@0")


def _nullpat(vkind, n, j):
    if not C.nullable(vkind) or j % 3 == 0: return [False] * n
    if j % 3 == 1: return [i % 2 == 1 for i in range(n)]
    return [i % 2 == 0 for i in range(n)]


def _params(fam, j):
    if fam in ("roll", "kern"): return {"window": ROLLP[j % 4][0], "minp": ROLLP[j % 4][1], "swin": 1 + (j % 2)}
    return None


def _case(keys, kkind, vkind, nullpat, fam, keyrep="np", params=None):
    c = {"keys": list(keys), "kkind": kkind, "keyrep": keyrep, "vkind": vkind, "nullpat": list(nullpat), "fam": fam}
    if params: c["params"] = params
    return c


def _with_null(keys, null=None):
    return any(x is null or x == null for x in keys) if null is not None else any(x is None for x in keys)


def _kinds_stream(N, symfrom):
    j = 0
    for n in range(1, N + 1):
        for keys in itertools.product([None, 0, 1, 2], repeat=n):
            if None not in keys or (n >= symfrom and not _is_canon(keys)): continue
            for kkind in KINDS:
                j += 1; yield _case(keys, kkind, "float", _nullpat("float", n, j), "probe")


def _ops_stream(N, symfrom):
    j = 0
    for n in range(1, N + 1):
        for keys in itertools.product([None, 0, 1, 2], repeat=n):
            if None not in keys or (n >= symfrom and not _is_canon(keys)): continue
            for fam in FAMS:
                j += 1; vkind = _VK[fam][j % len(_VK[fam])]
                yield _case(keys, _ROT[j % len(_ROT)], vkind, _nullpat(vkind, n, j // 3), fam, params=_params(fam, j))


def _kern_stream(N):
    j = 0
    for n in range(1, N + 2):
        for codes in itertools.product([-1, 0, 1, 2] if n <= N else [-1, 0, 1], repeat=n):
            if -1 not in codes: continue
            j += 1; vkind = _VK["kern"][j % 2]
            yield {"codes": list(codes), "vkind": vkind, "nullpat": _nullpat(vkind, n, j // 2), "fam": "kern", "params": _params("kern", j)}


def _chunked_stream(N):
    j = 0
    for n in range(2, N + 1):
        for keys in itertools.product([None, 0, 1, 2], repeat=n):
            if None not in keys or not _is_canon(keys): continue
            for kkind, keyrep in (("float", "thr"), ("pa_chunked", "np")):
                for fam in ("probe", "cum"):
                    j += 1; yield _case(keys, kkind, "float", _nullpat("float", n, j), fam, keyrep=keyrep)


def cases(tier, seed):
    big = tier == "thorough"
    streams = [_ops_stream(5 if big else 4, 5 if big else 4), _kern_stream(5 if big else 4), _kinds_stream(4, 5 if big else 4), _chunked_stream(4 if big else 3)]
    return C.roundrobin(*streams, weights=(4, 6, 3, 1))


def extra_cases(tier, seed):
    # the REAL chunked factorisation: 1_000_000 float keys, sorted prefix (monotonic piece) with NaN inside it, NaN in the unsorted rest
    return [{"big": 1_000_000, "kkind": "float", "keyrep": "np", "vkind": "float", "fam": "probe", "only": ["size", "sum", "cumcount"]}]


def random_case(rnd, tier):
    n = rnd.randint(5, 64 if tier == "thorough" else 24)
    if rnd.random() < 0.35:
        vkind = rnd.choice(_VK["kern"]); codes = [rnd.choice([-1, -1, 0, 1, 2, 3]) for _ in range(n)]
        if -1 not in codes: codes[rnd.randrange(n)] = -1
        return {"codes": codes, "vkind": vkind, "nullpat": [C.nullable(vkind) and rnd.random() < 0.25 for _ in range(n)], "fam": "kern", "params": _params("kern", rnd.randrange(8))}
    fam = rnd.choice(FAMS + ("probe",)); kkind = rnd.choice(KINDS); vkind = rnd.choice(_VK[fam])
    keys = [rnd.choice([None, None, 0, 1, 2]) for _ in range(n)]
    if None not in keys: keys[rnd.choice([0, n - 1, rnd.randrange(n)])] = None
    return _case(keys, kkind, vkind, [C.nullable(vkind) and rnd.random() < 0.25 for _ in range(n)], fam, params=_params(fam, rnd.randrange(8)))


def nontrivial(case):
    if "big" in case: return True
    ks = case.get("codes", case.get("keys"))
    return any(k is None or k == -1 for k in ks) and any(k is not None and k != -1 for k in ks)


# ----------------------------------------------------------------------------- operations
class _X:
    def __init__(self, v, times, mono): self.v, self.times, self.mono = v, times, mono


def _api_ops(fam, vkind, params, multi):
    temporal = vkind in ("datetime", "timedelta"); ops = {}
    def red(op, **kw):
        if op == "size": return lambda gb, x: gb.size(**kw)
        return lambda gb, x: getattr(gb, op)(x.v, **kw)
    if fam == "red":
        for op in RED:
            if op == "sum" and vkind == "datetime": continue
            if op in ("var", "std") and (temporal or vkind == "bool"): continue
            ops[op] = (red(op), "red")
        ops["agg(list)"] = (lambda gb, x: gb.agg(x.v, ["min", "last"]), "red")
        ops["key_count"] = (lambda gb, x: gb.key_count, "red")
    elif fam == "probe":
        ops["size"] = (red("size"), "red"); ops["sum"] = (red("sum"), "red"); ops["first"] = (red("first"), "red"); ops["min(transform)"] = (red("min", transform=True), "row")
        ops["cumcount"] = (lambda gb, x: gb.cumcount(), "row"); ops["groups"] = (lambda gb, x: {_lab(k): np.asarray(a).tolist() for k, a in gb.groups.items()}, "rowsets")
        ops["ema(alpha)"] = (lambda gb, x: gb.ema(x.v, alpha=0.5), "row"); ops["nth(0)"] = (lambda gb, x: gb.nth(x.v, 0, keep_input_index=True), "rows")
    elif fam == "tr":
        for op in ("size", "count", "sum", "mean", "min", "max", "first", "last", "var"):
            if op == "sum" and vkind == "datetime": continue
            if op == "var" and (temporal or vkind == "bool"): continue
            ops[f"{op}(transform)"] = (red(op, transform=True), "row")
        if not temporal:
            ops["median(transform)"] = (lambda gb, x: gb.median(x.v, transform=True), "row")
            ops["apply(transform)"] = (lambda gb, x: gb.apply(x.v, np.max, transform=True), "row")
    elif fam == "cum":
        for op in ("cumsum", "cummin", "cummax"):
            if op == "cumsum" and vkind == "datetime": continue
            ops[op] = ((lambda op: lambda gb, x: getattr(gb, op)(x.v))(op), "row")
        if not temporal: ops["cumsum(skip_na=False)"] = (lambda gb, x: gb.cumsum(x.v, skip_na=False), "row")
        ops["cumcount"] = (lambda gb, x: gb.cumcount(), "row")
    elif fam == "roll":
        w, mp, sw = params["window"], params["minp"], params["swin"]
        for op in ("rolling_sum", "rolling_mean", "rolling_min", "rolling_max"):
            if temporal and op in ("rolling_sum", "rolling_mean"): continue
            ops[op] = ((lambda op: lambda gb, x: getattr(gb, op)(x.v, window=w, min_periods=mp))(op), "row")
        ops["shift"] = (lambda gb, x: gb.shift(x.v, window=sw), "row")
        ops["diff"] = (lambda gb, x: gb.diff(x.v, window=sw), "row")
    elif fam == "ema":
        ops["ema(alpha)"] = (lambda gb, x: gb.ema(x.v, alpha=0.5), "row")
        ops["ema(halflife)"] = (lambda gb, x: gb.ema(x.v, halflife=1.5), "row")
        ops["ema(times)"] = (lambda gb, x: gb.ema(x.v, halflife="1D", times=x.times), "row")
        ops["ema(index_by_groups)"] = (lambda gb, x: gb.ema(x.v, alpha=0.5, index_by_groups=True), "rowsel")
    elif fam == "sel":
        for n_ in (1, 2):
            ops[f"head({n_})"] = ((lambda n_: lambda gb, x: gb.head(x.v, n_, keep_input_index=True))(n_), "rows")
            ops[f"tail({n_})"] = ((lambda n_: lambda gb, x: gb.tail(x.v, n_, keep_input_index=True))(n_), "rows")
        for n_ in (0, 1, -1): ops[f"nth({n_})"] = ((lambda n_: lambda gb, x: gb.nth(x.v, n_, keep_input_index=True))(n_), "rows")
        if multi: ops["nth(0, group index)"] = (lambda gb, x: gb.nth(x.v, 0), "red")
        ops["groups"] = (lambda gb, x: {_lab(k): np.asarray(a).tolist() for k, a in gb.groups.items()}, "rowsets")
        ops["group_nearby_members"] = (lambda gb, x: gb.group_nearby_members(x.mono, 2.0), "partition")
        ops["rolling_sum(index_by_groups)"] = (lambda gb, x: gb.rolling_sum(x.v, window=2, min_periods=1, index_by_groups=True), "rowsel")
    elif fam == "grp":
        ops["apply(max)"] = (lambda gb, x: gb.apply(x.v, np.max), "red")
        ops["median"] = (lambda gb, x: gb.median(x.v), "red")
        ops["quantile"] = (lambda gb, x: gb.quantile(x.v, q=[0.25, 0.5]), "red")
        ops["apply(cumsum)"] = (lambda gb, x: gb.apply(x.v, np.cumsum), "rowsel")
    else: raise ValueError(fam)
    return ops


def _kern_ops(vkind, params):
    from groupby_lib.groupby import numba as gn, GroupBy
    from groupby_lib import emas
    from numba.typed import List as NL
    w, mp, sw = params["window"], params["minp"], params["swin"]; ops = {}
    # (function, kind); every function takes (codes, ngroups, x) with x.v values, x.times, x.mono, x.mask
    ops["emas.ema_grouped(alpha)"] = (lambda c, g, x: emas.ema_grouped(c, g, x.v, alpha=0.5), "row")
    ops["emas.ema_grouped(halflife)"] = (lambda c, g, x: emas.ema_grouped(c, g, x.v, halflife=1.5), "row")
    ops["emas.ema_grouped(times)"] = (lambda c, g, x: emas.ema_grouped(c, g, x.v, halflife="1D", times=x.times), "row")
    ops["emas.ema_grouped(alpha, mask)"] = (lambda c, g, x: emas.ema_grouped(c, g, x.v, alpha=0.5, mask=x.mask), "row")
    ops["emas.ema_grouped(times, mask)"] = (lambda c, g, x: emas.ema_grouped(c, g, x.v, halflife="1D", times=x.times, mask=x.mask), "row")
    for op in ("cumsum", "cummin", "cummax"): ops[f"numba.{op}"] = ((lambda op: lambda c, g, x: getattr(gn, op)(c, x.v, g))(op), "row")
    ops["numba.cumcount"] = (lambda c, g, x: gn.cumcount(c, None, g), "row")
    for op in ("rolling_sum", "rolling_mean", "rolling_min", "rolling_max"): ops[f"numba.{op}"] = ((lambda op: lambda c, g, x: getattr(gn, op)(c, x.v, g, w, mp))(op), "row")
    ops["numba.rolling_shift"] = (lambda c, g, x: gn.rolling_shift(c, x.v, g, sw), "row")
    ops["numba.rolling_diff"] = (lambda c, g, x: gn.rolling_diff(c, x.v, g, sw), "row")
    ops["numba.group_nearby_members"] = (lambda c, g, x: gn.group_nearby_members(c, x.mono, 2.0, g), "partition")
    for n_ in (0, 1, -1): ops[f"numba._find_nth({n_})"] = ((lambda n_: lambda c, g, x: gn._find_nth(c, g, n_))(n_), "pos")
    ops["numba.find_first_n(2)"] = (lambda c, g, x: gn.find_first_n(c, g, 2), "pos")
    ops["numba.find_last_n(2)"] = (lambda c, g, x: gn.find_last_n(c, g, 2), "pos")
    ops["GroupBy._build_group_sorted_indexer_numba"] = (lambda c, g, x: GroupBy._build_group_sorted_indexer_numba(NL([c]), np.bincount(c[c >= 0], minlength=g).astype(np.int64)), "pos")
    ops["numba.group_sum"] = (lambda c, g, x: gn.group_sum(c, x.v, g), "pergroup")
    ops["numba.group_min"] = (lambda c, g, x: gn.group_min(c, x.v, g), "pergroup")
    ops["numba.group_last"] = (lambda c, g, x: gn.group_last(c, x.v, g), "pergroup")
    ops["numba.group_size"] = (lambda c, g, x: gn.group_size(c, g), "pergroup")
    return ops


def _fn_name(op):
    if op.startswith(("emas.", "numba.", "GroupBy._")): return op.split("(")[0]
    return "GroupBy." + op.split("(")[0]


# ----------------------------------------------------------------------------- comparison helpers
def _neutral(x):
    if C.is_null(x): return True
    if isinstance(x, (int, np.integer)) and not isinstance(x, (bool, np.bool_)) and int(x) == C.MIN_INT: return True
    if isinstance(x, (bool, np.bool_)): return not bool(x)
    if isinstance(x, (pd.Timestamp, pd.Timedelta)): return x.value == 0
    if isinstance(x, (np.datetime64, np.timedelta64)): return x.astype("int64") == 0
    try: return float(x) in (0.0, -1.0)
    except Exception: return False


def _ident(a, b):
    """identical outputs (own-variant clause): null == null, otherwise equal up to the float tolerance"""
    return _eq(a, b)


def _partition(ids, rows):
    """partition of `rows` induced by equal ids, as a set of frozensets of positions-in-rows"""
    d = collections.defaultdict(list)
    for j, r in enumerate(rows): d[ids[r]].append(j)
    return {frozenset(v) for v in d.values()}


def _null_label(l):
    if isinstance(l, tuple): return any(_null_label(x) for x in l)
    return C.is_null(l)


def _rowmap(res):
    inner = res.index.get_level_values(-1) if isinstance(res.index, pd.MultiIndex) else res.index
    return {int(l): res.iloc[i] for i, l in enumerate(inner)}


def _tolist(res):
    if hasattr(res, "iloc"): return [res.iloc[i] for i in range(len(res))]
    return list(np.asarray(res).ravel()) if np.ndim(res) != 2 else [tuple(r) for r in np.asarray(res)]


class _Raised:
    def __init__(self, ex): self.ex = ex
    def __repr__(self): return f"raised {type(self.ex).__name__}: {str(self.ex)[:80]}"


def _try(f):
    try:
        with contextlib.redirect_stdout(io.StringIO()): return f()
    except Exception as ex: return _Raised(ex)


# ----------------------------------------------------------------------------- the check
def _compare(sess, fname, kind, base, dele, own, other, nn, nulls, n, labs_expected=None):
    """base/dele/own/other: results of the 4 runs (dele = null-key rows deleted; own = their values changed; other = the other rows changed). nn = rows with a key, nulls = rows without"""
    R = lambda clause, detail: sess.record("post", fname, clause, detail)
    if kind == "red":
        bm = _mapping(base) if not isinstance(base, dict) else base
        if any(_null_label(l if not (isinstance(base, pd.DataFrame)) else l[0]) for l in bm): R("no label is created for a null key", {"labels": [str(l) for l in bm]})
        if not isinstance(dele, _Raised):
            bad = _cmp_maps(bm, _mapping(dele))
            if bad: R("deleting the null-key rows leaves every group's result unchanged (same labels, same numbers)", {"mismatch(label, with null-key rows, without)": bad[:4]})
        if not isinstance(own, _Raised):
            bad = _cmp_maps(bm, _mapping(own))
            if bad: R("the values carried by null-key rows do not reach any group's result", {"mismatch(label, base, null-key rows' values changed)": bad[:4]})
        return
    if kind == "row":
        b = _tolist(base)
        if len(b) != n: R("row-aligned output has one entry per input row", {"len": len(b), "n": n}); return
        if not isinstance(dele, _Raised):
            d = _tolist(dele); bad = [(int(r), str(b[r]), str(d[j])) for j, r in enumerate(nn) if j >= len(d) or not _eq(b[r], d[j])]
            if bad: R("deleting the null-key rows leaves the value at every row with a key unchanged", {"mismatch(row, with null-key rows, without)": bad[:4], "null_key_rows": nulls})
        if not isinstance(own, _Raised):
            o = _tolist(own); bad = [(int(r), str(b[r]), str(o[r])) for r in range(n) if not _ident(b[r], o[r])]
            if bad: R("the values carried by null-key rows do not reach any row of the output", {"mismatch(row, base, null-key rows' values changed)": bad[:4], "null_key_rows": nulls})
        marks = [b[r] for r in nulls]
        if any(not _ident(m, marks[0]) for m in marks) or not _neutral(marks[0]):
            R("null-key rows hold one constant null/neutral marker", {"values at null-key rows": [str(m) for m in marks][:6], "null_key_rows": nulls})
        elif not isinstance(other, _Raised):
            t = _tolist(other); bad = [(int(r), str(b[r]), str(t[r])) for r in nulls if r >= len(t) or not _ident(b[r], t[r])]
            if bad: R("the marker in null-key rows does not depend on any other row", {"mismatch(row, base, other rows changed)": bad[:4]})
        return
    if kind == "rows":          # selections indexed by the original row label (keep_input_index=True)
        bm = _rowmap(base)
        if any(r in bm for r in nulls): R("a null-key row is never selected", {"selected rows": sorted(bm), "null_key_rows": nulls})
        if not isinstance(dele, _Raised):
            dm = {nn[j]: v for j, v in _rowmap(dele).items()}
            if set(bm) - set(nulls) != set(dm) or any(not _eq(bm[r], dm[r]) for r in dm if r in bm):
                R("deleting the null-key rows leaves the selected rows unchanged", {"with null-key rows": {int(k): str(v) for k, v in bm.items()}, "without (mapped back)": {int(k): str(v) for k, v in dm.items()}})
        if not isinstance(own, _Raised):
            om = _rowmap(own)
            if set(om) != set(bm) or any(not _ident(bm[r], om[r]) for r in bm): R("the values carried by null-key rows do not reach the selection", {"base": {int(k): str(v) for k, v in bm.items()}, "changed": {int(k): str(v) for k, v in om.items()}})
        return
    if kind == "rowsel":        # group-sorted output of a row-aligned operation: (labels.., row) -> value, only rows with a key
        try: bm = _rowmap(base)
        except Exception as ex: R("group-sorted output is indexed by (label, row)", str(ex)[:120]); return
        if any(_null_label(tuple(l)[:-1]) for l in base.index): R("no label is created for a null key", {"index": [str(l) for l in base.index][:6]})
        if not isinstance(dele, _Raised):
            dm = {nn[j]: v for j, v in _rowmap(dele).items() if j < len(nn)}
            if set(bm) != set(dm) or any(not _eq(bm[r], dm[r]) for r in dm):
                R("deleting the null-key rows leaves the value at every row with a key unchanged (group-sorted output)", {"with null-key rows": {int(k): str(v) for k, v in bm.items()}, "without (mapped back)": {int(k): str(v) for k, v in dm.items()}})
        return
    if kind == "rowsets":       # groups: label -> rows
        if any(_null_label(l) for l in base): R("no label is created for a null key", {"labels": [str(l) for l in base]})
        if any(r in nulls for rows in base.values() for r in rows): R("a null-key row belongs to no group", {"groups": {str(k): v for k, v in base.items()}, "null_key_rows": nulls})
        if not isinstance(dele, _Raised):
            dm = {l: [nn[j] for j in rows] for l, rows in dele.items()}
            if dm != base: R("deleting the null-key rows leaves every group's rows unchanged", {"with null-key rows": {str(k): v for k, v in base.items()}, "without (mapped back)": {str(k): v for k, v in dm.items()}})
        return
    if kind == "partition":
        b = _tolist(base)
        if len(b) != n: R("row-aligned output has one entry per input row", {"len": len(b), "n": n}); return
        if not isinstance(dele, _Raised):
            d = _tolist(dele)
            if _partition(b, nn) != _partition(d, list(range(len(nn)))): R("deleting the null-key rows leaves the sub-groups of the rows with a key unchanged (same partition)", {"with null-key rows": [int(x) for x in b], "without": [int(x) for x in d], "null_key_rows": nulls})
        if any(b[r] == b[q] for r in nulls for q in nn): R("a null-key row shares no sub-group with a row that has a key", {"ids": [int(x) for x in b], "null_key_rows": nulls})
        marks = [b[r] for r in nulls]
        if any(m != marks[0] for m in marks) or not _neutral(marks[0]): R("null-key rows hold one constant null/neutral marker", {"values at null-key rows": [str(m) for m in marks][:6], "null_key_rows": nulls})
        if not isinstance(own, _Raised):
            o = _tolist(own)
            if _partition(o, nn) != _partition(b, nn): R("the values carried by null-key rows do not reach the sub-groups of the rows with a key", {"base": [int(x) for x in b], "null-key rows' values changed": [int(x) for x in o], "null_key_rows": nulls})
        return
    if kind == "pos":           # arrays of row positions (-1 = none)
        b = np.asarray(base)
        if np.isin(b, nulls).any(): R("a null-key row is never selected", {"positions": b.tolist(), "null_key_rows": nulls})
        if not isinstance(dele, _Raised):
            d = np.asarray(dele); e = np.where(d >= 0, np.asarray(nn + [0])[np.clip(d, 0, None)], -1)
            if b.shape != e.shape or not (b == e).all(): R("deleting the null-key rows leaves the selected rows unchanged", {"with null-key rows": b.tolist(), "without (mapped back)": e.tolist()})
        return
    if kind == "pergroup":
        b = _tolist(base)
        for nm, o in (("deleting the null-key rows leaves every group's result unchanged", dele), ("the values carried by null-key rows do not reach any group's result", own)):
            if isinstance(o, _Raised): continue
            ol = _tolist(o)
            if len(ol) != len(b) or any(not _eq(x, y) for x, y in zip(b, ol)): R(nm, {"base": [str(x) for x in b], "other run": [str(x) for x in ol]})


def _check_kernel(sess, case):
    codes = np.array(case["codes"], dtype=np.int64); n = len(codes); vkind = case["vkind"]; g = max(1, int(codes.max()) + 1)
    v, vals = C.make_values(vkind, n, case["nullpat"]); nn = [i for i in range(n) if codes[i] >= 0]; nulls = [i for i in range(n) if codes[i] < 0]; nna = np.array(nn, dtype=np.int64)
    times = np.datetime64("2020-01-01", "ns") + np.cumsum([(i * 3) % 4 + 1 for i in range(n)]).astype("m8[D]").astype("m8[ns]")
    mono = np.cumsum([(i * 5) % 3 + 1 for i in range(n)]).astype(np.float64)
    mask = np.array([(i * 7 + 1) % 4 != 0 for i in range(n)], dtype=bool)
    ops = _kern_ops(vkind, case["params"]); calls = 0
    if "op" in case: ops = {o: f for o, f in ops.items() if o == case["op"]}
    vo = _own_variant(v, vkind, nulls); mono_o = mono.copy()
    for j, r in enumerate(nulls): mono_o[r] = mono[r] + (0.75 if j % 2 else -0.75)          # still monotone (steps are >= 1), but a different neighbour distance
    vt = _other_variant(v, vkind, nulls); codes_t = np.where(codes >= 0, (codes + 1) % g, -1)
    for op, (fn, kind) in ops.items():
        sess.current_case = dict(case, op=op); fname = _fn_name(op)
        x = _X(v, times, mono); x.mask = mask
        base = _try(lambda: fn(codes, g, x)); calls += 1
        if isinstance(base, _Raised):
            sess.record("raises", fname, f"codes with -1 rows are valid kernel input: {type(base.ex).__name__}", str(base.ex)[:200]); continue
        xd = _X(v[nna], times[nna], mono[nna]); xd.mask = mask[nna]
        dele = _try(lambda: fn(codes[nna], g, xd)) if len(nn) else _Raised(ValueError("empty")); calls += 1
        xo = _X(vo, times, mono_o); xo.mask = mask; own = _try(lambda: fn(codes, g, xo)); calls += 1
        other = _Raised(ValueError("n/a"))
        if kind == "row":
            xt = _X(vt, times, mono); xt.mask = mask; other = _try(lambda: fn(codes_t, g, xt)); calls += 1
        try: _compare(sess, fname, kind, base, dele, own, other, nn, nulls, n)
        except Exception as ex: sess.record("post", fname, f"result with -1 rows has the shape of the result without them (comparison failed: {type(ex).__name__})", str(ex)[:200])
    return calls


def _big_keys(n):
    i = np.arange(n); k = np.where(i < n // 2, (i // 1000).astype(np.float64), ((i * 7919) % 97).astype(np.float64))      # sorted first half (monotonic piece), scrambled second half
    k[(i % 1013) == 7] = np.nan; k[0] = 0.0
    return k


def check_case(sess, case):
    if case["fam"] == "kern": return _check_kernel(sess, case)
    from groupby_lib.groupby import GroupBy, core as gc
    big = "big" in case; kkind = case["kkind"]; vkind = case["vkind"]; fam = case["fam"]
    if big:
        n = case["big"]; k = _big_keys(n); nullmask = np.isnan(k); labs = None; i = np.arange(n); v = ((i * 7) % 11 - 3 + (i % 5) * 0.25).astype(np.float64); vals = None
        nn = list(np.nonzero(~nullmask)[0]); nulls = list(np.nonzero(nullmask)[0]); keys = None
    else:
        keys = case["keys"]; n = len(keys); k, labs = make_keys(kkind, keys); v, vals = C.make_values(vkind, n, case["nullpat"])
        nn = [i for i in range(n) if keys[i] is not None]; nulls = [i for i in range(n) if keys[i] is None]
    nna = np.array(nn, dtype=np.int64)
    times = np.datetime64("2020-01-01", "ns") + np.cumsum([(i * 3) % 4 + 1 for i in range(n)]).astype("m8[D]").astype("m8[ns]") if not big else None
    mono = np.cumsum([(i * 5) % 3 + 1 for i in range(n)]).astype(np.float64) if not big else None
    multi = "@" in kkind
    ops = _api_ops(fam, vkind, case.get("params"), multi); calls = 0
    if "op" in case: ops = {o: f for o, f in ops.items() if o == case["op"]}
    if "only" in case: ops = {o: f for o, f in ops.items() if o in case["only"]}
    thr = case["keyrep"] == "thr"
    def build(kobj):
        old = gc.THRESHOLD_FOR_CHUNKED_FACTORIZE
        try:
            if thr: gc.THRESHOLD_FOR_CHUNKED_FACTORIZE = 1
            return GroupBy(kobj)
        finally: gc.THRESHOLD_FOR_CHUNKED_FACTORIZE = old
    # the four inputs
    if big:
        kd = k[nna]; kt = None
    else:
        kd, _ = make_keys(kkind, [keys[r] for r in nn], rows=nn)
        kt, _ = make_keys(kkind, [None if x is None else (x + 1) % 3 for x in keys])
    vo = _own_variant(v, vkind, nulls if not big else nulls[:50]); vt = _other_variant(v, vkind, nulls) if not big else None
    mono_o = None
    if mono is not None:
        mono_o = mono.copy()
        for j, r in enumerate(nulls): mono_o[r] = mono[r] + (0.75 if j % 2 else -0.75)
    fresh = thr or kkind == "pa_chunked" or big          # chunked keys are unified in place by some operations: fresh object per call
    gbs = {}
    def gb_for(name, kobj):
        if fresh or name not in gbs: gbs[name] = _try(lambda: build(kobj))
        return gbs[name]
    pick = lambda a: None if a is None else a[nna]
    # ---- construction: GroupBy.group_ikey (public: "integer key for each original row identifying its group") is negative exactly at the null-key rows
    g0 = _try(lambda: build(k)); calls += 1
    if isinstance(g0, _Raised):
        if len(nn) and not isinstance(_try(lambda: build(kd)), _Raised):
            sess.current_case = case; sess.record("raises", "GroupBy.__init__", f"null keys must be ignored, not make the construction fail: {type(g0.ex).__name__}", str(g0.ex)[:200])
        return calls
    try:
        ik = g0.group_ikey; ik = np.concatenate([c.to_numpy(zero_copy_only=False) for c in ik.chunks]) if hasattr(ik, "chunks") else np.asarray(ik)
        if ik.dtype.kind not in "iu":
            sess.current_case = case; sess.record("post", "GroupBy.__init__", "null keys get the integer code -1", {"group_ikey dtype": str(ik.dtype), "group_ikey": str(ik[:8])}); return calls        # every operation fails downstream: one finding, not one per operation
        neg = [int(i) for i in np.nonzero(ik.astype(np.int64) < 0)[0]]
        if neg != [int(i) for i in nulls] and ik.dtype.kind == "i":
            sess.current_case = case; sess.record("post", "GroupBy.__init__", "group_ikey is negative exactly at the null-key rows", {"negative at": neg[:8], "null_key_rows": [int(i) for i in nulls][:8]})
        if ik.dtype.kind == "u" and len(nulls):
            sess.current_case = case; sess.record("post", "GroupBy.__init__", "group_ikey is negative exactly at the null-key rows", {"group_ikey dtype": str(ik.dtype) + " (cannot hold -1)", "null_key_rows": [int(i) for i in nulls][:8]})
        if any(_null_label(_lab(l)) for l in g0.result_index): sess.current_case = case; sess.record("post", "GroupBy.__init__", "no label is created for a null key", {"result_index": [str(l) for l in g0.result_index][:8]})
    except Exception as ex:
        sess.current_case = case; sess.record("post", "GroupBy.__init__", f"group_ikey/result_index are readable after construction ({type(ex).__name__})", str(ex)[:200])
    for op, (fn, kind) in ops.items():
        sess.current_case = dict(case, op=op); fname = _fn_name(op)
        # with NO keyed row the EMA / row-selection / nearby-members kernels get zero-length per-group state (ngroups == 0): an unguarded kernel would write out of
        # bounds and take the checking process down instead of producing a finding. The all-null input of these kernels is exercised at kernel level with ngroups >= 1.
        if not len(nn) and (op.startswith("ema") or kind in ("rows", "rowsets", "partition", "rowsel")): continue
        def run(name, kobj, x):
            g = gb_for(name, kobj)
            if isinstance(g, _Raised): return g
            return _try(lambda: fn(g, x))
        base = run("base", k, _X(v, times, mono)); calls += 1
        dele = run("dele", kd, _X(pick(v), pick(times), pick(mono))) if len(nn) else _Raised(ValueError("no row with a key")); calls += 1
        if isinstance(base, _Raised):
            if not len(nn) or isinstance(dele, _Raised): continue     # no row has a key (no group's result to preserve), or the operation fails without the null-key rows as well: not about null keys
            sess.record("raises", fname, f"null keys must be ignored, not make the operation fail: {type(base.ex).__name__}", str(base.ex)[:200]); continue
        own = run("base", k, _X(vo, times, mono_o)); calls += 1
        other = _Raised(ValueError("n/a"))
        if kind == "row" and not big and len(nn): other = run("other", kt, _X(vt, times, mono)); calls += 1
        try:
            _compare(sess, fname, kind, base, dele, own, other, nn, nulls, n)
            if kind == "red" and op in RED and not big:
                exp = {_lab(lab): _spec_value(op, [vals[r] for r in nn if labs[r] == lab], vkind) for lab in dict.fromkeys(labs[r] for r in nn)}
                got = _mapping(base); bad = []
                if set(got) != set(exp): bad = [("labels", sorted(map(str, got)), sorted(map(str, exp)))]
                else:
                    for l, e in exp.items():
                        gv = got[l]
                        if vkind == "bool" and e is None: e = False
                        if op == "mean" and vkind in ("datetime", "timedelta") and e is not None and not C.is_null(gv):
                            a, b = (pd.Timestamp(gv).value if vkind == "datetime" else pd.Timedelta(gv).value), e.value
                            if abs(a - b) <= max(2, abs(b) * 2.0 ** -50): continue
                        if op in ("var", "std") and e is not None and not C.is_null(gv) and abs(float(gv) - e) <= 1e-7 * max(1.0, abs(e)): continue
                        if not C.same(gv, e): bad.append((str(l), str(gv), str(e)))
                if bad: sess.record("post", fname, "reduction == specification over the rows with a key (one label per distinct key, none for null keys)", {"mismatch(label, got, expected)": bad[:4]})
        except Exception as ex:
            sess.record("post", fname, f"result with null-key rows has the shape of the result without them (comparison failed: {type(ex).__name__})", str(ex)[:200])
    return calls


# ----------------------------------------------------------------------------- sharding by JIT class (see c05.sharded_worker: the reducer-typed kernels are re-compiled in every process)
_CLASS_WEIGHTS = (("K", 3), ("R", 7), ("Cu", 2), ("Ot", 4))


def _class(case):
    fam = case["fam"]
    if fam == "kern": return "K"
    if fam == "cum": return "Cu"
    if fam in ("roll", "ema", "sel"): return "Ot"
    return "R"


def worker(rank, nprocs, tier, seed, budget):
    import sys
    return sharded_worker(sys.modules[__name__], _class, _CLASS_WEIGHTS, rank, nprocs, tier, seed, budget)


# ----------------------------------------------------------------------------- sidecar contracts on the real functions
def install(sess):
    def pre_gbr(group_key, values, target, reduce_func, indexer=None, check_in_bounds=True):
        gk = np.asarray(group_key)
        if gk.dtype.kind not in "iu": return f"group codes are not integers (dtype {gk.dtype}): null keys were not mapped to -1"
        if len(values) != len(gk): return "len(values) != len(group_key)"
        if len(gk) and int(gk.max()) >= len(target): return "group code >= len(target)"
    sess.wrap("groupby_lib.groupby.numba", "_group_by_reduce", requires=pre_gbr)
    # the EMA kernels and the cumulative kernel are reached through the public API and directly: count the evaluations (vacuity guard) and monitor the
    # bounds obligation that makes non-interference a kernel property: ngroups must cover every non-negative code (a -1 code is legal input)
    def pre_ema(group_key, values, alpha, ngroups, mask=None):
        gk = np.asarray(group_key)
        if gk.dtype.kind not in "iu": return f"group codes are not integers (dtype {gk.dtype}): null keys were not mapped to -1"
        if len(gk) and int(gk.max()) >= ngroups: return "group code >= ngroups"
        if len(gk) != len(values): return "len(values) != len(group_key)"
    sess.wrap("groupby_lib.emas", "_ema_grouped", requires=pre_ema)
    def pre_cum(group_key, values, reduce_func, ngroups, target, mask=None):
        gk = np.asarray(group_key)
        if gk.dtype.kind not in "iu": return f"group codes are not integers (dtype {gk.dtype}): null keys were not mapped to -1"
        if len(gk) and int(gk.max()) >= ngroups: return "group code >= ngroups"
        if len(target) != len(gk): return "len(target) != len(group_key)"
    sess.wrap("groupby_lib.groupby.numba", "_cumulative_reduce", requires=pre_cum)
